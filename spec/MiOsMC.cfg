SPECIFICATION MCSpec
CONSTANTS
  RelaxedOs = FALSE
  Units = 4
  MaxBlocks = 2
  MaxEvents = 4
VIEW MCView
INVARIANT MCInv
CHECK_DEADLOCK FALSE
