------------------------------ MODULE MiPageGen ------------------------------
(* Behaviour generator over MiPage: records which thread takes each atomic step; in -simulate mode the recorded
   schedule is printed once per behaviour (deterministic Finish step) and replayed in the real allocator by the
   "guided" strategy of the scheduler (thread ids: owner = 0, remotes = 1, 2, ...). *)
EXTENDS MiPage, Json
CONSTANTS GenLen
VARIABLES hist, fin
genVars == <<vars, hist, fin>>
GenInit == Init /\ hist = <<>> /\ fin = FALSE
GenNext ==
  \/ /\ ~fin /\ Len(hist) < GenLen /\ ONext /\ hist' = Append(hist, "o") /\ UNCHANGED fin
  \/ /\ ~fin /\ Len(hist) < GenLen /\ \E t \in Remotes : RNext(t) /\ hist' = Append(hist, ToString(t)) /\ UNCHANGED fin
  \/ /\ ~fin /\ (Len(hist) >= GenLen \/ ~ENABLED Next) /\ Len(hist) > 0 /\ fin' = TRUE /\ UNCHANGED <<vars, hist>>
GenSpec == GenInit /\ [][GenNext]_genVars
GenEmit == fin => PrintT(<<"SCHEDULE", ToJson(hist)>>)
=============================================================================
