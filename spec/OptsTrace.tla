------------------------------ MODULE OptsTrace ------------------------------
(***************************************************************************
  Trace specification for C20: validates the rows recorded by harness/drv_opts.c (ndjson, one row = one step)
  against MiOptions.  The driver only measures; every comparison is a guard evaluated here by TLC.

  Option half.  A process logs its environment (character codes), the pristine option table, then what mi_option_get /
  is_enabled / get_size return for every option after the allocator's load-time initialisation, then scripted
  Set/SetDefault/Enable/Disable/clamp/reset operations.  The model replays the same operations on its own table
  (MiOptions: InitF, SetF, SetDefaultF, Parse) and the guards compare:
     ParseOK                 a well-formed environment value is the value of the option (value = Parse(tokens))
     MalformedKeepsDefault   a malformed value leaves the default (= the model's table = the empty-environment baseline run)
     DefaultKept             no environment variable: the default
     SetGet / GuardedCoupling / SetDefaultApplies / SetDefaultKeepsInit / SetDefaultGet / ClampOK / EnabledOK / GetSizeOK
     Total                   every process ends with an `exit` row and exit status 0; no crash row
  Output half (measurements of buffers that end at a PROT_NONE page, also run under AddressSanitizer):
     JsonInBuffer / JsonOwned   mi_stats_get_json: result is the caller's buffer, terminated, strlen < size
     FmtBounded                 _mi_snprintf / _mi_strlcpy / _mi_strlcat: terminated, strlen < size, ret = strlen; size 0: untouched
     ChunkBounded               every string handed to an output function is terminated and shorter than the internal buffer
     BufferedOutBounded         the line buffer of the statistics printer never hands out more than its capacity
  Guards are IF-THEN-ELSE (never `cond \/ Print`): with Relaxed = TRUE a failing guard prints GUARDFAIL and the
  behaviour continues, so one pass reports every failing row.  Acceptance = all rows consumed and no GUARDFAIL.
 ***************************************************************************)
EXTENDS MiOptions, Json, IOUtils

CONSTANTS Relaxed

VARIABLES
  step,     \* rows consumed
  prist,    \* the pristine table of the current process (from its dflt rows)
  base,     \* values observed in the empty-environment baseline process (src = "base")
  ph        \* "idle" / "run" / "exited"

Tr == ndJsonDeserialize(IOEnv.TRACE)

vars == <<tab, env, nops, last, touched, step, prist, base, ph>>

G(name, cond) == IF cond THEN TRUE ELSE (Relaxed /\ PrintT(<<"GUARDFAIL", name, step + 1>>))
GD(name, detail, cond) == IF cond THEN TRUE ELSE (Relaxed /\ PrintT(<<"GUARDFAIL", name, step + 1, detail>>))
\* TLC wraps printed tuples longer than 80 characters, the runner reads one line: keep names and details short
OptId(ev) == "opt" \o ToString(ev.i)

NoZ == [neg |-> FALSE, mag |-> <<-1>>]

TraceInit ==
  /\ tab = PristineTable /\ env = << >> /\ nops = 0 /\ last = [op |-> "none", o |-> 0, v |-> Z(0)]
  /\ touched = [o \in Opts |-> FALSE]
  /\ step = 0 /\ prist = PristineTable /\ base = [o \in Opts |-> NoZ] /\ ph = "idle"

Consume == step' = step + 1
Frame == UNCHANGED <<nops, last, touched>>
Keep == UNCHANGED <<tab, env, prist, base, ph>>

\* sizes of the allocator's internal buffers (src/options.c, src/stats.c)
ChunkBound(via) == CASE via = "delayed" -> 16384            \* MI_MAX_DELAY_OUTPUT
                     [] via = "stats_print_out" -> 255      \* line buffer char buf[256] of _mi_stats_print
                     [] OTHER -> 511                        \* message buffer char buf[512] of mi_vfprintf

\* name of the guard that protects the value of an entry, by the way the model established it
ValueGuard(how) == CASE how \in {"bool", "num"} -> "ParseOK"
                     [] how = "malformed" -> "MalformedKeepsDefault"
                     [] how = "default" -> "DefaultKept"
                     [] how = "set" -> "SetGet"
                     [] how = "coupled" -> "GuardedCoupling"
                     [] how = "setdefault" -> "SetDefaultGet"
                     [] OTHER -> "AdoptedStable"

Start(ev) ==
  /\ Consume /\ Frame
  /\ GD("Harness", "snapshot", ev.snap_ok /\ ev.nopts = NOpts)
  /\ GD("Total", "previous process unfinished", ph = "idle")
  /\ env' = ev.env /\ tab' = PristineTable /\ prist' = PristineTable /\ ph' = "run" /\ UNCHANGED base

Dflt(ev) ==
  LET i == ev.i IN
  /\ Consume /\ Frame
  /\ GD("SpecTable", OptId(ev), i \in Opts /\ OptTable[i].name = ev.opt /\ OptTable[i].legacy = ev.legacy /\ OptTable[i].kib = ev.kib)
  /\ GD("SpecDefault", OptId(ev), IF OptTable[i].name = "show_errors" THEN ev.val \in {Z(0), Z(1)} ELSE ev.val = Z(OptTable[i].dflt))
  /\ tab' = [tab EXCEPT ![i] = Entry(ev.val, InitOfInt(ev.init), "default")]
  /\ prist' = [prist EXCEPT ![i] = Entry(ev.val, InitOfInt(ev.init), "default")]
  /\ UNCHANGED <<env, base, ph>>

Loaded(ev) ==
  /\ Consume /\ Frame
  /\ tab' = InitAllF(tab, env)                  \* _mi_options_init: mi_option_get on every option, in index order
  /\ UNCHANGED <<env, prist, base, ph>>

GetRow(ev) ==
  LET i == ev.i
      t1 == GetF(tab, env, i)
      e == t1[i]
      adopt == e.how = "undemanded"
  IN
  /\ Consume /\ Frame
  /\ IF adopt THEN TRUE ELSE GD(ValueGuard(e.how), OptId(ev), ev.val = e.val)
  /\ IF e.how = "malformed" /\ ev.src = "env" /\ base[i] # NoZ
       THEN GD("MalformedKeepsDefault", OptId(ev), ev.val = base[i]) ELSE TRUE
  /\ GD("EnabledOK", OptId(ev), ev.en = ~ZIsZero(ev.val))
  /\ GD("GetSizeOK", OptId(ev), SizeWraps(i, ev.val) \/ ev.size = SizeOf(i, ev.val))
  /\ tab' = [t1 EXCEPT ![i] = Entry(ev.val, IF adopt THEN InitOfInt(ev.init) ELSE e.init, IF adopt THEN "adopted" ELSE e.how)]
  /\ base' = IF ev.src = "base" THEN [base EXCEPT ![i] = ev.val] ELSE base
  /\ UNCHANGED <<env, prist, ph>>

OpRow(ev) ==
  LET i == ev.i
      isSet == ev.op \in {"set", "enable", "disable", "seten"}
      v == CASE ev.op = "enable" -> Z(1) [] ev.op = "disable" -> Z(0) [] OTHER -> ev.arg
      t1 == IF isSet THEN SetF(tab, i, v, "set") ELSE SetDefaultF(tab, i, v)
      unknown == tab[i].how = "undemanded"              \* init state not yet observed
      gname == IF isSet THEN "SetGet"
               ELSE IF tab[i].init = "INITIALIZED" THEN "SetDefaultKeepsInit" ELSE "SetDefaultApplies"
  IN
  /\ Consume /\ Frame
  /\ ev.op \in {"set", "enable", "disable", "seten", "setdef", "setendef"}
  /\ IF unknown /\ ~isSet THEN TRUE ELSE GD(gname, OptId(ev), ev.val = t1[i].val)
  /\ tab' = [t1 EXCEPT ![i].val = ev.val]
  /\ UNCHANGED <<env, prist, base, ph>>

TabRow(ev) ==      \* raw table entry, read without calling mi_option_get
  LET i == ev.i e == tab[i] IN
  /\ Consume /\ Frame
  /\ IF e.how = "undemanded" THEN TRUE
     ELSE GD(IF e.how = "coupled" THEN "GuardedCoupling" ELSE "TableOK", OptId(ev), ev.val = e.val)
  /\ tab' = [tab EXCEPT ![i].val = ev.val]
  /\ UNCHANGED <<env, prist, base, ph>>

ClampRow(ev) ==
  LET i == ev.i t1 == GetF(tab, env, i) IN
  /\ Consume /\ Frame
  /\ IF t1[i].how = "undemanded" THEN TRUE ELSE GD("ClampOK", OptId(ev), ev.val = ClampZ(t1[i].val, ev.lo, ev.hi))
  /\ tab' = t1
  /\ UNCHANGED <<env, prist, base, ph>>

ChunkRow(ev) ==
  /\ Consume /\ Frame /\ Keep
  /\ GD("ChunkBounded", ev.via, ev.terminated /\ ev.len <= ChunkBound(ev.via))

JsonRow(ev) ==
  /\ Consume /\ Frame /\ Keep
  /\ IF ev.null \/ ev.size = 0
       THEN GD("JsonOwned", "size" \o ToString(ev.size), ~ev.ret_null /\ ~ev.ret_is_buf /\ ev.terminated /\ ~ev.under)
       ELSE GD("JsonInBuffer", "size" \o ToString(ev.size), ~ev.ret_null /\ ev.ret_is_buf /\ ev.terminated /\ ev.len < ev.size /\ ~ev.under)

FmtRow(ev) ==
  /\ Consume /\ Frame /\ Keep
  /\ \A j \in 1..Len(ev.size) :
       LET n == ev.size[j] IN
       GD("FmtBounded", "fmt" \o ToString(ev.fmt_id) \o "/" \o ToString(n) \o "/" \o ToString(ev.args),
          /\ ev.under[j] = 0
          /\ IF n = 0 THEN ev.ret[j] = 0 /\ ev.len[j] = 0
             ELSE ev.terminated[j] = 1 /\ ev.len[j] < n /\ ev.ret[j] = ev.len[j])

BufOutRow(ev) ==     \* mi_buffered_out with a line buffer of capacity `count` (storage count+1, ends at the guard page)
  /\ Consume /\ Frame /\ Keep
  /\ GD("BufferedOutBounded", "count" \o ToString(ev.count) \o "/" \o ToString(ev.msglen),
        ev.unterminated = 0 /\ ev.maxlen <= ev.count)

TraceNext ==
  /\ step < Len(Tr)
  /\ LET ev == Tr[step + 1] IN
     CASE ev.k = "start" -> Start(ev)
       [] ev.k = "dflt" -> Dflt(ev)
       [] ev.k = "loaded" -> Loaded(ev)
       [] ev.k = "get" -> GetRow(ev)
       [] ev.k = "op" -> OpRow(ev)
       [] ev.k = "tab" -> TabRow(ev)
       [] ev.k = "clamp" -> ClampRow(ev)
       [] ev.k = "reset" -> Consume /\ Frame /\ tab' = prist /\ UNCHANGED <<env, prist, base, ph>>
       [] ev.k = "badidx" -> /\ Consume /\ Frame /\ Keep          \* setters / getters with an index outside the option table: no write anywhere, the getters answer 0
                             /\ GD("BadIndexIgnored", <<ev.idx, ev.same, ev.got>>, ev.same /\ ev.got = 0 /\ ~ev.en /\ ev.sz = 0)
       [] ev.k = "env" -> Consume /\ Frame /\ env' = ev.env /\ UNCHANGED <<tab, prist, base, ph>>
       [] ev.k = "alloc" -> Consume /\ Frame /\ Keep
       [] ev.k = "chunk" -> ChunkRow(ev)
       [] ev.k = "json" -> JsonRow(ev)
       [] ev.k = "fmt" -> FmtRow(ev)
       [] ev.k = "bufout" -> BufOutRow(ev)
       [] ev.k = "cfg" -> /\ Consume /\ Frame
                          /\ GD("Total", "previous process unfinished", ph = "idle")
                          /\ ph' = "run" /\ UNCHANGED <<tab, env, prist, base>>
       [] ev.k = "crash" -> Consume /\ Frame /\ Keep /\ GD("Total", ev.ctx \o " " \o ev.sig, FALSE)
       [] ev.k = "exit" -> Consume /\ Frame /\ ph' = "exited" /\ UNCHANGED <<tab, env, prist, base>>
       [] ev.k = "end" -> /\ Consume /\ Frame         \* appended by the runner: exit status of the process
                          /\ GD("Total", "exit status " \o ToString(ev.rc), ph = "exited" /\ ev.rc = 0)
                          /\ ph' = "idle" /\ UNCHANGED <<tab, env, prist, base>>
       [] OTHER -> FALSE

TraceSpec == TraceInit /\ [][TraceNext]_vars

TraceAccepted ==
  /\ PrintT(<<"TVDIAMETER", TLCGet("stats").diameter - 1>>)
  /\ TLCGet("stats").diameter - 1 = Len(Tr)

Inv == \A o \in Opts : tab[o].init \in Inits
=============================================================================
