SPECIFICATION Spec
CONSTANTS NA = 2
 Threads = {"t1", "t2"}
 Delay = 1
 MaxOps = 3
 Variant = "fixed"
INVARIANT Quiescent
INVARIANT NeverPurgeInUse
CHECK_DEADLOCK FALSE
