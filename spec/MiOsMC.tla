------------------------------- MODULE MiOsMC -------------------------------
(***************************************************************************
  Bounded instance of MiOs for exhaustive model checking: an abstract allocator + program that issues OS calls
  (map / unmap / protect / advise over ranges of an address space of Units 64 KiB units), hands out blocks and frees them,
  constrained only by the guards of MiOs (RelaxedOs = FALSE): a destructive OS event must avoid live blocks, a block
  must be returned inside mapped read/write memory.  TLC checks that under this contract the reconstructed OS state
  stays consistent: segments stay disjoint and coalesced, live blocks stay mapped read/write, dirty units stay mapped,
  and the C18 candidate set only ever contains dirty units that are outside every live block.
  This validates the interval bookkeeping (Cut / Pieces / Coalesce / UnitsInside / UnitsCovering) that the trace
  validation of implementation runs relies on.
 ***************************************************************************)
EXTENDS MiOs

CONSTANTS Units, MaxBlocks, MaxEvents

VARIABLES L, nextB, nev
mcVars == <<osVars, L, nextB, nev>>

A(u) == <<0, u * U64K>>                  \* address of unit u (Units <= 16 so hi = 0)
LenP(n) == <<0, n * U64K>>
Ranges == {<<u, n>> \in (0..(Units - 1)) \X (1..Units) : u + n <= Units}

OsEv(call, u, n, arg, fixed) == [e |-> "os", call |-> call, a |-> A(u), len |-> LenP(n), arg |-> arg, ok |-> TRUE, fixed |-> fixed]

MCInit == OsInitWith(TRUE) /\ L = <<>> /\ nextB = 1 /\ nev = 0

Sys ==
  /\ nev < MaxEvents /\ nev' = nev + 1
  /\ \E r \in Ranges :
       \E ev \in {OsEv("mmap", r[1], r[2], "RW", FALSE), OsEv("mmap", r[1], r[2], "NONE", FALSE), OsEv("mmap", r[1], r[2], "NONE", TRUE),
                  OsEv("munmap", r[1], r[2], "", FALSE), OsEv("mprotect", r[1], r[2], "RW", FALSE), OsEv("mprotect", r[1], r[2], "NONE", FALSE),
                  OsEv("madvise", r[1], r[2], "DONTNEED", FALSE)} :
          \* the kernel: unmap/protect/advise need mapped memory; a non-fixed map never overlaps an existing one
          /\ (ev.call \in {"munmap", "mprotect", "madvise"} => \E s \in maps : InsideR(ev.a, AddP(ev.a, ev.len), s.a, s.e))
          /\ OsEvent(ev, L, <<>>)
  /\ UNCHANGED <<L, nextB>>

Alloc ==
  /\ nextB <= MaxBlocks
  /\ \E r \in Ranges : \E half \in BOOLEAN :
       LET a == A(r[1])
           us == IF half THEN r[2] * U64K - 32768 ELSE r[2] * U64K
           e == AddA(a, us)
       IN /\ \A b \in DOMAIN L : DisjointR(a, e, L[b].a, L[b].e)
          /\ OsBlockReturned(a, us, us)
          /\ L' = L @@ (nextB :> [a |-> a, e |-> e])
  /\ nextB' = nextB + 1 /\ UNCHANGED nev

Free ==
  /\ \E b \in DOMAIN L : L' = [x \in DOMAIN L \ {b} |-> L[x]]
  /\ OsSkip /\ UNCHANGED <<nextB, nev>>

T0 == /\ ~t0set /\ OsMark([what |-> "t0", areas |-> <<>>], L) /\ UNCHANGED <<L, nextB, nev>>

MCNext == Sys \/ Alloc \/ Free \/ T0
MCSpec == MCInit /\ [][MCNext]_mcVars

MCView == <<maps, dirtyU, cand, t0set, refusedU, oscfg, L, nextB, nev>>

Coalesced == \A s1, s2 \in maps : ~Mergeable(s1, s2)
LiveMappedRW == \A b \in DOMAIN L : MappedRW(L[b].a, L[b].e)
DirtyMapped == \A u \in dirtyU : \E s \in maps : InsideR(<<0, u * U64K>>, <<0, (u + 1) * U64K>>, s.a, s.e)
CandSound == \A u \in cand : u \in dirtyU /\ \A b \in DOMAIN L : u \notin UnitsCovering(L[b].a, L[b].e)
MCInv == MapsDisjoint /\ Coalesced /\ LiveMappedRW /\ DirtyMapped /\ (t0set => CandSound)
=============================================================================
