--------------------------- MODULE PurgeStepTrace ---------------------------
(***************************************************************************
  Step-level trace specification of the purge schedule of the arenas (refinement tier of C18; the protocol is modelled in
  MiPurgeConc, its sequential view in MiPurge).

  The scheduler hooks log every atomic operation on the words of the protocol ("pstep" events):
     g      the global purge expiry            (ld / st / cas; o, n: old / new value is non-zero; ok: the CAS succeeded)
     a      an arena's purge expiry            (with the arena index)
     pm     a word of an arena's purge marks   (or = mark, and = unmark; hit: the blocks whose mark changed)
     guard  the guard of mi_arenas_try_purge   (cas = enter, st = leave)
  Executions are sequentially consistent interleavings, so the log order is the order of the operations.  Demanded:

    MarkBeforeExpiry    mi_arena_schedule_purge marks the blocks BEFORE it tries to set the arena's expiry (otherwise a concurrent purge
                        can clear the expiry in between and the blocks stay marked in an arena without expiry: MiPurgeConc "mark_last")
    GlobalAfterArena    the global expiry is only set by a thread whose CAS on the arena's expiry has just succeeded
    GuardExclusive      the guard is entered only when free; the global expiry is stored, arena expiries are cleared / re-armed and
                        blocks are unmarked by a purge only while holding it; it is released by its holder, before the call returns
    ClearBeforeUnmark   a purge unmarks blocks of an arena only after it has cleared that arena's expiry in this visit
    RelookAfterClear    a visit that cleared the global expiry looks at the arenas' expiries again before it leaves, and if it finds
                        one it tries to set the global expiry (otherwise a purge scheduled meanwhile is forgotten: MiPurgeConc "no_relook")
    WordContinuity      every value observed is the value the log implies (nothing that writes these words goes unlogged)
 ***************************************************************************)
EXTENDS Integers, Sequences, FiniteSets, TLC, Json, IOUtils
CONSTANT Relaxed
Tr == ndJsonDeserialize(IOEnv.TRACE)
VARIABLES step, set, gset, marked, sok, gh, cleared, gcl, looks, sawset, gtried, arenas
vars == <<step, set, gset, marked, sok, gh, cleared, gcl, looks, sawset, gtried, arenas>>
G(name, d, cond) == IF cond THEN TRUE ELSE (Relaxed /\ PrintT(<<"GUARDFAIL", name, step + 1, d>>))
Put(f, k, v) == [x \in (DOMAIN f) \cup {k} |-> IF x = k THEN v ELSE f[x]]
Get(f, k, d) == IF k \in DOMAIN f THEN f[k] ELSE d
Empty == [x \in {} |-> 0]
SetOf(q) == {q[i] : i \in 1..Len(q)}
Unknown == -1
None == -1
B(x) == IF x = 1 THEN 1 ELSE 0
Cont(cur, obs) == cur = Unknown \/ cur = obs

Init == /\ step = 0 /\ set = Empty /\ gset = Unknown /\ marked = Empty /\ sok = Empty /\ gh = None /\ cleared = {} /\ gcl = FALSE
        /\ looks = {} /\ sawset = FALSE /\ gtried = FALSE /\ arenas = {}

Reset == /\ set' = Empty /\ gset' = Unknown /\ marked' = Empty /\ sok' = Empty /\ gh' = None /\ cleared' = {} /\ gcl' = FALSE
         /\ looks' = {} /\ sawset' = FALSE /\ gtried' = FALSE /\ arenas' = {}

PStep(ev) ==
  LET t == ev.t  a == ev.arena  cas == ev.k \in {"cass", "casw"}  hit == SetOf(ev.hit) IN
  CASE ev.w = "pm" /\ ev.k = "or" ->
         /\ marked' = Put(marked, t, Get(marked, t, {}) \cup {a}) /\ arenas' = arenas \cup {a}
         /\ UNCHANGED <<set, gset, sok, gh, cleared, gcl, looks, sawset, gtried>>
    [] ev.w = "pm" /\ ev.k = "and" ->
         /\ ((gh = t /\ hit # {}) => G("ClearBeforeUnmark", <<t, a>>, a \in cleared))
         /\ UNCHANGED <<set, gset, marked, sok, gh, cleared, gcl, looks, sawset, gtried, arenas>>
    [] ev.w = "a" /\ ev.f = "mi_arena_schedule_purge" /\ cas ->
         /\ G("MarkBeforeExpiry", <<t, a>>, a \in Get(marked, t, {}))
         /\ G("WordContinuity", <<"a", a, Get(set, a, Unknown), ev.ok>>, Cont(Get(set, a, Unknown), IF ev.ok THEN 0 ELSE 1))
         /\ marked' = Put(marked, t, Get(marked, t, {}) \ {a})
         /\ set' = Put(set, a, 1)
         /\ sok' = Put(sok, t, IF ev.ok THEN a ELSE 0) /\ arenas' = arenas \cup {a}
         /\ UNCHANGED <<gset, gh, cleared, gcl, looks, sawset, gtried>>
    [] ev.w = "g" /\ ev.f = "mi_arena_schedule_purge" /\ cas ->
         /\ G("GlobalAfterArena", t, Get(sok, t, 0) # 0)
         /\ G("WordContinuity", <<"g", gset, ev.ok>>, Cont(gset, IF ev.ok THEN 0 ELSE 1))
         /\ gset' = 1 /\ sok' = Put(sok, t, 0)
         /\ UNCHANGED <<set, marked, gh, cleared, gcl, looks, sawset, gtried, arenas>>
    [] ev.w = "guard" /\ cas ->
         /\ IF ev.ok THEN G("GuardExclusive", <<"enter", t, gh>>, gh = None) /\ gh' = t /\ cleared' = {} /\ gcl' = FALSE /\ looks' = {} /\ sawset' = FALSE /\ gtried' = FALSE
            ELSE UNCHANGED <<gh, cleared, gcl, looks, sawset, gtried>>
         /\ UNCHANGED <<set, gset, marked, sok, arenas>>
    [] ev.w = "guard" /\ ev.k = "st" ->
         /\ G("GuardExclusive", <<"leave", t, gh>>, gh = t)
         /\ G("RelookAfterClear", <<t, looks, arenas, sawset, gtried>>, gcl => ((sawset /\ gtried) \/ (~sawset /\ arenas \subseteq looks)))
         /\ gh' = None /\ UNCHANGED <<set, gset, marked, sok, cleared, gcl, looks, sawset, gtried, arenas>>
    [] ev.w = "g" /\ ev.f = "mi_arenas_try_purge" /\ ev.k = "st" ->
         /\ G("GuardExclusive", <<"store", t, gh>>, gh = t)
         /\ gset' = B(ev.n)
         /\ IF ev.n = 0 THEN gcl' = TRUE /\ looks' = {} /\ sawset' = FALSE /\ gtried' = FALSE ELSE UNCHANGED <<gcl, looks, sawset, gtried>>    \* (a clear by a plain store counts as well)
         /\ UNCHANGED <<set, marked, sok, gh, cleared, arenas>>
    [] ev.w = "g" /\ ev.f = "mi_arenas_try_purge" /\ cas /\ ev.n = 0 ->            \* the visit clears the global expiry
         /\ G("GuardExclusive", <<"clear", t, gh>>, gh = t)
         /\ IF ev.ok THEN gset' = 0 /\ gcl' = TRUE /\ looks' = {} /\ sawset' = FALSE /\ gtried' = FALSE ELSE UNCHANGED <<gset, gcl, looks, sawset, gtried>>
         /\ UNCHANGED <<set, marked, sok, gh, cleared, arenas>>
    [] ev.w = "g" /\ ev.f = "mi_arenas_try_purge" /\ cas /\ ev.n = 1 ->            \* ... and sets it again for an arena it found with an expiry
         /\ G("WordContinuity", <<"g", gset, ev.ok>>, Cont(gset, IF ev.ok THEN 0 ELSE 1))
         /\ gset' = 1 /\ gtried' = TRUE /\ UNCHANGED <<set, marked, sok, gh, cleared, gcl, looks, sawset, arenas>>
    [] ev.w = "g" /\ ev.k = "ld" ->
         /\ G("WordContinuity", <<"g", gset, ev.n>>, Cont(gset, B(ev.n)))
         /\ gset' = B(ev.n) /\ UNCHANGED <<set, marked, sok, gh, cleared, gcl, looks, sawset, gtried, arenas>>
    [] ev.w = "a" /\ ev.k = "ld" ->
         /\ G("WordContinuity", <<"a", a, Get(set, a, Unknown), ev.n>>, Cont(Get(set, a, Unknown), B(ev.n)))
         /\ set' = Put(set, a, B(ev.n)) /\ arenas' = arenas \cup {a}
         /\ IF ev.f = "mi_arenas_try_purge" /\ gh = t /\ gcl THEN looks' = looks \cup {a} /\ sawset' = (sawset \/ ev.n = 1) ELSE UNCHANGED <<looks, sawset>>
         /\ UNCHANGED <<gset, marked, sok, gh, cleared, gcl, gtried>>
    [] ev.w = "a" /\ ev.f = "mi_arena_try_purge" /\ cas ->
         /\ G("GuardExclusive", <<"arena", t, gh>>, gh = t)
         /\ IF ev.ok THEN set' = Put(set, a, B(ev.n)) ELSE UNCHANGED set
         /\ cleared' = (IF ev.n = 0 THEN cleared \cup {a} ELSE cleared) /\ arenas' = arenas \cup {a}
         /\ UNCHANGED <<gset, marked, sok, gh, gcl, looks, sawset, gtried>>
    [] OTHER -> UNCHANGED <<set, gset, marked, sok, gh, cleared, gcl, looks, sawset, gtried, arenas>>

Next ==
  /\ step < Len(Tr) /\ step' = step + 1
  /\ LET ev == Tr[step + 1] IN
     CASE ev.e = "pstep" -> PStep(ev)
       [] ev.e = "ret" ->
            /\ G("GuardExclusive", <<"return", ev.t, gh>>, gh # ev.t)
            /\ G("MarkBeforeExpiry", <<"return", ev.t, Get(marked, ev.t, {})>>, Get(marked, ev.t, {}) = {})
            /\ marked' = Put(marked, ev.t, {}) /\ sok' = Put(sok, ev.t, 0)
            /\ UNCHANGED <<set, gset, gh, cleared, gcl, looks, sawset, gtried, arenas>>
       [] ev.e \in {"reset", "cfg"} -> Reset
       [] OTHER -> UNCHANGED <<set, gset, marked, sok, gh, cleared, gcl, looks, sawset, gtried, arenas>>
Spec == Init /\ [][Next]_vars
TraceView == step
TraceAccepted == /\ PrintT(<<"TVDIAMETER", TLCGet("stats").diameter - 1>>) /\ TLCGet("stats").diameter - 1 = Len(Tr)
=============================================================================
