SPECIFICATION Spec
CONSTANTS
  Blocks = {b1, b2, b3}
  Remotes = {r1, r2}
  MaxOwnerOps = 4
  MaxSpurious = 1
INVARIANTS Conservation ListsOk UsedAccounting FlagInvariant PageFreedOnlyWhenAllDead QuiescentClean
CHECK_DEADLOCK FALSE
