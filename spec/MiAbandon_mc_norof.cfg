SPECIFICATION Spec
CONSTANTS
  Threads = {"t1", "t2", "t3"}
  Segs = {"s1", "s2"}
  SubOfThread <- McSubOfThread
  SubOfSeg <- McSubOfSeg
  InitOwner <- McInitOwner
  InitLive <- McInitLive
  ReclaimOnFree = FALSE
  MaxOps = 7
INVARIANT Inv
CHECK_DEADLOCK FALSE
