SPECIFICATION Spec
CONSTANTS
  W = 4
  F = 3
  Threads = {t1, t2, p1}
  Counts = {3, 5}
  MaxClaims = 1
  Blocked = {11}
  Purgers = {p1}
INVARIANTS BitsAccounted OwnedBitsSet AllFreeAtEnd BlockedStay
CHECK_DEADLOCK FALSE
