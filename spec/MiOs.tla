------------------------------- MODULE MiOs -------------------------------
(***************************************************************************
  Model of the operating-system side of the allocator, reconstructed from the OS-call events
  of the shim (mmap / munmap / mprotect / madvise, each with its result) and the virtual clock.

  State: the set of mapped segments with protection and birth round; per 64 KiB unit whether it is
  "dirty" (written through a live block since it was last given back by a purge/unmap event);
  the C18 candidate set (dirty units unused continuously since T0); refused ranges (fault plans).

  The properties decided here:
    C13 DestructiveAvoidsLive  - no madvise(DONTNEED|FREE), mprotect(NONE), munmap or fixed re-map hits a live block
    C07/C13 LiveAccessible     - a returned block lies in mapped read/write memory
    C11 AllReleased / DirtyAllReleased / NoCreep  at quiescence points
    C18 NeverPurgesWhenDisabled / ImmediateWhenZero / TimelyPurge
  Units are 64 KiB (= segment slice = commit granularity): unit(a) = a \div 65536 = hi*16 + lo \div 65536.
 ***************************************************************************)
EXTENDS MiAddr

CONSTANTS RelaxedOs      \* same role as Relaxed in MiApi (kept separate so MiOs can be used alone)

VARIABLES
  maps,      \* set of [a, e, prot, born]
  now,       \* virtual clock (ms)
  round,     \* workload round (for C11), starts at 1
  dirtyU,    \* set of units written through a live block and not yet purged / unmapped since
  cand,      \* C18: dirty units unused continuously since T0 (or {"none"} before T0)  -- set of units
  t0set,     \* BOOLEAN: T0 has been marked
  lastInuse, \* C18 delay 0: dirty units in use at the previous areas snapshot
  refusedU,  \* units of ranges whose purge/unmap the fault plan refused
  prevQ,     \* [mapped, resident] of the previous quiescence point (or <<0,0>>)
  oscfg,     \* [shim, purge_delay, ...] from the cfg event
  ostep      \* position, for diagnostics only
osVars == <<maps, now, round, dirtyU, cand, t0set, lastInuse, refusedU, prevQ, oscfg, ostep>>

OG(name, detail, cond) == IF cond THEN TRUE ELSE (RelaxedOs /\ PrintT(<<"GUARDFAIL", name, ostep + 1, detail>>))

U64K == 65536
UnitOf(a) == a[1] * 16 + (a[2] \div U64K)
\* units intersecting [a, e)
UnitsCovering(a, e) == IF LeA(e, a) THEN {} ELSE
                         UnitOf(a) .. (IF e[2] % U64K = 0 THEN UnitOf(e) - 1 ELSE UnitOf(e))
\* units completely inside [a, e)
UnitsInside(a, e) == (IF a[2] % U64K = 0 THEN UnitOf(a) ELSE UnitOf(a) + 1) .. (UnitOf(e) - 1)

OsInitWith(shim) ==
  /\ maps = {} /\ now = 0 /\ round = 1 /\ dirtyU = {} /\ cand = {} /\ t0set = FALSE /\ lastInuse = {}
  /\ refusedU = {} /\ prevQ = <<0, 0>> /\ oscfg = [shim |-> shim, purge_delay |-> 10, segmap_part |-> 0]
  /\ ostep = 0
OsInit == OsInitWith(FALSE)

\* ---- interval bookkeeping
MaxA(a, b) == IF LtA(a, b) THEN b ELSE a
MinA(a, b) == IF LtA(a, b) THEN a ELSE b
Overlaps(s, a, e) == ~DisjointR(s.a, s.e, a, e)
Remnants(s, a, e) == (IF LtA(s.a, a) THEN {[s EXCEPT !.e = a]} ELSE {}) \cup (IF LtA(e, s.e) THEN {[s EXCEPT !.a = e]} ELSE {})
Cut(S, a, e) == UNION {IF Overlaps(s, a, e) THEN Remnants(s, a, e) ELSE {s} : s \in S}
Pieces(S, a, e) == {[s EXCEPT !.a = MaxA(s.a, a), !.e = MinA(s.e, e)] : s \in {x \in S : Overlaps(x, a, e)}}
Mergeable(s1, s2) == s1.e = s2.a /\ s1.prot = s2.prot /\ s1.born = s2.born
RECURSIVE Coalesce(_)
Coalesce(S) ==
  IF \E s1, s2 \in S : Mergeable(s1, s2)
  THEN LET p == CHOOSE p \in S \X S : Mergeable(p[1], p[2])
       IN Coalesce((S \ {p[1], p[2]}) \cup {[p[1] EXCEPT !.e = p[2].e]})
  ELSE S

MappedRW(a, e) == \E s \in maps : s.prot = "RW" /\ InsideR(a, e, s.a, s.e)
PagesOf(s) == (s.e[1] - s.a[1]) * 256 + ((s.e[2] - s.a[2]) \div 4096)    \* may be negative in lo part; sums correctly
MappedPages == LET RECURSIVE Sum(_)
                   Sum(S) == IF S = {} THEN 0 ELSE LET s == CHOOSE x \in S : TRUE IN PagesOf(s) + Sum(S \ {s})
               IN Sum(maps)

\* ---- hooks called from the API actions (ApiTrace passes the live set explicitly)
\* destructive OS event over [a,e) must not touch a live block
AvoidsLive(L, a, e) == \A b \in DOMAIN L : DisjointR(a, e, L[b].a, L[b].e)
\* bulk groups (address-sorted sequences of <<hi, lo, usable>>): does [a,e) hit a member?  (linear scan over the group's extent is avoided:
\* the first member that ends after a is found by scanning from a binary-search position)
RECURSIVE OsBS(_, _, _, _)
OsBS(seq, lo, hi, x) == IF lo > hi THEN lo - 1 ELSE LET mid == (lo + hi) \div 2 IN
                        IF LeA(<<seq[mid][1], seq[mid][2]>>, x) THEN OsBS(seq, mid + 1, hi, x) ELSE OsBS(seq, lo, mid - 1, x)
HitsGroupSeq(seq, a, e) == LET n == Len(seq) i == OsBS(seq, 1, n, a) IN
                             \/ (i >= 1 /\ LtA(a, AddA(<<seq[i][1], seq[i][2]>>, seq[i][3])))
                             \/ (i + 1 <= n /\ LtA(<<seq[i + 1][1], seq[i + 1][2]>>, e))
AvoidsGroups(GR, a, e) == \A g \in DOMAIN GR : ~HitsGroupSeq(GR[g].blocks, a, e)
\* a bulk group was allocated and written: its units are dirty
OsBatch(blocks, wr) ==
  /\ ostep' = ostep + 1
  /\ dirtyU' = IF oscfg.shim /\ wr > 0 THEN dirtyU \cup UNION {UnitsCovering(<<blocks[i][1], blocks[i][2]>>, AddA(<<blocks[i][1], blocks[i][2]>>, Min(wr, blocks[i][3]))) : i \in 1..Len(blocks)} ELSE dirtyU
  /\ cand' = cand \ UNION {UnitsCovering(<<blocks[i][1], blocks[i][2]>>, AddA(<<blocks[i][1], blocks[i][2]>>, blocks[i][3])) : i \in 1..Len(blocks)}
  /\ UNCHANGED <<maps, now, round, t0set, lastInuse, refusedU, prevQ, oscfg>>

\* an allocating call returned block [a, a+us) of which the program wrote the first wr bytes
OsBlockReturned(a, us, wr) ==
  LET e == AddA(a, us) cov == UnitsCovering(a, AddA(a, wr)) IN
  /\ ostep' = ostep + 1
  /\ (oscfg.shim => OG("LiveAccessible", a, MappedRW(a, e)))
  /\ dirtyU' = IF oscfg.shim THEN dirtyU \cup cov ELSE dirtyU
  /\ cand' = cand \ UnitsCovering(a, e)
  /\ UNCHANGED <<maps, now, round, t0set, lastInuse, refusedU, prevQ, oscfg>>

OsWrite(a, wr) ==
  /\ ostep' = ostep + 1
  /\ dirtyU' = IF oscfg.shim THEN dirtyU \cup UnitsCovering(a, AddA(a, wr)) ELSE dirtyU
  /\ UNCHANGED <<maps, now, round, cand, t0set, lastInuse, refusedU, prevQ, oscfg>>

\* ---- OS events
Destructive(ev) == ev.call = "munmap" \/ (ev.call = "madvise" /\ ev.arg \in {"DONTNEED", "FREE"})
                   \/ (ev.call = "mprotect" /\ ev.arg = "NONE") \/ (ev.call = "mmap" /\ ev.fixed)

OsEvent(ev, L, GR) ==
  LET a == ev.a  e == AddP(ev.a, ev.len) IN
  /\ ostep' = ostep + 1
  /\ UNCHANGED <<now, round, t0set, lastInuse, prevQ, oscfg>>
  /\ IF ~ev.ok
     THEN \* refused by the (simulated) operating system: nothing changes; remember refused give-backs
          /\ refusedU' = IF Destructive(ev) THEN refusedU \cup UnitsCovering(a, e) ELSE refusedU
          /\ UNCHANGED <<maps, dirtyU, cand>>
     ELSE /\ UNCHANGED refusedU
          /\ (Destructive(ev) => OG("DestructiveAvoidsLive", ev.call, AvoidsLive(L, a, e) /\ AvoidsGroups(GR, a, e)))
          /\ ((oscfg.purge_delay = -1 /\ ((ev.call = "madvise" /\ ev.arg \in {"DONTNEED", "FREE"}) \/ (ev.call = "mprotect" /\ ev.arg = "NONE")))
                => OG("NeverPurgesWhenDisabled", ev.call, UnitsInside(a, e) \cap dirtyU = {}))
          /\ dirtyU' = IF Destructive(ev) THEN dirtyU \ UnitsInside(a, e) ELSE dirtyU
          /\ cand' = IF Destructive(ev) THEN cand \ UnitsInside(a, e) ELSE cand
          /\ CASE ev.call = "mmap" ->
                    /\ (~ev.fixed => OG("MmapFresh", a, \A s \in maps : ~Overlaps(s, a, e)))
                    /\ maps' = Coalesce(Cut(maps, a, e) \cup {[a |-> a, e |-> e, prot |-> ev.arg, born |-> round]})
               [] ev.call = "munmap" -> maps' = Cut(maps, a, e)
               [] ev.call = "mprotect" -> maps' = Coalesce(Cut(maps, a, e) \cup {[x EXCEPT !.prot = ev.arg] : x \in Pieces(maps, a, e)})
               [] OTHER -> UNCHANGED maps

OsClock(ev) == /\ now' = ev.now /\ ostep' = ostep + 1
               /\ UNCHANGED <<maps, round, dirtyU, cand, t0set, lastInuse, refusedU, prevQ, oscfg>>

OsCfg(ev) == /\ oscfg' = [shim |-> ev.shim, purge_delay |-> ev.purge_delay, segmap_part |-> ev.segmap_part]
             /\ ostep' = ostep + 1
             /\ UNCHANGED <<maps, now, round, dirtyU, cand, t0set, lastInuse, refusedU, prevQ>>

\* units covered by a list of areas <<hi, lo, lenhi, lenlo>> and by the live blocks
AreaUnits(areas, L) ==
  UNION {UnitsCovering(<<areas[i][1], areas[i][2]>>, AddP(<<areas[i][1], areas[i][2]>>, <<areas[i][3], areas[i][4]>>)) : i \in 1..Len(areas)}
  \cup UNION {UnitsCovering(L[b].a, L[b].e) : b \in DOMAIN L}

\* snapshot of the page areas of all heaps after an API call (C18)
OsAreas(ev, L) ==
  LET cur == AreaUnits(ev.areas, L) IN
  /\ ostep' = ostep + 1
  /\ (oscfg.purge_delay = 0 =>
        OG("ImmediateWhenZero", Cardinality((lastInuse \cap dirtyU) \ cur), (lastInuse \cap dirtyU) \subseteq (cur \cup refusedU)))
  /\ lastInuse' = cur \cap dirtyU
  /\ cand' = cand \ cur
  /\ UNCHANGED <<maps, now, round, dirtyU, t0set, refusedU, prevQ, oscfg>>

\* marks: "t0" (the free phase is over; everything dirty and unused from now on is a candidate), "c18check"
OsMark(ev, L) ==
  /\ ostep' = ostep + 1
  /\ CASE ev.what = "t0" ->
            /\ cand' = dirtyU \ AreaUnits(ev.areas, L)
            /\ t0set' = TRUE
            /\ UNCHANGED <<maps, now, round, dirtyU, lastInuse, refusedU, prevQ, oscfg>>
       [] ev.what = "c18check" ->
            /\ ((t0set /\ oscfg.purge_delay > 0) =>
                  OG("TimelyPurge", Cardinality((cand \cap dirtyU) \ refusedU), (cand \cap dirtyU) \subseteq refusedU))
            /\ UNCHANGED <<maps, now, round, dirtyU, cand, t0set, lastInuse, refusedU, prevQ, oscfg>>
       [] OTHER -> UNCHANGED <<maps, now, round, dirtyU, cand, t0set, lastInuse, refusedU, prevQ, oscfg>>

\* C11: everything has been freed, threads are done, the main thread force-collected
\* a mapping lies in arena memory if the arenas cover it (adjacent mappings are merged in `maps`, so one mapping can span several arenas)
ArenaRange(ar) == LET aa == <<ar[1], ar[2]>> IN <<aa, AddP(aa, <<ar[3], ar[4]>>)>>
RECURSIVE CoveredFrom(_, _, _, _)
CoveredFrom(a, e, arenasL, fuel) ==
  IF LeA(e, a) THEN TRUE
  ELSE IF fuel = 0 THEN FALSE
  ELSE LET hits == {i \in 1..Len(arenasL) : LeA(ArenaRange(arenasL[i])[1], a) /\ LtA(a, ArenaRange(arenasL[i])[2])} IN
       IF hits = {} THEN FALSE ELSE CoveredFrom(ArenaRange(arenasL[CHOOSE i \in hits : TRUE])[2], e, arenasL, fuel - 1)
InArenas(s, arenasL) == CoveredFrom(s.a, s.e, arenasL, Len(arenasL))
IsTable(s) == oscfg.segmap_part > 0 /\ oscfg.segmap_part % 4096 = 0 /\ PagesOf(s) = oscfg.segmap_part \div 4096     \* (no multiplication: mappings of 2 GiB and more would overflow TLC's integers)
Refused(s) == UnitsCovering(s.a, s.e) \cap refusedU # {}
OsQuiesce(ev, L) ==
  LET mp == MappedPages
      left == {s \in maps : s.born >= 2 /\ ~InArenas(s, ev.arenas) /\ ~IsTable(s) /\ ~Refused(s)}
  IN
  /\ ostep' = ostep + 1
  /\ OG("QuiesceNoLive", Cardinality(DOMAIN L), DOMAIN L = {})
  /\ (ev.round >= 2 => OG("AllReleased", IF left = {} THEN <<>> ELSE (CHOOSE s \in left : TRUE), left = {}))
  \* what may stay from the first round outside arenas and tables is allocator meta data (thread data, arena descriptors): small.
  \* A region of more than 1 MiB that is still mapped was obtained for blocks or segments and has not been given back
  \* (demanded while no OS call is being refused: C07 asks for it once the OS grants requests again).
  /\ LET big == {s \in maps : PagesOf(s) > 256 /\ ~InArenas(s, ev.arenas) /\ ~IsTable(s) /\ ~Refused(s)} IN
     (~ev.armed => OG("AllReleased", IF big = {} THEN <<>> ELSE (CHOOSE s \in big : TRUE), big = {}))
  /\ (oscfg.purge_delay >= 0 => OG("DirtyAllReleased", Cardinality(dirtyU \ refusedU), dirtyU \subseteq refusedU))
  /\ ((ev.round >= 3 /\ refusedU = {}) => OG("NoCreepMapped", <<prevQ[1], mp>>, mp <= prevQ[1]))
  \* (resident memory is measured by the kernel per process: a tolerance of ev.tol pages plus 1/64 of the previous value absorbs
  \* page-table and stack noise; with purging disabled the resident set is large and which pages are re-touched varies a little)
  /\ ((ev.round >= 3 /\ refusedU = {}) => OG("NoCreepResident", <<prevQ[2], ev.resident>>, ev.resident <= prevQ[2] + ev.tol + (prevQ[2] \div 64)))
  /\ prevQ' = <<mp, ev.resident>>
  /\ round' = ev.round + 1
  /\ UNCHANGED <<maps, now, dirtyU, cand, t0set, lastInuse, refusedU, oscfg>>

OsReset ==
  /\ maps' = {} /\ now' = 0 /\ round' = 1 /\ dirtyU' = {} /\ cand' = {} /\ t0set' = FALSE /\ lastInuse' = {}
  /\ refusedU' = {} /\ prevQ' = <<0, 0>> /\ ostep' = ostep + 1 /\ UNCHANGED oscfg

OsSkip == ostep' = ostep + 1 /\ UNCHANGED <<maps, now, round, dirtyU, cand, t0set, lastInuse, refusedU, prevQ, oscfg>>

\* ---- invariants of the reconstructed OS state
\* (every new mapping is compared with all existing ones when it arrives -- MmapFresh; the pairwise invariant is only evaluated while
\* the number of mappings is moderate, it is quadratic)
MapsDisjoint == Cardinality(maps) > 400 \/ \A s1, s2 \in maps : s1 # s2 => DisjointR(s1.a, s1.e, s2.a, s2.e)
=============================================================================
