------------------------------- MODULE MiOs -------------------------------
(* placeholder OS model: consumes OS events (extended below in later revisions) *)
EXTENDS MiAddr
VARIABLES now
osVars == <<now>>
OsInit == now = 0
OsOnCall(ev) == UNCHANGED osVars
OsOnRet(ev) == UNCHANGED osVars
OsEvent(ev) == UNCHANGED osVars
OsClock(ev) == now' = ev.now
OsCfg(ev) == UNCHANGED osVars
OsMark(ev) == UNCHANGED osVars
OsReset == UNCHANGED osVars
=============================================================================
