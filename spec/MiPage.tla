------------------------------- MODULE MiPage -------------------------------
(* Draft: one page, owner + remote threads, delayed-free protocol at the
   granularity of atomic operations on xthread_free / heap.thread_delayed_free.
   Local (thread-private) statements are merged into the neighbouring atomic step. *)
EXTENDS Naturals, Sequences, FiniteSets, TLC

CONSTANTS Blocks,      \* active blocks of the page
          Remotes,     \* remote thread ids
          MaxOwnerOps, \* bound on owner API calls
          MaxSpurious  \* bound on spurious weak-CAS failures

NULL == "null"
Owner == "owner"
INSTANCE MiStep      \* Flags and the transition functions of the shared words (also used by the step-level trace specification)

VARIABLES
  xhead, xflag,        \* page.xthread_free = (head, flag)
  nxt,                 \* link word of each block
  dhead,               \* heap.thread_delayed_free
  free, lfree, used, inFull, pageFreed,   \* owner-private page state
  st,                  \* ghost: "live" / "dead" (program view)
  holder,              \* ghost: which thread will free a live block
  rpc, rblk, rtf, ruse, rdf,   \* remote thread: pc, block being freed, local tfree=(head,flag), use_delayed, dfree
  opc, oops, olist, oblk, otf, oyield, ocall, \* owner: pc, ops done, private taken list, current block, local tfree, yield count, current call
  spur

vars == <<xhead,xflag,nxt,dhead,free,lfree,used,inFull,pageFreed,st,holder,rpc,rblk,rtf,ruse,rdf,opc,oops,olist,oblk,otf,oyield,ocall,spur>>

\* ---- list helpers (bounded walk) ----
RECURSIVE Walk(_,_)
Walk(h, n) == IF h = NULL \/ n = 0 THEN <<>> ELSE <<h>> \o Walk(nxt[h], n-1)
ListOf(h) == Walk(h, Cardinality(Blocks)+1)
SetOf(h) == {ListOf(h)[i] : i \in 1..Len(ListOf(h))}
Acyclic(h) == Len(ListOf(h)) <= Cardinality(Blocks)

Init ==
  /\ xhead = NULL /\ xflag = "USE"
  /\ nxt = [b \in Blocks |-> NULL]
  /\ dhead = NULL
  /\ free = NULL /\ lfree = NULL /\ used = Cardinality(Blocks) /\ inFull \in BOOLEAN /\ pageFreed = FALSE
  /\ st = [b \in Blocks |-> "live"]
  /\ holder \in [Blocks -> Remotes \cup {Owner}]
  /\ rpc = [t \in Remotes |-> "idle"] /\ rblk = [t \in Remotes |-> NULL]
  /\ rtf = [t \in Remotes |-> <<NULL,"USE">>] /\ ruse = [t \in Remotes |-> FALSE] /\ rdf = [t \in Remotes |-> NULL]
  /\ opc = "idle" /\ oops = 0 /\ olist = NULL /\ oblk = NULL /\ otf = <<NULL,"USE">> /\ oyield = 0 /\ ocall = "none"
  /\ spur = 0

\* ---------------- remote thread: mi_free_block_delayed_mt ----------------
RStart(t) == /\ rpc[t] = "idle"
             /\ \E b \in Blocks : st[b] = "live" /\ holder[b] = t
                   /\ rblk' = [rblk EXCEPT ![t] = b] /\ st' = [st EXCEPT ![b] = "dead"]
             /\ rtf' = [rtf EXCEPT ![t] = <<xhead,xflag>>]      \* r0: relaxed load
             /\ rpc' = [rpc EXCEPT ![t] = "cas1"]
             /\ UNCHANGED <<xhead,xflag,nxt,dhead,free,lfree,used,inFull,pageFreed,holder,ruse,rdf,opc,oops,olist,oblk,otf,oyield,ocall,spur>>

RCas1(t) == /\ rpc[t] = "cas1"
            /\ LET b == rblk[t] tf == rtf[t] useD == Cas1Delayed(tf) new == Cas1New(tf, b) IN
               \/ /\ <<xhead,xflag>> = tf               \* CAS succeeds
                  /\ xhead' = new[1] /\ xflag' = new[2]
                  /\ IF useD
                       THEN /\ UNCHANGED nxt
                            /\ rpc' = [rpc EXCEPT ![t] = "ldheap"]
                       ELSE /\ nxt' = [nxt EXCEPT ![b] = tf[1]]
                            /\ rpc' = [rpc EXCEPT ![t] = "idle"]
                  /\ ruse' = [ruse EXCEPT ![t] = useD]
                  /\ UNCHANGED <<rtf,spur>>
               \/ /\ (<<xhead,xflag>> # tf \/ spur < MaxSpurious)   \* CAS fails (really or spuriously): reload
                  /\ spur' = IF <<xhead,xflag>> = tf THEN spur+1 ELSE spur
                  /\ rtf' = [rtf EXCEPT ![t] = <<xhead,xflag>>]
                  /\ UNCHANGED <<xhead,xflag,nxt,rpc,ruse>>
            /\ UNCHANGED <<dhead,free,lfree,used,inFull,pageFreed,st,holder,rblk,rdf,opc,oops,olist,oblk,otf,oyield,ocall>>

RLdHeap(t) == /\ rpc[t] = "ldheap"     \* load xheap (single heap here) + load heap.delayed
              /\ rdf' = [rdf EXCEPT ![t] = dhead]
              /\ rpc' = [rpc EXCEPT ![t] = "cas2"]
              /\ UNCHANGED <<xhead,xflag,nxt,dhead,free,lfree,used,inFull,pageFreed,st,holder,rblk,rtf,ruse,opc,oops,olist,oblk,otf,oyield,ocall,spur>>

RCas2(t) == /\ rpc[t] = "cas2"
            /\ LET b == rblk[t] IN
               \/ /\ dhead = rdf[t]
                  /\ nxt' = [nxt EXCEPT ![b] = rdf[t]] /\ dhead' = b
                  /\ rpc' = [rpc EXCEPT ![t] = "ld3"] /\ UNCHANGED <<rdf,spur>>
               \/ /\ (dhead # rdf[t] \/ spur < MaxSpurious)
                  /\ spur' = IF dhead = rdf[t] THEN spur+1 ELSE spur
                  /\ rdf' = [rdf EXCEPT ![t] = dhead] /\ UNCHANGED <<nxt,dhead,rpc>>
            /\ UNCHANGED <<xhead,xflag,free,lfree,used,inFull,pageFreed,st,holder,rblk,rtf,ruse,opc,oops,olist,oblk,otf,oyield,ocall>>

RLd3(t) == /\ rpc[t] = "ld3"
           /\ rtf' = [rtf EXCEPT ![t] = <<xhead,xflag>>] /\ rpc' = [rpc EXCEPT ![t] = "cas3"]
           /\ UNCHANGED <<xhead,xflag,nxt,dhead,free,lfree,used,inFull,pageFreed,st,holder,rblk,ruse,rdf,opc,oops,olist,oblk,otf,oyield,ocall,spur>>

RCas3(t) == /\ rpc[t] = "cas3"
            /\ \/ /\ <<xhead,xflag>> = rtf[t]
                  /\ Assert(Cas3Pre(rtf[t]), "only the thread that set FREEING resets it")
                  /\ xflag' = Cas3New(rtf[t])[2] /\ rpc' = [rpc EXCEPT ![t] = "idle"] /\ UNCHANGED <<rtf,spur>>
               \/ /\ (<<xhead,xflag>> # rtf[t] \/ spur < MaxSpurious)
                  /\ spur' = IF <<xhead,xflag>> = rtf[t] THEN spur+1 ELSE spur
                  /\ rtf' = [rtf EXCEPT ![t] = <<xhead,xflag>>] /\ UNCHANGED <<xflag,rpc>>
            /\ UNCHANGED <<xhead,nxt,dhead,free,lfree,used,inFull,pageFreed,st,holder,rblk,ruse,rdf,opc,oops,olist,oblk,otf,oyield,ocall>>

\* ---------------- owner ----------------
\* local splice helper: result of appending the current lfree behind list starting at h (tail's nxt := lfree)

\* owner-local part of _mi_page_free_collect(page,false) after the thread-free list was (maybe) taken
LocalToFree(f, lf) == IF lf # NULL /\ f = NULL THEN <<lf, NULL>> ELSE <<f, lf>>

\* free_block_local(b): push on lfree, used--, retire / unfull
OFreeLocalEffect(b) ==
  /\ nxt' = [nxt EXCEPT ![b] = lfree] /\ lfree' = b /\ used' = used - 1
  /\ pageFreed' = (used - 1 = 0)
  /\ inFull' = IF used - 1 = 0 THEN FALSE ELSE IF inFull THEN FALSE ELSE inFull

OBegin(call) == /\ opc = "idle" /\ oops < MaxOwnerOps /\ ~pageFreed /\ oops' = oops + 1 /\ ocall' = call

\* mi_free of an owned live block (local free)
OFree == /\ OBegin("free")
         /\ \E b \in Blocks : st[b] = "live" /\ holder[b] = Owner
               /\ st' = [st EXCEPT ![b] = "dead"] /\ OFreeLocalEffect(b)
         /\ UNCHANGED <<xhead,xflag,dhead,free,holder,rpc,rblk,rtf,ruse,rdf,opc,olist,oblk,otf,oyield,spur>>

\* malloc: fast path pop, else generic: collect thread-free list (one CAS), move lists, pop or go to full
OMallocFast == /\ OBegin("malloc") /\ free # NULL /\ ~inFull
               /\ LET b == free IN /\ Assert(st[b] = "dead", "double handout")
                                   /\ free' = nxt[b] /\ used' = used + 1
                                   /\ st' = [st EXCEPT ![b] = "live"] /\ holder' = [holder EXCEPT ![b] = Owner]
               /\ UNCHANGED <<xhead,xflag,nxt,dhead,lfree,inFull,pageFreed,rpc,rblk,rtf,ruse,rdf,opc,olist,oblk,otf,oyield,spur>>

OMallocGeneric == /\ OBegin("malloc") /\ free = NULL /\ ~inFull
                  /\ opc' = "mcollect" /\ otf' = <<xhead,xflag>>     \* quick test + relaxed load
                  /\ UNCHANGED <<xhead,xflag,nxt,dhead,free,lfree,used,inFull,pageFreed,st,holder,rpc,rblk,rtf,ruse,rdf,olist,oblk,oyield,spur>>

\* _mi_page_thread_free_collect: CAS (head,flag) -> (NULL,flag); then splice + count (local)
OTakeTf(nextpc) ==
  IF otf[1] = NULL
  THEN /\ opc' = nextpc /\ UNCHANGED <<xhead,xflag,nxt,lfree,used,otf,spur>>
  ELSE \/ /\ <<xhead,xflag>> = otf
          /\ xhead' = CollectNew(otf)[1] /\ xflag' = CollectNew(otf)[2]
          /\ LET L == ListOf(otf[1]) IN
               /\ nxt' = [nxt EXCEPT ![L[Len(L)]] = lfree]
               /\ lfree' = otf[1]
               /\ used' = used - Len(L)
          /\ opc' = nextpc /\ UNCHANGED <<otf,spur>>
       \/ /\ (<<xhead,xflag>> # otf \/ spur < MaxSpurious)
          /\ spur' = IF <<xhead,xflag>> = otf THEN spur+1 ELSE spur
          /\ otf' = <<xhead,xflag>> /\ UNCHANGED <<xhead,xflag,nxt,lfree,used,opc>>

OMCollect == /\ opc = "mcollect" /\ OTakeTf("mpop")
             /\ UNCHANGED <<dhead,free,inFull,pageFreed,st,holder,rpc,rblk,rtf,ruse,rdf,oops,olist,oblk,oyield,ocall>>

OMPop == /\ opc = "mpop"
         /\ LET fl == LocalToFree(free, lfree) IN
            IF fl[1] # NULL
            THEN LET b == fl[1] IN
                 /\ Assert(st[b] = "dead", "double handout")
                 /\ free' = nxt[b] /\ lfree' = fl[2] /\ used' = used + 1
                 /\ st' = [st EXCEPT ![b] = "live"] /\ holder' = [holder EXCEPT ![b] = Owner]
                 /\ UNCHANGED inFull
            ELSE /\ inFull' = TRUE /\ UNCHANGED <<free,lfree,used,st,holder>>   \* page_to_full; malloc served elsewhere
         /\ opc' = "idle"
         /\ UNCHANGED <<xhead,xflag,nxt,dhead,pageFreed,rpc,rblk,rtf,ruse,rdf,oops,olist,oblk,otf,oyield,ocall,spur>>

\* _mi_heap_delayed_free_partial (called every 100 generic mallocs and from collect)
ODelayed == /\ OBegin("delayed")
            /\ IF dhead = NULL THEN opc' = "idle" /\ UNCHANGED olist
               ELSE opc' = "dtake" /\ olist' = dhead
            /\ UNCHANGED <<xhead,xflag,nxt,dhead,free,lfree,used,inFull,pageFreed,st,holder,rpc,rblk,rtf,ruse,rdf,oblk,otf,oyield,spur>>

ODTake == /\ opc = "dtake"
          /\ \/ /\ dhead = olist /\ dhead' = NULL /\ opc' = "dnext" /\ UNCHANGED <<olist,spur>>
             \/ /\ (dhead # olist \/ spur < MaxSpurious)
                /\ spur' = IF dhead = olist THEN spur+1 ELSE spur
                /\ olist' = dhead /\ UNCHANGED <<dhead,opc>>
          /\ UNCHANGED <<xhead,xflag,nxt,free,lfree,used,inFull,pageFreed,st,holder,rpc,rblk,rtf,ruse,rdf,oops,oblk,otf,oyield,ocall>>

\* take next block of the private list
ODNext == /\ opc = "dnext"
          /\ IF olist = NULL THEN /\ opc' = "idle" /\ UNCHANGED <<oblk,olist,oyield,otf>>
             ELSE /\ oblk' = olist /\ olist' = nxt[olist] /\ oyield' = 0
                  /\ otf' = <<xhead,xflag>> /\ opc' = "duse"     \* load-acquire in try_use_delayed_free
          /\ UNCHANGED <<xhead,xflag,nxt,dhead,free,lfree,used,inFull,pageFreed,st,holder,rpc,rblk,rtf,ruse,rdf,oops,ocall,spur>>

\* _mi_page_try_use_delayed_free(page, USE, false)
ODUse == /\ opc = "duse"
         /\ IF UseDelayedWaits(otf)
            THEN IF oyield >= 4
                 THEN /\ opc' = "drepush" /\ otf' = <<dhead, "USE">>    \* give up: re-push (load dhead)
                      /\ UNCHANGED <<xflag,oyield,spur>>
                 ELSE /\ oyield' = oyield + 1 /\ otf' = <<xhead,xflag>> /\ UNCHANGED <<xflag,opc,spur>>  \* yield + reload
            ELSE IF UseDelayedKeeps(otf, "USE", FALSE)
                 THEN /\ opc' = "dcollect" /\ otf' = <<xhead,xflag>> /\ UNCHANGED <<xflag,oyield,spur>>
                 ELSE \/ /\ <<xhead,xflag>> = otf /\ xflag' = UseDelayedNew(otf, "USE")[2]
                         /\ opc' = "dcollect" /\ otf' = UseDelayedNew(otf, "USE") /\ UNCHANGED <<oyield,spur>>
                      \/ /\ (<<xhead,xflag>> # otf \/ spur < MaxSpurious)
                         /\ spur' = IF <<xhead,xflag>> = otf THEN spur+1 ELSE spur
                         /\ otf' = <<xhead,xflag>> /\ UNCHANGED <<xflag,opc,oyield>>
         /\ UNCHANGED <<xhead,nxt,dhead,free,lfree,used,inFull,pageFreed,st,holder,rpc,rblk,rtf,ruse,rdf,oops,olist,oblk,ocall>>

ODRepush == /\ opc = "drepush"
            /\ \/ /\ dhead = otf[1]
                  /\ nxt' = [nxt EXCEPT ![oblk] = otf[1]] /\ dhead' = oblk /\ opc' = "dnext" /\ UNCHANGED <<otf,spur>>
               \/ /\ (dhead # otf[1] \/ spur < MaxSpurious)
                  /\ spur' = IF dhead = otf[1] THEN spur+1 ELSE spur
                  /\ otf' = <<dhead,"USE">> /\ UNCHANGED <<nxt,dhead,opc>>
            /\ UNCHANGED <<xhead,xflag,free,lfree,used,inFull,pageFreed,st,holder,rpc,rblk,rtf,ruse,rdf,oops,olist,oblk,oyield,ocall>>

ODCollect == /\ opc = "dcollect" /\ OTakeTf("dfree")
             /\ UNCHANGED <<dhead,free,inFull,pageFreed,st,holder,rpc,rblk,rtf,ruse,rdf,oops,olist,oblk,oyield,ocall>>

ODFree == /\ opc = "dfree"
          /\ LET fl == LocalToFree(free, lfree) b == oblk IN
               /\ nxt' = [nxt EXCEPT ![b] = fl[2]] /\ lfree' = b /\ free' = fl[1]
               /\ used' = used - 1
               /\ pageFreed' = (used - 1 = 0)
               /\ inFull' = IF used - 1 = 0 THEN FALSE ELSE FALSE
          /\ opc' = IF used - 1 = 0 THEN "idle" ELSE "dnext"
          /\ UNCHANGED <<xhead,xflag,dhead,st,holder,rpc,rblk,rtf,ruse,rdf,oops,olist,oblk,otf,oyield,ocall,spur>>

\* final collect at quiescence: delayed list is drained by ODelayed ops; here collect the page (force)
OCollectPage == /\ OBegin("collect") /\ dhead = NULL
                /\ opc' = "ccollect" /\ otf' = <<xhead,xflag>>
                /\ UNCHANGED <<xhead,xflag,nxt,dhead,free,lfree,used,inFull,pageFreed,st,holder,rpc,rblk,rtf,ruse,rdf,olist,oblk,oyield,spur>>
OCCollect == /\ opc = "ccollect" /\ OTakeTf("cdone")
             /\ UNCHANGED <<dhead,free,inFull,pageFreed,st,holder,rpc,rblk,rtf,ruse,rdf,oops,olist,oblk,oyield,ocall>>
OCDone == /\ opc = "cdone" /\ pageFreed' = (used = 0) /\ opc' = "idle"
          /\ UNCHANGED <<xhead,xflag,nxt,dhead,free,lfree,used,inFull,st,holder,rpc,rblk,rtf,ruse,rdf,oops,olist,oblk,otf,oyield,ocall,spur>>

ONext == OFree \/ OMallocFast \/ OMallocGeneric \/ OMCollect \/ OMPop \/ ODelayed \/ ODTake \/ ODNext
         \/ ODUse \/ ODRepush \/ ODCollect \/ ODFree \/ OCollectPage \/ OCCollect \/ OCDone
RNext(t) == RStart(t) \/ RCas1(t) \/ RLdHeap(t) \/ RCas2(t) \/ RLd3(t) \/ RCas3(t)
Next == ONext \/ \E t \in Remotes : RNext(t)
Spec == Init /\ [][Next]_vars

\* ---------------- properties ----------------
InFlight == {rblk[t] : t \in {u \in Remotes : rpc[u] \in {"cas1","ldheap","cas2"}}}
            \cup (IF opc \in {"duse","drepush","dcollect","dfree"} THEN {oblk} ELSE {})
OTaken == IF opc \in {"dnext","duse","drepush","dcollect","dfree"} THEN SetOf(olist) ELSE {}
Places(b) == (IF st[b] = "live" THEN 1 ELSE 0) + (IF b \in SetOf(free) THEN 1 ELSE 0)
           + (IF b \in SetOf(lfree) THEN 1 ELSE 0) + (IF b \in SetOf(xhead) THEN 1 ELSE 0)
           + (IF b \in SetOf(dhead) THEN 1 ELSE 0) + (IF b \in InFlight THEN 1 ELSE 0)
           + (IF b \in OTaken THEN 1 ELSE 0)
Conservation == pageFreed \/ \A b \in Blocks : Places(b) = 1
ListsOk == pageFreed \/ (Acyclic(free) /\ Acyclic(lfree) /\ Acyclic(xhead) /\ Acyclic(dhead))
UsedAccounting == pageFreed \/ used = Cardinality({b \in Blocks : st[b] = "live"}) + Len(ListOf(xhead)) + Len(ListOf(dhead))
                      + Cardinality(InFlight) + Cardinality(OTaken)
\* types.h l.313: NO_DELAYED_FREE only if a block is / is about to be on the heap delayed list
FlagInvariant == pageFreed \/ (xflag = "NO" => (dhead # NULL \/ OTaken # {} \/ (opc \in {"duse","drepush"} )))
PageFreedOnlyWhenAllDead == pageFreed => \A b \in Blocks : st[b] = "dead"
AllIdle == opc = "idle" /\ \A t \in Remotes : rpc[t] = "idle"
\* C08: at quiescence with everything freed, a (bounded) sequence of owner delayed+collect frees the page:
\* checked as: no idle state with all dead, empty shared lists, owner just finished "collect", and page not freed
QuiescentClean == (AllIdle /\ ocall = "collect" /\ (\A b \in Blocks : st[b] = "dead") /\ dhead = NULL /\ xhead = NULL) => pageFreed
=============================================================================
