----------------------------- MODULE StepTrace -----------------------------
(***************************************************************************
  Step-level trace specification of the delayed-free protocol (refinement tier of C02 / C08 / C09 / C10).

  The scheduler hooks log every atomic operation the allocator performs on a page's xthread_free word ("xtf"), a page's
  xheap word ("xheap") and a heap's thread_delayed_free word ("dh"): thread, allocator function, kind (ld / st / xchg /
  casw / cass), value observed, value written, success, and the block the thread's API call is releasing ("fl").
  Executions are sequentially consistent interleavings (one virtual thread runs at a time), so the log order is the
  order of the operations.

  The specification keeps the value of every word it has seen and replays the log against the transition functions of
  MiStep (the same functions the exhaustively checked protocol model MiPage is built from):

    StepContinuity      the value an operation observes is the value the last logged write left there (or the word of a
                        re-initialised page / heap): nobody writes these words behind the protocol's back
    RemoteSequence      mi_free_block_delayed_mt performs  ld xtf ; CAS xtf* ; [ ld xheap ; ld dh ; CAS dh* ; ld xtf ; CAS xtf* ]
                        in this order -- in particular the owning heap is read only after FREEING was set
    RemoteCas1          its first CAS writes Cas1New(observed, own block): FREEING only over USE, else a push of the block
                        that contains the pointer being freed, at its block start
    DelayedPushOwn      the block pushed on the heap's delayed list is that same block, on the heap that was read
    RemoteCas3          its last CAS turns FREEING into NO and leaves the list alone
    CollectTakesAll     _mi_page_thread_free_collect writes CollectNew(observed)
    UseDelayedShape     _mi_page_try_use_delayed_free only changes the flag, never while FREEING is set
    NeverOnlyOnAdoption a NEVER flag is only overwritten by the thread that has just set the page's heap (adoption)
    HeapPublishedBeforeFlag   a page's new heap is stored before the flag is (re)armed for it (heap delete, adoption)
    NoHeapResetWhileFreeing   a page's heap is reset (abandonment, page free) only when no remote free is between its two CAS
    WriteShape          any other successful write to a thread-free word is a push, a take of the whole list or a flag change
    StoreNotStale       a plain store to xtf / dh does not overwrite a value the storing thread has not seen (lost update)
    RepushTaken         a block _mi_heap_delayed_free_partial pushes back is one it took
    RearmAfterDrain     when the API call that drained a heap's delayed list returns, every page that had a block on it has
                        been switched back to USE (or is NEVER), or the block was pushed back
 ***************************************************************************)
EXTENDS Integers, Sequences, FiniteSets, TLC, Json, IOUtils
CONSTANT Relaxed
Tr == ndJsonDeserialize(IOEnv.TRACE)
VARIABLES step, xtf, dh, dhset, rpc, taken, tookall, lastw, seen, lasttry
vars == <<step, xtf, dh, dhset, rpc, taken, tookall, lastw, seen, lasttry>>
G(name, d, cond) == IF cond THEN TRUE ELSE (Relaxed /\ PrintT(<<"GUARDFAIL", name, step + 1, d>>))

NULL == <<0, 0, 0>>
INSTANCE MiStep
FlagName == <<"USE", "FREEING", "NO", "NEVER">>
Blk(v)  == IF v[2] = 0 THEN NULL ELSE <<v[2], v[3], v[4]>>          \* (page id, block index, remainder); page id -1 = outside any known page
TF(v)   == <<Blk(v), FlagName[v[1] + 1]>>
Put(f, k, v) == [x \in (DOMAIN f) \cup {k} |-> IF x = k THEN v ELSE f[x]]
Get(f, k, d) == IF k \in DOMAIN f THEN f[k] ELSE d
Empty == [x \in {} |-> 0]
Idle == [ph |-> "idle", pg |-> 0, blk |-> NULL, hp |-> 0]
Own(ev) == IF ev.fl[1] = 0 THEN NULL ELSE <<ev.fl[1], ev.fl[2], 0>>   \* the block containing the pointer being released, at its start

Init == step = 0 /\ xtf = Empty /\ dh = Empty /\ dhset = Empty /\ rpc = Empty /\ taken = Empty /\ tookall = Empty /\ lastw = Empty /\ seen = Empty /\ lasttry = Empty

IsCas(ev) == ev.k \in {"casw", "cass"}
Reads(ev) == ev.k \in {"ld", "casw", "cass", "xchg"}
Writes(ev) == (IsCas(ev) /\ ev.ok) \/ ev.k \in {"st", "xchg"}

\* ---- a step on a page's thread-free word
XtfStep(ev) ==
  LET P == ev.id  t == ev.t  obs == TF(ev.o)  new == TF(ev.n)
      cur == Get(xtf, P, obs)
      recycled == obs = <<NULL, "USE">> /\ cur[2] # "FREEING"
      base == IF Reads(ev) THEN obs ELSE cur                   \* the value the write replaces
      r == Get(rpc, t, Idle)
      own == Own(ev)
      inRemote == ev.f = "mi_free_block_delayed_mt"
      \* remote automaton on this word
      rOK == CASE ~inRemote -> TRUE
               [] r.ph = "idle" -> ev.k = "ld"
               [] r.ph = "cas1" -> IsCas(ev) /\ r.pg = P
               [] r.ph = "ld3"  -> ev.k = "ld" /\ r.pg = P
               [] r.ph = "cas3" -> IsCas(ev) /\ r.pg = P
               [] OTHER -> FALSE
      r2 == CASE ~inRemote -> r
              [] ~rOK -> Idle
              [] r.ph = "idle" -> [ph |-> "cas1", pg |-> P, blk |-> own, hp |-> 0]
              [] r.ph = "cas1" -> IF ~ev.ok THEN r ELSE IF Cas1Delayed(base) THEN [r EXCEPT !.ph = "ldheap"] ELSE Idle
              [] r.ph = "ld3"  -> [r EXCEPT !.ph = "cas3"]
              [] r.ph = "cas3" -> IF ev.ok THEN Idle ELSE r
              [] OTHER -> Idle
  IN
  /\ (Reads(ev) => G("StepContinuity", <<"xtf", P, cur, obs>>, obs = cur \/ recycled))
  /\ G("RemoteSequence", <<r.ph, ev.k, "xtf">>, rOK)
  /\ IF Writes(ev) /\ IsCas(ev)
     THEN CASE inRemote /\ rOK /\ r.ph = "cas1" ->
                 G("RemoteCas1", <<base, new, r.blk>>, IF r.blk = NULL THEN (new = Cas1New(base, new[1]) /\ (Cas1Delayed(base) \/ (new[1] # NULL /\ new[1][3] = 0)))
                                                                         ELSE new = Cas1New(base, r.blk))
            [] inRemote /\ rOK /\ r.ph = "cas3" -> G("RemoteCas3", <<base, new>>, Cas3Pre(base) /\ new = Cas3New(base))
            [] ev.f = "_mi_page_thread_free_collect" -> G("CollectTakesAll", <<base, new>>, new = CollectNew(base))
            [] ev.f = "_mi_page_try_use_delayed_free" ->
                 /\ G("UseDelayedShape", <<base, new>>, ~UseDelayedWaits(base) /\ new = UseDelayedNew(base, new[2]))
                 /\ (base[2] = "NEVER" /\ new[2] # "NEVER" => G("NeverOnlyOnAdoption", <<P, Get(lastw, t, <<>>)>>, Get(lastw, t, <<>>) = <<"xheap", P>>))
            [] OTHER -> G("WriteShape", <<ev.f, base, new>>, new = base \/ IsPush(base, new) \/ IsTake(base, new) \/ IsFlagSet(base, new))
     ELSE IF Writes(ev)     \* plain store / exchange
     THEN G("StoreNotStale", <<ev.f, "xtf", P, cur>>, ev.k = "xchg" \/ Get(seen, <<t, "xtf", P>>, <<>>) = cur)
     ELSE TRUE
  /\ xtf' = Put(xtf, P, IF Writes(ev) THEN new ELSE obs)
  /\ rpc' = Put(rpc, t, r2)
  /\ seen' = Put(seen, <<t, "xtf", P>>, IF Writes(ev) THEN new ELSE obs)
  \* switching a page back to USE (or finding it USE / NEVER) settles the drained blocks of that page
  /\ taken' = IF ev.f = "_mi_page_try_use_delayed_free" /\ ((Writes(ev) /\ new[2] \in {"USE", "NEVER"}) \/ (ev.k = "ld" /\ obs[2] \in {"USE", "NEVER"}))
              THEN Put(taken, t, {b \in Get(taken, t, {}) : b[1] # P}) ELSE taken
  /\ lastw' = IF ev.f = "_mi_page_try_use_delayed_free" THEN lastw ELSE Put(lastw, t, <<"xtf", P>>)
  /\ lasttry' = Put(lasttry, t, IF ev.f = "_mi_page_try_use_delayed_free" THEN P ELSE 0)
  /\ UNCHANGED <<dh, dhset, tookall>>

\* ---- a step on a heap's delayed-free word
DhStep(ev) ==
  LET H == ev.id  t == ev.t  obs == Blk(ev.o)  new == Blk(ev.n)
      cur == Get(dh, H, obs)
      set == IF obs = cur \/ ~Reads(ev) THEN Get(dhset, H, {}) ELSE {}      \* (a re-initialised heap starts with an empty list)
      base == IF Reads(ev) THEN obs ELSE cur
      r == Get(rpc, t, Idle)
      inRemote == ev.f = "mi_free_block_delayed_mt"
      rOK == CASE ~inRemote -> TRUE
               [] r.ph = "lddh" -> ev.k = "ld" /\ r.hp = H
               [] r.ph = "cas2" -> IsCas(ev) /\ r.hp = H
               [] OTHER -> FALSE
      r2 == CASE ~inRemote -> r
              [] ~rOK -> Idle
              [] r.ph = "lddh" -> [r EXCEPT !.ph = "cas2"]
              [] r.ph = "cas2" -> IF ev.ok THEN [r EXCEPT !.ph = "ld3"] ELSE r
              [] OTHER -> Idle
      wr == Writes(ev)
      isTake == wr /\ new = NULL
      isPush == wr /\ new # NULL
  IN
  /\ (Reads(ev) => G("StepContinuity", <<"dh", H, cur, obs>>, obs = cur \/ obs = NULL))
  /\ G("RemoteSequence", <<r.ph, ev.k, "dh">>, rOK)
  /\ IF wr /\ ~IsCas(ev) THEN G("StoreNotStale", <<ev.f, "dh", H, cur>>, ev.k = "xchg" \/ Get(seen, <<t, "dh", H>>, <<>>) = cur) ELSE TRUE
  /\ IF isPush /\ inRemote /\ rOK /\ r.ph = "cas2"
     THEN G("DelayedPushOwn", <<new, r.blk>>, (r.blk = NULL /\ new[3] = 0) \/ new = r.blk)
     ELSE TRUE
  /\ IF isPush /\ ev.f = "_mi_heap_delayed_free_partial"
     THEN G("RepushTaken", new, new \in Get(tookall, t, {}))
     ELSE TRUE
  /\ dh' = Put(dh, H, IF wr THEN new ELSE obs)
  /\ dhset' = Put(dhset, H, IF isTake THEN {} ELSE IF isPush THEN set \cup {new} ELSE set)
  /\ tookall' = IF isTake THEN Put(tookall, t, Get(tookall, t, {}) \cup set) ELSE tookall      \* everything the thread took in this call (RepushTaken); `taken` is what is not settled yet
  /\ taken' = IF isTake THEN Put(taken, t, Get(taken, t, {}) \cup set)
              ELSE IF isPush /\ ev.f = "_mi_heap_delayed_free_partial" THEN Put(taken, t, Get(taken, t, {}) \ {new})
              ELSE taken
  /\ rpc' = Put(rpc, t, r2)
  /\ seen' = Put(seen, <<t, "dh", H>>, IF wr THEN new ELSE obs)
  /\ lastw' = Put(lastw, t, <<"dh", H>>)
  /\ lasttry' = Put(lasttry, t, 0)
  /\ UNCHANGED xtf

\* ---- a step on a page's heap word
XheapStep(ev) ==
  LET P == ev.id  t == ev.t  r == Get(rpc, t, Idle)
      inRemote == ev.f = "mi_free_block_delayed_mt"
      rOK == ~inRemote \/ (r.ph = "ldheap" /\ ev.k = "ld" /\ r.pg = P)
      r2 == IF ~inRemote THEN r ELSE IF ~rOK THEN Idle
            ELSE IF ev.o[1] = 0 THEN [r EXCEPT !.ph = "ld3"]               \* no heap: only the flag is reset
            ELSE [r EXCEPT !.ph = "lddh", !.hp = ev.o[1]]
  IN
  /\ G("RemoteSequence", <<r.ph, ev.k, "xheap">>, rOK)
  \* a page's heap is published before its delayed-free flag is (re)armed for that heap (heap delete / adoption): a remote free that
  \* finds the flag armed must read the new heap
  /\ (ev.k = "st" /\ ev.n[1] # 0 => G("HeapPublishedBeforeFlag", <<P, ev.f>>, Get(lasttry, t, 0) # P))
  \* a page gives up its heap (abandonment, page free) only when no remote free is between its two CAS
  /\ (ev.k = "st" /\ ev.n[1] = 0 /\ P \in DOMAIN xtf => G("NoHeapResetWhileFreeing", <<P, xtf[P]>>, xtf[P][2] # "FREEING"))
  /\ rpc' = Put(rpc, t, r2)
  /\ lastw' = Put(lastw, t, <<"xheap", P>>)
  /\ lasttry' = IF ev.k = "st" THEN Put(lasttry, t, 0) ELSE lasttry
  /\ UNCHANGED <<xtf, dh, dhset, taken, tookall, seen>>

Next ==
  /\ step < Len(Tr) /\ step' = step + 1
  /\ LET ev == Tr[step + 1] IN
     CASE ev.e = "step" /\ ev.id = 0 -> UNCHANGED <<xtf, dh, dhset, rpc, taken, tookall, lastw, seen, lasttry>>      \* (table of ids full)
       [] ev.e = "step" /\ ev.w = "xtf" -> XtfStep(ev)
       [] ev.e = "step" /\ ev.w = "dh" -> DhStep(ev)
       [] ev.e = "step" /\ ev.w = "xheap" -> XheapStep(ev)
       [] ev.e = "ret" ->
            /\ G("RearmAfterDrain", <<ev.t, ev.op, Get(taken, ev.t, {})>>, Get(taken, ev.t, {}) = {})
            /\ taken' = Put(taken, ev.t, {}) /\ tookall' = Put(tookall, ev.t, {})
            /\ UNCHANGED <<xtf, dh, dhset, rpc, lastw, seen, lasttry>>
       [] ev.e \in {"reset", "cfg"} -> xtf' = Empty /\ dh' = Empty /\ dhset' = Empty /\ rpc' = Empty /\ taken' = Empty /\ tookall' = Empty /\ lastw' = Empty /\ seen' = Empty /\ lasttry' = Empty
       [] OTHER -> UNCHANGED <<xtf, dh, dhset, rpc, taken, tookall, lastw, seen, lasttry>>
Spec == Init /\ [][Next]_vars
TraceView == step
TraceAccepted == /\ PrintT(<<"TVDIAMETER", TLCGet("stats").diameter - 1>>) /\ TLCGet("stats").diameter - 1 = Len(Tr)
=============================================================================
