SPECIFICATION GenSpec
CONSTANTS
  Blocks = {b1, b2, b3}
  Remotes = {r1, r2}
  MaxOwnerOps = 4
  MaxSpurious = 1
  GenLen = 60
INVARIANT GenEmit
CHECK_DEADLOCK FALSE
