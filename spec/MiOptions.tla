------------------------------ MODULE MiOptions ------------------------------
(***************************************************************************
  Model of src/options.c of mimalloc (option table, lazy initialisation from the environment, value grammar,
  programmatic setters).  Property C20, first half.

  * Strings are sequences of character codes (0..255); readable TLA+ strings are converted with `S("...")`.
  * Numbers that do not fit TLC's 32-bit integers are naturals in base 1024, little endian, without trailing zero
    limbs (0 = << >>); an option value (C `long`) is a record [neg, mag].  All arithmetic of the value grammar
    (decimal conversion, strtol saturation, KiB scaling, overflow clamp) is done exactly on these naturals.
  * `Parse(kib, raw)` is the specification of the value grammar: it is evaluated by TLC both in the bounded model
    (MiOptions_mc.cfg) and on the environment strings recorded from the real allocator (OptsTrace.tla); nothing is
    computed outside TLC.

  A value that is none of the documented forms is malformed and leaves the default in place: in particular parts of the
  boolean keywords ("N", "RUE", "E;Y" -- upstream matched the keywords with strstr), a size suffix without digits ("KiB")
  and values of more than 64 characters (upstream parsed their first 64 characters) -- these three were accepted by the
  pinned tree and were repaired in /repo (see DESIGN.md 12.2).
  What is deliberately NOT demanded (kind "undemanded"): a bare "IB" suffix behind the digits of a size option is accepted;
  strtol skips leading white space.  These upstream behaviours are neither required nor forbidden by the property;
  generators avoid them and the trace specification adopts the observed value.
 ***************************************************************************)
EXTENDS Integers, Sequences, FiniteSets, TLC

CONSTANTS
  BuildDebug,   \* TRUE for a build with MI_DEBUG > 0 (default of show_errors is 1)
  MCOpts,       \* bounded model: set of option indices that the actions touch
  MCEnvIds,     \* bounded model: which of the environments `MCEnvs` are explored
  MCVals,       \* bounded model: small integers used as arguments of Set/SetDefault
  MaxOps        \* bounded model: length of an operation sequence

VARIABLES
  tab,          \* option table: [1..NOpts -> [val, init, how]]
  env,          \* environment: sequence of [name, val] (code sequences), in `environ` order
  nops,         \* bounded model: operations so far
  last,         \* bounded model: the last operation [op, o, v]
  touched       \* bounded model: [option -> has a Set/SetDefault/coupling written it?]

optVars == <<tab, env>>

\* ---------------------------------------------------------------------------------------------- characters
Ascii == " !\"#$%&'()*+,-./0123456789:;<=>?@ABCDEFGHIJKLMNOPQRSTUVWXYZ[\\]^_`abcdefghijklmnopqrstuvwxyz{|}~"
AsciiTab == [i \in 1..Len(Ascii) |-> SubSeq(Ascii, i, i)]
Ord(c) == 31 + (CHOOSE i \in 1..Len(Ascii) : AsciiTab[i] = c)
S(str) == [i \in 1..Len(str) |-> Ord(SubSeq(str, i, i))]          \* "abc" -> <<97, 98, 99>>

SetMin(X) == CHOOSE x \in X : \A y \in X : x <= y
SetMax(X) == CHOOSE x \in X : \A y \in X : x >= y
At(s, k) == IF k >= 1 /\ k <= Len(s) THEN s[k] ELSE 0               \* C string: NUL behind the last character

ToUpper(c) == IF c >= 97 /\ c <= 122 THEN c - 32 ELSE c            \* _mi_toupper
Upper(s) == [i \in 1..Len(s) |-> ToUpper(s[i])]
IsDigit(c) == c >= 48 /\ c <= 57
IsSpace(c) == c \in {32, 9, 10, 11, 12, 13}                         \* isspace in the C locale
\* strstr(hay, needle) # NULL
IsSub(needle, hay) ==
  \E off \in 0..(Len(hay) - Len(needle)) : \A k \in 1..Len(needle) : hay[off + k] = needle[k]

\* ---------------------------------------------------------------------------------------------- naturals in base 1024
B == 1024
RECURSIVE NatOfInt(_)
NatOfInt(n) == IF n = 0 THEN << >> ELSE <<n % B>> \o NatOfInt(n \div B)      \* 0 <= n < 2^31
RECURSIVE MulSmallAdd(_, _, _)
MulSmallAdd(m, k, c) ==                                                       \* m*k + c   (0 < k <= 1024, 0 <= c < 2^20)
  IF m = << >> THEN NatOfInt(c)
  ELSE LET t == Head(m) * k + c IN <<t % B>> \o MulSmallAdd(Tail(m), k, t \div B)
AddSmall(m, c) == MulSmallAdd(m, 1, c)
ShL(m, k) == IF m = << >> THEN << >> ELSE [i \in 1..k |-> 0] \o m              \* m * 1024^k
ShR(m) == IF Len(m) <= 1 THEN << >> ELSE Tail(m)                              \* m div 1024
Cmp(a, b) ==                                                                  \* -1, 0, 1
  IF Len(a) # Len(b) THEN (IF Len(a) < Len(b) THEN -1 ELSE 1)
  ELSE IF a = b THEN 0
  ELSE LET i == SetMax({k \in 1..Len(a) : a[k] # b[k]}) IN IF a[i] < b[i] THEN -1 ELSE 1
RECURSIVE DecAcc(_, _)
DecAcc(ds, acc) == IF ds = << >> THEN acc ELSE DecAcc(Tail(ds), MulSmallAdd(acc, 10, Head(ds) - 48))
DecVal(ds) == DecAcc(ds, << >>)                                               \* value of a digit string

Ones(k) == [i \in 1..k |-> 1023]
LongMax == Ones(6) \o <<7>>                 \* 2^63 - 1  (LONG_MAX = PTRDIFF_MAX on LP64)
TwoTo63 == ShL(<<8>>, 6)                    \* magnitude of LONG_MIN
TwoTo64 == ShL(<<16>>, 6)                   \* SIZE_MAX + 1
\* MI_MAX_ALLOC_SIZE (types.h, 64 bit) = MI_SEGMENT_SLICE_SIZE * (UINT32_MAX-1) = 2^16 * (2^32 - 2) = 2^48 - 2^17
MaxAllocKiB == <<896, 1023, 1023, 255>>     \* MI_MAX_ALLOC_SIZE / MI_KiB = 2^38 - 128
MaxAlloc == ShL(MaxAllocKiB, 1)

\* signed values (C long)
Z(n) == IF n < 0 THEN [neg |-> TRUE, mag |-> NatOfInt(-n)] ELSE [neg |-> FALSE, mag |-> NatOfInt(n)]
ZNat(m) == [neg |-> FALSE, mag |-> m]
ZIsZero(z) == z.mag = << >>
ZLess(a, b) ==
  IF a.neg /\ ~b.neg THEN TRUE
  ELSE IF ~a.neg /\ b.neg THEN FALSE
  ELSE IF ~a.neg THEN Cmp(a.mag, b.mag) < 0
  ELSE Cmp(a.mag, b.mag) > 0
IsZ(z) == /\ z.neg \in BOOLEAN
          /\ \A k \in 1..Len(z.mag) : z.mag[k] \in 0..1023
          /\ (z.mag # << >> => z.mag[Len(z.mag)] # 0)
          /\ (z.mag = << >> => ~z.neg)
          /\ Cmp(z.mag, IF z.neg THEN TwoTo63 ELSE LongMax) <= 0

\* ---------------------------------------------------------------------------------------------- the option table
\* transcribed from src/options.c `options[]` (order = enum mi_option_e); dflt for a 64-bit Linux build without
\* MI_GUARDED / MI_VISIT_ABANDONED; values in KiB for the two size options.
OptTable == <<
  [name |-> "show_errors",                legacy |-> "",                      dflt |-> IF BuildDebug THEN 1 ELSE 0, kib |-> FALSE],
  [name |-> "show_stats",                 legacy |-> "",                      dflt |-> 0,        kib |-> FALSE],
  [name |-> "verbose",                    legacy |-> "",                      dflt |-> 0,        kib |-> FALSE],
  [name |-> "eager_commit",               legacy |-> "",                      dflt |-> 1,        kib |-> FALSE],
  [name |-> "arena_eager_commit",         legacy |-> "eager_region_commit",   dflt |-> 2,        kib |-> FALSE],
  [name |-> "purge_decommits",            legacy |-> "reset_decommits",       dflt |-> 1,        kib |-> FALSE],
  [name |-> "allow_large_os_pages",       legacy |-> "large_os_pages",        dflt |-> 2,        kib |-> FALSE],
  [name |-> "reserve_huge_os_pages",      legacy |-> "",                      dflt |-> 0,        kib |-> FALSE],
  [name |-> "reserve_huge_os_pages_at",   legacy |-> "",                      dflt |-> -1,       kib |-> FALSE],
  [name |-> "reserve_os_memory",          legacy |-> "",                      dflt |-> 0,        kib |-> TRUE],
  [name |-> "deprecated_segment_cache",   legacy |-> "",                      dflt |-> 0,        kib |-> FALSE],
  [name |-> "deprecated_page_reset",      legacy |-> "",                      dflt |-> 0,        kib |-> FALSE],
  [name |-> "abandoned_page_purge",       legacy |-> "abandoned_page_reset",  dflt |-> 0,        kib |-> FALSE],
  [name |-> "deprecated_segment_reset",   legacy |-> "",                      dflt |-> 0,        kib |-> FALSE],
  [name |-> "eager_commit_delay",         legacy |-> "",                      dflt |-> 1,        kib |-> FALSE],
  [name |-> "purge_delay",                legacy |-> "reset_delay",           dflt |-> 10,       kib |-> FALSE],
  [name |-> "use_numa_nodes",             legacy |-> "",                      dflt |-> 0,        kib |-> FALSE],
  [name |-> "disallow_os_alloc",          legacy |-> "limit_os_alloc",        dflt |-> 0,        kib |-> FALSE],
  [name |-> "os_tag",                     legacy |-> "",                      dflt |-> 100,      kib |-> FALSE],
  [name |-> "max_errors",                 legacy |-> "",                      dflt |-> 32,       kib |-> FALSE],
  [name |-> "max_warnings",               legacy |-> "",                      dflt |-> 32,       kib |-> FALSE],
  [name |-> "max_segment_reclaim",        legacy |-> "",                      dflt |-> 10,       kib |-> FALSE],
  [name |-> "destroy_on_exit",            legacy |-> "",                      dflt |-> 0,        kib |-> FALSE],
  [name |-> "arena_reserve",              legacy |-> "",                      dflt |-> 1048576,  kib |-> TRUE],
  [name |-> "arena_purge_mult",           legacy |-> "",                      dflt |-> 10,       kib |-> FALSE],
  [name |-> "purge_extend_delay",         legacy |-> "decommit_extend_delay", dflt |-> 1,        kib |-> FALSE],
  [name |-> "abandoned_reclaim_on_free",  legacy |-> "",                      dflt |-> 0,        kib |-> FALSE],
  [name |-> "disallow_arena_alloc",       legacy |-> "",                      dflt |-> 0,        kib |-> FALSE],
  [name |-> "retry_on_oom",               legacy |-> "",                      dflt |-> 400,      kib |-> FALSE],
  [name |-> "visit_abandoned",            legacy |-> "",                      dflt |-> 0,        kib |-> FALSE],
  [name |-> "guarded_min",                legacy |-> "",                      dflt |-> 0,        kib |-> FALSE],
  [name |-> "guarded_max",                legacy |-> "",                      dflt |-> 1073741824, kib |-> FALSE],
  [name |-> "guarded_precise",            legacy |-> "",                      dflt |-> 0,        kib |-> FALSE],
  [name |-> "guarded_sample_rate",        legacy |-> "",                      dflt |-> 0,        kib |-> FALSE],
  [name |-> "guarded_sample_seed",        legacy |-> "",                      dflt |-> 0,        kib |-> FALSE],
  [name |-> "target_segments_per_thread", legacy |-> "",                      dflt |-> 0,        kib |-> FALSE],
  [name |-> "generic_collect",            legacy |-> "",                      dflt |-> 10000,    kib |-> FALSE] >>
NOpts == Len(OptTable)
Opts == 1..NOpts
OptIdx(nm) == CHOOSE i \in Opts : OptTable[i].name = nm
GMin == OptIdx("guarded_min")
GMax == OptIdx("guarded_max")
Inits == {"UNINIT", "DEFAULTED", "INITIALIZED"}
InitRank(s) == CASE s = "UNINIT" -> 0 [] s = "DEFAULTED" -> 1 [] s = "INITIALIZED" -> 2
InitOfInt(n) == CASE n = 0 -> "UNINIT" [] n = 1 -> "DEFAULTED" [] OTHER -> "INITIALIZED"

\* environment variable names looked up for option i: "mimalloc_" ++ name, then "mimalloc_" ++ legacy name.
\* mi_option_init builds them with _mi_strlcpy/_mi_strlcat in a 65-byte buffer, i.e. cut to 64 characters.
Cut64(s) == IF Len(s) <= 64 THEN s ELSE SubSeq(s, 1, 64)
EnvName(i) == Cut64(S("mimalloc_" \o OptTable[i].name))
LegacyEnvName(i) == Cut64(S("mimalloc_" \o OptTable[i].legacy))
EnvNames == [i \in Opts |-> EnvName(i)]                      \* evaluated once
LegacyEnvNames == [i \in Opts |-> LegacyEnvName(i)]
PristineTable == [i \in Opts |-> [val |-> Z(OptTable[i].dflt), init |-> "UNINIT", how |-> "default"]]

\* ---------------------------------------------------------------------------------------------- environment lookup
\* _mi_prim_getenv (unix, MI_USE_ENVIRON): the first entry of `environ` whose name equals the wanted name ignoring
\* case; the value is copied with _mi_strlcpy into a 66-byte buffer (a value of more than 64 characters is noticed by Parse).
NoVal == <<-1>>
Lookup(e, nm) ==
  LET hits == {k \in 1..Len(e) : Len(e[k].name) = Len(nm) /\ Upper(e[k].name) = Upper(nm)} IN
  IF hits = {} THEN NoVal ELSE e[SetMin(hits)].val
EnvValue(e, i) ==
  LET v == Lookup(e, EnvNames[i]) IN
  IF v # NoVal THEN v
  ELSE IF OptTable[i].legacy # "" THEN Lookup(e, LegacyEnvNames[i]) ELSE NoVal

\* ---------------------------------------------------------------------------------------------- the value grammar
KwOn == S("1;TRUE;YES;ON")
KwOff == S("0;FALSE;NO;OFF")
OnWords == {S("1"), S("TRUE"), S("YES"), S("ON")}
OffWords == {S("0"), S("FALSE"), S("NO"), S("OFF")}

\* strtol(s, &end, 10) on the NUL-terminated string s: [val, end, nd]; end = index of the first unconsumed character
\* (1 = nothing consumed, Len(s)+1 = everything); nd = number of digits consumed.  Saturates to LONG_MAX / LONG_MIN.
StrToL(s) ==
  LET nonws == {k \in 1..Len(s) : ~IsSpace(s[k])}
      p0 == IF nonws = {} THEN Len(s) + 1 ELSE SetMin(nonws)
      hasSign == At(s, p0) \in {43, 45}
      neg == At(s, p0) = 45
      p1 == IF hasSign THEN p0 + 1 ELSE p0
      nondig == {k \in p1..Len(s) : ~IsDigit(s[k])}
      p2 == IF nondig = {} THEN Len(s) + 1 ELSE SetMin(nondig)      \* first non-digit at or after p1
      nd == p2 - p1
      mag == DecVal(SubSeq(s, p1, p2 - 1))
      sat == IF neg THEN (IF Cmp(mag, TwoTo63) > 0 THEN TwoTo63 ELSE mag)
                    ELSE (IF Cmp(mag, LongMax) > 0 THEN LongMax ELSE mag)
  IN IF nd = 0 THEN [val |-> ZNat(<< >>), end |-> 1, nd |-> 0, ws |-> FALSE]
     ELSE [val |-> [neg |-> neg /\ sat # << >>, mag |-> sat], end |-> p2, nd |-> nd, ws |-> p0 > 1]

\* the KiB conversion of mi_option_init for reserve_os_memory / arena_reserve, from the strtol result
SizeConv(s, r) ==
  LET size0 == IF r.val.neg THEN << >> ELSE r.val.mag
      c == At(s, r.end)
      mul == CASE c = 75 -> 0 [] c = 77 -> 1 [] c = 71 -> 2 [] c = 84 -> 3 [] OTHER -> -1      \* K M G T
      size1 == IF mul >= 0 THEN ShL(size0, mul) ELSE ShR(AddSmall(size0, 1023))               \* no suffix: bytes, rounded up to KiB
      overflow == mul >= 1 /\ Cmp(size1, TwoTo64) >= 0                                         \* mi_mul_overflow
      e1 == IF mul >= 0 THEN r.end + 1 ELSE r.end
      ib == At(s, e1) = 73 /\ At(s, e1 + 1) = 66                                               \* "IB"
      e2 == IF ib THEN e1 + 2 ELSE IF At(s, e1) = 66 THEN e1 + 1 ELSE e1                        \* or "B"
      size2 == IF overflow \/ Cmp(size1, MaxAlloc) > 0 THEN MaxAllocKiB ELSE size1      \* (a KiB count compared with a byte count: as upstream)
      size3 == IF Cmp(size2, LongMax) > 0 THEN LongMax ELSE size2
  IN [val |-> ZNat(size3), end |-> e2, bareib |-> ib /\ mul < 0]

\* Parse(kib, raw): kib = the option is one of the two size options; raw = value of the environment variable.
\* Result [kind, val]:  "bool"/"num": the option becomes val;  "malformed": the default stays;
\* "undemanded": see the module comment.
Parse(kib, raw) ==
  LET u == Upper(Cut64(raw)) IN
  IF u = << >> \/ u \in OnWords THEN [kind |-> "bool", val |-> Z(1)]
  ELSE IF u \in OffWords THEN [kind |-> "bool", val |-> Z(0)]
  ELSE IF Len(raw) > 64 THEN [kind |-> "malformed", val |-> Z(0)]
  ELSE LET r == StrToL(u)
           c == IF kib THEN SizeConv(u, r) ELSE [val |-> r.val, end |-> r.end, bareib |-> FALSE]
       IN IF c.end # Len(u) + 1 \/ r.nd = 0 THEN [kind |-> "malformed", val |-> Z(0)]
          ELSE IF c.bareib \/ r.ws THEN [kind |-> "undemanded", val |-> Z(0)]
          ELSE [kind |-> "num", val |-> c.val]

\* ---------------------------------------------------------------------------------------------- operations on a table
Entry(v, i, h) == [val |-> v, init |-> i, how |-> h]

\* mi_option_set including the guarded_min / guarded_max coupling
SetF(t, o, v, h) ==
  LET t1 == [t EXCEPT ![o] = Entry(v, "INITIALIZED", h)] IN
  IF o = GMin /\ ZLess(t1[GMax].val, v) THEN [t1 EXCEPT ![GMax] = Entry(v, "INITIALIZED", "coupled")]
  ELSE IF o = GMax /\ ZLess(v, t1[GMin].val) THEN [t1 EXCEPT ![GMin] = Entry(v, "INITIALIZED", "coupled")]
  ELSE t1

\* mi_option_init (only called while UNINIT; not preloading)
InitF(t, e, o) ==
  IF t[o].init # "UNINIT" THEN t
  ELSE LET raw == EnvValue(e, o) IN
       IF raw = NoVal THEN [t EXCEPT ![o].init = "DEFAULTED"]
       ELSE LET p == Parse(OptTable[o].kib, raw) IN
            CASE p.kind = "bool" -> [t EXCEPT ![o] = Entry(p.val, "INITIALIZED", "bool")]        \* written directly: no coupling
              [] p.kind = "num" -> SetF(t, o, p.val, "num")
              [] p.kind = "malformed" -> [t EXCEPT ![o].init = "DEFAULTED", ![o].how = "malformed"]
              [] OTHER -> [t EXCEPT ![o].how = "undemanded"]                                       \* adopt what is observed

GetF(t, e, o) == InitF(t, e, o)                        \* mi_option_get: the value is GetF(..)[o].val
SetDefaultF(t, o, v) == IF t[o].init # "INITIALIZED" THEN [t EXCEPT ![o].val = v, ![o].how = "setdefault"] ELSE t
RECURSIVE InitUpTo(_, _, _)
InitUpTo(t, e, n) == IF n = 0 THEN t ELSE InitF(InitUpTo(t, e, n - 1), e, n)
InitAllF(t, e) == InitUpTo(t, e, NOpts)                \* _mi_options_init at process load: options in index order

ClampZ(x, lo, hi) == IF ZLess(x, lo) THEN lo ELSE IF ZLess(hi, x) THEN hi ELSE x      \* mi_option_get_clamp
\* mi_option_get_size: negative -> 0; KiB options are multiplied by 1024 in size_t (wraps at 2^64: `SizeWraps`)
SizeOf(o, x) == LET m == IF x.neg THEN << >> ELSE x.mag IN IF OptTable[o].kib THEN ShL(m, 1) ELSE m
SizeWraps(o, x) == Cmp(SizeOf(o, x), TwoTo64) >= 0

\* ---------------------------------------------------------------------------------------------- bounded model
E(nm, v) == [name |-> S(nm), val |-> S(v)]
Digits70 == [i \in 1..70 |-> 49 + (i % 9)]
MCEnvs == <<
  << >>,                                                                              \* 1  empty environment
  << E("MIMALLOC_PURGE_DELAY", "25") >>,                                              \* 2  decimal
  << E("mimalloc_reset_delay", "-3") >>,                                              \* 3  legacy name, lower case, negative
  << E("MIMALLOC_PURGE_DELAY", "12x") >>,                                             \* 4  malformed
  << E("MIMALLOC_ARENA_RESERVE", "2GiB"), E("MIMALLOC_SHOW_ERRORS", "on") >>,         \* 5  size suffix, boolean
  << E("MIMALLOC_ARENA_RESERVE", "99999999999999999999T") >>,                         \* 6  strtol saturation + multiplication overflow
  << E("MIMALLOC_GUARDED_MIN", "3000000000"), E("MIMALLOC_GUARDED_MAX", "5") >>,      \* 7  coupling through the environment
  << E("MIMALLOC_PURGE_DELAY", "99999999999999999999") >>,                            \* 8  LONG_MAX saturation
  << [name |-> S("MIMALLOC_PURGE_DELAY"), val |-> Digits70 \o S("x")] >>,             \* 9  70 digits + junk: only 64 characters are read
  << E("Mimalloc_Purge_Delay", "7"), E("MIMALLOC_PURGE_DELAY", "8") >>,               \* 10 first match in environ order wins
  << E("MIMALLOC_ARENA_RESERVE", "1500"), E("MIMALLOC_RESERVE_OS_MEMORY", "-4K") >>,  \* 11 bytes rounded up to KiB; negative size
  << E("MIMALLOC_SHOW_ERRORS", "") >>                                                 \* 12 empty value = enabled
>>

TypeOK ==
  /\ \A o \in Opts : IsZ(tab[o].val) /\ tab[o].init \in Inits
  /\ nops \in 0..MaxOps

MCInit ==
  /\ tab = PristineTable
  /\ env \in {MCEnvs[k] : k \in MCEnvIds}
  /\ nops = 0
  /\ last = [op |-> "none", o |-> 0, v |-> Z(0)]
  /\ touched = [o \in Opts |-> FALSE]

Step(op, o, v) == nops < MaxOps /\ nops' = nops + 1 /\ last' = [op |-> op, o |-> o, v |-> v] /\ UNCHANGED env
Get(o) == Step("get", o, Z(0)) /\ tab' = GetF(tab, env, o)
          /\ touched' = [p \in Opts |-> touched[p] \/ (p # o /\ tab'[p] # tab[p])]      \* coupling through the environment
Set(o, v) == Step("set", o, v) /\ tab' = SetF(tab, o, v, "set")
             /\ touched' = [p \in Opts |-> touched[p] \/ p = o \/ tab'[p] # tab[p]]
SetDefault(o, v) == Step("setdefault", o, v) /\ tab' = SetDefaultF(tab, o, v)
                    /\ touched' = [p \in Opts |-> touched[p] \/ tab'[p] # tab[p]]
SetEnabled(o, b) == Set(o, Z(IF b THEN 1 ELSE 0))                              \* mi_option_set_enabled / enable / disable
SetEnabledDefault(o, b) == SetDefault(o, Z(IF b THEN 1 ELSE 0))

MCNext ==
  \E o \in MCOpts :
     \/ Get(o)
     \/ \E v \in MCVals \cup {-1} : Set(o, Z(v)) \/ SetDefault(o, Z(v))         \* -1: a negative value (cfg files cannot write one)
     \/ \E b \in BOOLEAN : SetEnabled(o, b) \/ SetEnabledDefault(o, b)

mcVars == <<tab, env, nops, last, touched>>
MCSpec == MCInit /\ [][MCNext]_mcVars

\* ---- what the bounded model is checked for
\* how the grammar classifies the environment value of option o (evaluated once per explored environment)
EnvParseIn(e, o) == LET raw == EnvValue(e, o) IN IF raw = NoVal THEN [kind |-> "absent", val |-> Z(0)] ELSE Parse(OptTable[o].kib, raw)
MCParsed == [k \in MCEnvIds |-> [o \in Opts |-> EnvParseIn(MCEnvs[k], o)]]
EnvParse(o) == MCParsed[CHOOSE k \in MCEnvIds : MCEnvs[k] = env][o]

\* Get after Set returns the set value (until the next write)
SetGet == last.op = "set" => /\ tab[last.o].val = last.v /\ tab[last.o].init = "INITIALIZED"
                             /\ GetF(tab, env, last.o)[last.o].val = last.v
\* the documented coupling: a Set on one of guarded_min/guarded_max leaves min <= max
GuardedOrdered == (last.op = "set" /\ last.o \in {GMin, GMax}) => ~ZLess(tab[GMax].val, tab[GMin].val)
\* a malformed or absent environment value leaves the default in place (until the program writes the option)
MalformedLeavesDefault ==
  \A o \in Opts : (EnvParse(o).kind \in {"malformed", "absent"} /\ ~touched[o]) =>
                     /\ tab[o].val = Z(OptTable[o].dflt)
                     /\ tab[o].init \in {"UNINIT", "DEFAULTED"}
\* a well-formed environment value is what an initialised, not programmatically written option holds
EnvWins ==
  \A o \in Opts : (EnvParse(o).kind \in {"bool", "num"} /\ tab[o].init # "UNINIT" /\ ~touched[o]) => tab[o].val = EnvParse(o).val
\* parsed values always fit a C long and size options are never negative
ParsedInRange ==
  \A o \in Opts : LET p == EnvParse(o) IN p.kind \in {"bool", "num"} => IsZ(p.val) /\ (OptTable[o].kib => ~p.val.neg)
MCInv == TypeOK /\ SetGet /\ GuardedOrdered /\ MalformedLeavesDefault /\ EnvWins /\ ParsedInRange

\* action properties
InitMonotone == [][\A o \in Opts : InitRank(tab'[o].init) >= InitRank(tab[o].init)]_mcVars
SetDefaultRespectsInitialized ==
  [][\A o \in Opts : (last'.op = "setdefault" /\ tab[o].init = "INITIALIZED") => tab'[o] = tab[o]]_mcVars
OnlyGetReadsEnv ==        \* the environment is consulted exactly once per option: on the first Get
  [][\A o \in Opts : (tab[o].init = "UNINIT" /\ tab'[o].init = "DEFAULTED") => (last'.op = "get" /\ last'.o = o)]_mcVars

\* ---------------------------------------------------------------------------------------------- generator of value forms
\* The well-formed and malformed "small forms" of the grammar, enumerated by TLC (MiOptionsGen.cfg) and fed to the real
\* allocator as environment values; the expectation for each recorded run is computed again by Parse in OptsTrace.
Cat(X, Y) == {x \o y : x \in X, y \in Y}
BoolFormsStr == {"1", "0", "true", "TRUE", "True", "tRuE", "yes", "YES", "Yes", "on", "ON", "On", "oN",
                 "false", "FALSE", "False", "fALSe", "no", "NO", "No", "nO", "off", "OFF", "Off", "oFF", ""}
MagnitudeStr == {"0", "00", "1", "2", "7", "9", "10", "42", "99", "100", "007", "512", "1023", "1024", "1025", "2047", "2048", "4096", "65536",
                 "1048575", "1048576", "1048577", "2147483647", "2147483648", "4294967295", "4294967296",
                 "281474976579584", "281474976579585", "274877906816", "274877906817",  \* MI_MAX_ALLOC_SIZE, /1024 : clamp boundary for K and M
                 "268435455", "268435456", "262143", "262144",                      \* ... for G and T
                 "8796093022207", "8796093022208",                                  \* 2^43 -+
                 "9007199254740991", "9007199254740992", "9007199254740993",        \* 2^53 -+
                 "17179869183", "17179869184",                                      \* 2^34 -+ : x T = 2^64 overflow boundary
                 "18014398509481984", "18014398509481983",                          \* 2^54 -+ : x K wraps in get_size; x M overflows
                 "9223372036854775806", "9223372036854775807", "9223372036854775808", "9223372036854775809",
                 "18446744073709551615", "18446744073709551616", "99999999999999999999",
                 "0000000000000000000000000000000000000000000000000000000000000012"}
SignStr == {"", "+", "-"}
SuffixStr == {"", "K", "M", "G", "T", "KB", "MB", "GB", "TB", "KiB", "MiB", "GiB", "TiB", "B", "k", "m", "g", "t", "kb", "kib", "KIB", "mIb", "b"}
JunkStr == {"x", "z", "q", "#", "?", "~", "xz", "Q!", "zzzzzzzz", "--", "+-", "-", "+", "x1", "1x", "12zz", "5 ", "1.5", "1e3", "0x10", "5KX", "5KiBx", "5Kz", "3GiBB", "5BB",
            "5KK", "1,000", "5 K", "K5", "x;", "$(id)", "%s%s%n", "-q", "+1+", "1-",
            "n", "N", "rue", "E;Y", "e;y", "ALS", "f", ";", "1;TRUE", "0;", "O", "es", "FF", ";ON",              \* parts of the keyword lists
            "K", "KiB", "GiB", "T", "B", "mb", "-K", "+GiB"}                                                     \* a suffix without digits
Z60 == "000000000000000000000000000000000000000000000000000000000000"
LongStr == {Z60 \o "0025", Z60 \o "00025", Z60 \o "0025junk", Z60 \o "00000000true", Z60 \o "002K", Z60 \o "0002K", Z60 \o Z60 \o "7"}   \* 64 characters are a value, 65 are not
NumFormsStr == Cat(SignStr, MagnitudeStr)
SizeFormsStr == Cat(NumFormsStr, SuffixStr)
AllFormsStr == BoolFormsStr \cup SizeFormsStr \cup JunkStr \cup LongStr
\* the part that the quick tier always runs: every boolean spelling, every junk form, and the arithmetic boundaries
\* (rounding to KiB, LONG_MAX, 2^64, MI_MAX_ALLOC_SIZE) with the main suffixes; the rest is sampled (seeded)
EdgeMagnitudeStr == {"0", "1", "1023", "1024", "1025", "2147483648", "281474976579584", "281474976579585", "274877906816", "274877906817",
                     "268435455", "268435456", "262143", "262144", "17179869183", "17179869184", "18014398509481983", "18014398509481984",
                     "9223372036854775807", "9223372036854775808", "18446744073709551615", "18446744073709551616", "99999999999999999999"}
QuickSuffixStr == {"", "K", "M", "G", "T", "KiB", "GiB", "B", "mb", "x"}
QuickFormsStr == BoolFormsStr \cup JunkStr \cup LongStr \cup Cat(Cat({"", "-"}, EdgeMagnitudeStr), QuickSuffixStr)
=============================================================================
