SPECIFICATION Spec
CONSTANTS
  W = 4
  F = 3
  Threads = {t1, t2}
  Counts = {1, 3, 5, 6}
  MaxClaims = 2
INVARIANTS BitsAccounted OwnedBitsSet AllFreeAtEnd
CHECK_DEADLOCK FALSE
