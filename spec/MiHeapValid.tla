---------------------------- MODULE MiHeapValid ----------------------------
(***************************************************************************
  Well-formedness of one heap's page queues (src/page-queue.c, src/page.c), as a record dumped from the running allocator at a
  quiescent point of the owning thread.  A transcription of the allocator's own debug-only checks (_mi_page_is_valid,
  mi_heap_is_valid, mi_page_queue_contains) extended by what C01/C03/C10/C12/C16 rely on:

    h : [ id, npages (heap.page_count),
          queues : sequence over the bins 0..MI_BIN_FULL of [ bsize (block size of the bin), first, last, pages ]
                   where pages is the sequence of page records met by following `next` from `first` (bounded), each
                   [ pg (page number), prev (page number of page.prev, 0 = none), heap (1 iff page.heap is this heap), bsize, binof (bin of the
                     page's block size), full (in_full flag), aligned (has_aligned flag), used, cap, res, nfree (|free| + |local_free|),
                     ntf (|thread_free|), live (blocks the program holds in the page), interior (program pointers that are not block starts) ],
          direct : sequence of <<wsize, page number or 0, block size of that page>> (the pages_free_direct table, 0 = the empty page),
          full : index of the FULL queue, huge : index of the HUGE queue ]

  Obligations (HeapFail names the first one that fails):
    QueueLinks         following next from first ends at last; prev of every page is its predecessor; no page twice
    PageInRightQueue   a page lies in the queue of its block size, or in the FULL queue exactly if its in_full flag is set
                       (pages of the huge bin: block size above the largest class)
    PageHeap           every page of the heap's queues names this heap
    PageCounts         used <= capacity <= reserved, used + free + local_free = capacity
    FullPagesAreFull   when the heap's delayed-free list is empty (dlempty), a page in the FULL queue has no block on its free / local-free list:
                       a block that comes back to a full page (freed by the owner, or by another thread -- the first such free goes through the
                       heap's delayed list) takes the page out of the FULL queue, otherwise its free blocks are never found again (C08: remotely
                       freed memory is not lost).  (While the delayed block is still pending, a heap walk or collect may already have moved later
                       remote frees of that page to its free list.)
    LiveAccounted      used - thread_free = number of blocks the program holds in the page (no pending work in a quiescent heap)
    AlignedFlag        a page that holds an interior (over-aligned) pointer of the program has has_aligned set
    PageCount          heap.page_count = number of pages in all queues
    DirectTable        pages_free_direct[w] is the first page of the queue of word size w, or the empty page if that queue is empty
 ***************************************************************************)
EXTENDS Integers, Sequences, FiniteSets, TLC

PgOf(q) == [i \in 1..Len(q.pages) |-> q.pages[i].pg]
RECURSIVE SumLen(_, _)
SumLen(qs, i) == IF i > Len(qs) THEN 0 ELSE Len(qs[i].pages) + SumLen(qs, i + 1)

QueueLinksOK(q) ==
  LET n == Len(q.pages) IN
  /\ (n = 0 => (q.first = 0 /\ q.last = 0))
  /\ (n > 0 => (q.first = q.pages[1].pg /\ q.last = q.pages[n].pg /\ q.pages[1].prev = 0))
  /\ \A i \in 2..n : q.pages[i].prev = q.pages[i - 1].pg
  /\ Cardinality({q.pages[i].pg : i \in 1..n}) = n
  /\ q.complete                                   \* the walk ended at NULL (no cycle, not cut off)

HeapFail(h) ==
  LET qs == h.queues  nq == Len(qs)
      allp == UNION {{<<b, i>> : i \in 1..Len(qs[b].pages)} : b \in 1..nq}
      P(x) == qs[x[1]].pages[x[2]]
  IN
  IF \E b \in 1..nq : ~QueueLinksOK(qs[b]) THEN "QueueLinks"
  ELSE IF \E x \in allp : IF P(x).full THEN x[1] # h.full ELSE (x[1] = h.full \/ x[1] # P(x).binof) THEN "PageInRightQueue"
  ELSE IF \E x \in allp : P(x).heap # 1 THEN "PageHeap"
  ELSE IF \E x \in allp : ~(P(x).used <= P(x).cap /\ P(x).cap <= P(x).res /\ P(x).used + P(x).nfree = P(x).cap) THEN "PageCounts"
  ELSE IF h.dlempty /\ (\E x \in allp : x[1] = h.full /\ P(x).nfree > 0) THEN "FullPagesAreFull"
  ELSE IF h.quiet /\ (\E x \in allp : P(x).used - P(x).ntf # P(x).live) THEN "LiveAccounted"
  ELSE IF \E x \in allp : P(x).interior > 0 /\ ~P(x).aligned THEN "AlignedFlag"
  ELSE IF h.npages # SumLen(qs, 1) THEN "PageCount"
  ELSE IF \E k \in 1..Len(h.direct) :
            LET w == h.direct[k][1]  pg == h.direct[k][2]  b == h.direct[k][4]     \* b: index of the queue for word size w
            IN IF Len(qs[b].pages) = 0 THEN pg # 0
               ELSE IF qs[b].bsize > 1024 THEN pg \notin {0, qs[b].pages[1].pg}     \* (queues above MI_SMALL_SIZE_MAX do not maintain the table: the entry stays the empty page)
               ELSE pg # qs[b].pages[1].pg
       THEN "DirectTable"
  ELSE ""
HeapValid(h) == HeapFail(h) = ""
=============================================================================
