----------------------------- MODULE MiPurgeConc -----------------------------
(***************************************************************************
  The purge schedule of the arenas under concurrency: the atomic steps of mi_arena_schedule_purge (inside _mi_arena_free) and of
  mi_arenas_try_purge / mi_arena_try_purge (src/arena.c) executed by several threads; MiPurge.tla is the sequential view of the
  same code.  Arenas have one block each (the races are between the expiry words and the purge marks, not between blocks).

  A thread that frees the block of arena a (it still owns the block: the in-use bit is released last):
     F1  mark the block for purging                                  (_mi_bitmap_claim_across on blocks_purge)
     F2  CAS the arena's expiry 0 -> now + delay                     (remember whether it succeeded)
     F3  if it did: CAS the global expiry 0 -> now + delay
     F4  release the in-use bit
     then mi_arenas_try_purge(false, false):
     P0  read the global expiry; return unless it is due (or forced)
     P1  take the guard (return if somebody else holds it); P2 store global expiry := now + delay
     per arena i:  A1 read its expiry, skip unless due (or forced);  A2 CAS it to 0;  A3 claim the marked block if it is not in use,
                   purge it and unmark it (if it is in use: the purge is not full, A4 CAS expiry 0 -> now + delay);  A5 read the
                   expiry again: pending if set
     P3  if all arenas were visited and none is pending: CAS the global expiry (the value stored in P2) -> 0
     P4  look at the arenas again: the first one with an expiry -> CAS the global expiry 0 -> that expiry
     P5  release the guard
  (the budget of purging arenas per visit is ignored here: MiPurge covers it.)

  Variant "fixed" is the code as it is.  "mark_last" puts F1 behind F3 (the order before /repo 95404ba), "no_relook" drops P4
  (the code before /repo 7a0ea3c), "skip_in_use" lets A3 pass over a marked block that is in use without re-arming the expiry in A4
  (the code before the third repair: the thread that marked the block was still about to release it).  TLC checks Quiescent: whenever no thread is inside a call,
        a marked block  =>  its arena has an expiry         (MiArenaValid.PurgeScheduled)
        an arena has an expiry  =>  the global expiry is set  (MiArenaValid.GlobalCoversArenas)
  With either old variant TLC finds the interleaving (tools/selftest.py) -- the two races were first seen in arena tables dumped
  from scheduled executions of the real allocator (DESIGN.md 12.2, 12.8).
 ***************************************************************************)
EXTENDS Integers, Sequences, FiniteSets, TLC
CONSTANTS NA, Threads, Delay, MaxOps, Variant
VARIABLES inuse, mark, set, rem, gset, grem, guard, pc, loc, ops
vars == <<inuse, mark, set, rem, gset, grem, guard, pc, loc, ops>>
Arena == 1..NA
NoLoc == [a |-> 0, ok |-> FALSE, force |-> FALSE, i |-> 0, pending |-> FALSE, full |-> TRUE, seen |-> FALSE]

Init == /\ inuse = [a \in Arena |-> FALSE] /\ mark = [a \in Arena |-> FALSE] /\ set = [a \in Arena |-> FALSE] /\ rem = [a \in Arena |-> 0]
        /\ gset = FALSE /\ grem = 0 /\ guard = "none" /\ pc = [t \in Threads |-> "idle"] /\ loc = [t \in Threads |-> NoLoc]
        /\ ops = [t \in Threads |-> 0]

Goto(t, l) == pc' = [pc EXCEPT ![t] = l]
Keep(vs) == UNCHANGED vs

\* ---- idle: begin a call
Alloc(t, a) == /\ pc[t] = "idle" /\ ~inuse[a] /\ ops[t] < MaxOps
               /\ inuse' = [inuse EXCEPT ![a] = TRUE] /\ mark' = [mark EXCEPT ![a] = FALSE]      \* (claim in-use, then unmark; one step: nobody else may touch a block in use)
               /\ ops' = [ops EXCEPT ![t] = @ + 1] /\ UNCHANGED <<set, rem, gset, grem, guard, pc, loc>>
BeginFree(t, a) == /\ pc[t] = "idle" /\ inuse[a] /\ ops[t] < MaxOps /\ \A u \in Threads : ~(pc[u] # "idle" /\ loc[u].a = a /\ pc[u] \in {"F1", "F2", "F3", "F4", "F1b"})
                   /\ loc' = [loc EXCEPT ![t] = [NoLoc EXCEPT !.a = a]] /\ ops' = [ops EXCEPT ![t] = @ + 1]
                   /\ Goto(t, IF Variant = "mark_last" THEN "F2" ELSE "F1")
                   /\ UNCHANGED <<inuse, mark, set, rem, gset, grem, guard>>
BeginCollect(t, f) == /\ pc[t] = "idle" /\ ops[t] < MaxOps
                      /\ loc' = [loc EXCEPT ![t] = [NoLoc EXCEPT !.force = f]] /\ ops' = [ops EXCEPT ![t] = @ + 1] /\ Goto(t, "P0")
                      /\ UNCHANGED <<inuse, mark, set, rem, gset, grem, guard>>

\* ---- mi_arena_schedule_purge + release
F1(t) == /\ pc[t] = "F1" /\ mark' = [mark EXCEPT ![loc[t].a] = TRUE] /\ Goto(t, "F2") /\ UNCHANGED <<inuse, set, rem, gset, grem, guard, loc, ops>>
F2(t) == /\ pc[t] = "F2"
         /\ LET a == loc[t].a IN
            IF set[a] THEN loc' = [loc EXCEPT ![t].ok = FALSE] /\ UNCHANGED <<set, rem>>
            ELSE loc' = [loc EXCEPT ![t].ok = TRUE] /\ set' = [set EXCEPT ![a] = TRUE] /\ rem' = [rem EXCEPT ![a] = Delay]
         /\ Goto(t, "F3") /\ UNCHANGED <<inuse, mark, gset, grem, guard, ops>>
F3(t) == /\ pc[t] = "F3"
         /\ IF loc[t].ok /\ ~gset THEN gset' = TRUE /\ grem' = Delay ELSE UNCHANGED <<gset, grem>>
         /\ Goto(t, IF Variant = "mark_last" THEN "F1b" ELSE "F4") /\ UNCHANGED <<inuse, mark, set, rem, guard, loc, ops>>
F1b(t) == /\ pc[t] = "F1b" /\ mark' = [mark EXCEPT ![loc[t].a] = TRUE] /\ Goto(t, "F4") /\ UNCHANGED <<inuse, set, rem, gset, grem, guard, loc, ops>>
F4(t) == /\ pc[t] = "F4" /\ inuse' = [inuse EXCEPT ![loc[t].a] = FALSE] /\ loc' = [loc EXCEPT ![t].force = FALSE] /\ Goto(t, "P0")
         /\ UNCHANGED <<mark, set, rem, gset, grem, guard, ops>>

\* ---- mi_arenas_try_purge
P0(t) == /\ pc[t] = "P0" /\ Goto(t, IF loc[t].force \/ (gset /\ grem = 0) THEN "P1" ELSE "idle") /\ UNCHANGED <<inuse, mark, set, rem, gset, grem, guard, loc, ops>>
P1(t) == /\ pc[t] = "P1"
         /\ IF guard = "none" THEN guard' = t /\ Goto(t, "P2") ELSE UNCHANGED guard /\ Goto(t, "idle")
         /\ UNCHANGED <<inuse, mark, set, rem, gset, grem, loc, ops>>
P2(t) == /\ pc[t] = "P2" /\ gset' = TRUE /\ grem' = Delay /\ loc' = [loc EXCEPT ![t].i = 1, ![t].pending = FALSE] /\ Goto(t, "A1")
         /\ UNCHANGED <<inuse, mark, set, rem, guard, ops>>
NextArena(t) == IF loc[t].i < NA THEN loc' = [loc EXCEPT ![t].i = @ + 1] /\ Goto(t, "A1") ELSE UNCHANGED loc /\ Goto(t, "P3")
A1(t) == /\ pc[t] = "A1"
         /\ LET i == loc[t].i IN Goto(t, IF loc[t].force \/ (set[i] /\ rem[i] = 0) THEN "A2" ELSE "A5") /\ loc' = [loc EXCEPT ![t].seen = set[i]]
         /\ UNCHANGED <<inuse, mark, set, rem, gset, grem, guard, ops>>
A2(t) == /\ pc[t] = "A2"           \* CAS from the value read in A1 to 0 (a non-zero expiry is never overwritten by another non-zero one, so "still set" means "same value")
         /\ LET i == loc[t].i IN
            IF loc[t].seen /\ set[i] THEN set' = [set EXCEPT ![i] = FALSE] /\ rem' = [rem EXCEPT ![i] = 0] ELSE UNCHANGED <<set, rem>>
         /\ Goto(t, "A3") /\ UNCHANGED <<inuse, mark, gset, grem, guard, loc, ops>>
A3(t) == /\ pc[t] = "A3"
         /\ LET i == loc[t].i IN
            IF mark[i] /\ ~inuse[i] THEN mark' = [mark EXCEPT ![i] = FALSE] /\ loc' = [loc EXCEPT ![t].full = TRUE]       \* claimed, purged, unmarked, released
            ELSE UNCHANGED mark /\ loc' = [loc EXCEPT ![t].full = IF Variant = "skip_in_use" THEN TRUE ELSE ~mark[i]]   \* marked but in use: not a full purge
         /\ Goto(t, "A4") /\ UNCHANGED <<inuse, set, rem, gset, grem, guard, ops>>
A4(t) == /\ pc[t] = "A4"
         /\ LET i == loc[t].i IN
            IF ~loc[t].full /\ ~set[i] THEN set' = [set EXCEPT ![i] = TRUE] /\ rem' = [rem EXCEPT ![i] = Delay] ELSE UNCHANGED <<set, rem>>
         /\ Goto(t, "A5") /\ UNCHANGED <<inuse, mark, gset, grem, guard, loc, ops>>
A5(t) == /\ pc[t] = "A5"
         /\ LET i == loc[t].i  p == loc[t].pending \/ set[i] IN
            IF i < NA THEN loc' = [loc EXCEPT ![t].i = i + 1, ![t].pending = p] /\ Goto(t, "A1")
            ELSE loc' = [loc EXCEPT ![t].pending = p] /\ Goto(t, "P3")
         /\ UNCHANGED <<inuse, mark, set, rem, gset, grem, guard, ops>>
P3(t) == /\ pc[t] = "P3"
         /\ IF ~loc[t].pending THEN gset' = FALSE /\ grem' = 0 /\ Goto(t, IF Variant = "no_relook" THEN "P5" ELSE "P4")
            ELSE UNCHANGED <<gset, grem>> /\ Goto(t, "P5")
         /\ UNCHANGED <<inuse, mark, set, rem, guard, loc, ops>>
P4(t) == /\ pc[t] = "P4"
         /\ LET S == {i \in Arena : set[i]} IN
            IF S # {} /\ ~gset THEN gset' = TRUE /\ grem' = rem[CHOOSE i \in S : \A j \in S : i <= j] ELSE UNCHANGED <<gset, grem>>
         /\ Goto(t, "P5") /\ UNCHANGED <<inuse, mark, set, rem, guard, loc, ops>>
P5(t) == /\ pc[t] = "P5" /\ guard' = "none" /\ Goto(t, "idle") /\ UNCHANGED <<inuse, mark, set, rem, gset, grem, loc, ops>>

Tick == /\ rem' = [a \in Arena |-> IF rem[a] > 0 THEN rem[a] - 1 ELSE 0] /\ grem' = (IF grem > 0 THEN grem - 1 ELSE 0)
        /\ (rem' # rem \/ grem' # grem) /\ UNCHANGED <<inuse, mark, set, gset, guard, pc, loc, ops>>

Step(t) == \/ \E a \in Arena : Alloc(t, a) \/ BeginFree(t, a)
           \/ \E f \in BOOLEAN : BeginCollect(t, f)
           \/ F1(t) \/ F2(t) \/ F3(t) \/ F1b(t) \/ F4(t) \/ P0(t) \/ P1(t) \/ P2(t) \/ A1(t) \/ A2(t) \/ A3(t) \/ A4(t) \/ A5(t) \/ P3(t) \/ P4(t) \/ P5(t)
Next == Tick \/ \E t \in Threads : Step(t)
Spec == Init /\ [][Next]_vars

AllIdle == \A t \in Threads : pc[t] = "idle"
Quiescent == AllIdle => /\ \A a \in Arena : mark[a] => set[a]
                        /\ (\E a \in Arena : set[a]) => gset
\* a block that is in use by a thread outside a free is never unmarked-and-purged: purging avoids blocks in use (C13) -- by construction of A3
NeverPurgeInUse == \A a \in Arena : (mark[a] /\ inuse[a]) => \E t \in Threads : pc[t] \in {"F2", "F3", "F4", "F1b"} /\ loc[t].a = a
=============================================================================
