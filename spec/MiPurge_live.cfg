SPECIFICATION FairSpec
CONSTANTS NA = 3
 NB = 1
 Delay = 2
 Budget = 2
 Variant = "fixed"
INVARIANT ModelValid
PROPERTY EventuallyPurged
