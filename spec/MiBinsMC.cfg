\* default instance for manual runs; checks/c16.py generates the chunked configurations (Mode, Lo, Hi, Full)
SPECIFICATION Spec
CONSTANTS
  Mode = "size"
  Lo = 0
  Hi = 131073
  Full = FALSE
INVARIANT Theorems
CHECK_DEADLOCK FALSE
