------------------------------ MODULE HeapTrace ------------------------------
(* Trace specification for heap dumps: every `heap` event (the page queues of one heap of the running thread at a quiescent point,
   see MiHeapValid) must satisfy HeapValid.  The guard name is Heap.<obligation>. *)
EXTENDS Integers, Sequences, FiniteSets, TLC, Json, IOUtils
CONSTANT Relaxed
Tr == ndJsonDeserialize(IOEnv.TRACE)
VARIABLE step
INSTANCE MiHeapValid
Init == step = 0
Next ==
  /\ step < Len(Tr) /\ step' = step + 1
  /\ LET ev == Tr[step + 1] IN
     IF ev.e = "heap"
     THEN LET f == HeapFail(ev) IN
          IF f = "" THEN TRUE ELSE (Relaxed /\ PrintT(<<"GUARDFAIL", "Heap." \o f, step + 1, ev.id>>))
     ELSE TRUE
Spec == Init /\ [][Next]_step
TraceAccepted == /\ PrintT(<<"TVDIAMETER", TLCGet("stats").diameter - 1>>) /\ TLCGet("stats").diameter - 1 = Len(Tr)
=============================================================================
