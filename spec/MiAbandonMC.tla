----------------------------- MODULE MiAbandonMC -----------------------------
EXTENDS MiAbandon
\* 3 threads (t1, t2 in sub-process p1; t3 in p2), 2 segments: s1 owned by t1 (2 blocks), s2 owned by t3 (1 block)
McSubOfThread == [t \in Threads |-> IF t = "t3" THEN "p2" ELSE "p1"]
McSubOfSeg == [s \in Segs |-> IF s = "s2" THEN "p2" ELSE "p1"]
McInitOwner == [s \in Segs |-> IF s = "s2" THEN "t3" ELSE "t1"]
McInitLive == [s \in Segs |-> IF s = "s2" THEN 1 ELSE 2]
=============================================================================
