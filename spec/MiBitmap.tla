------------------------------ MODULE MiBitmap ------------------------------
(* src/bitmap.c: claim of `count` consecutive bits, inside one field or across fields with roll-back, at the granularity of the
   atomic operations on the bitmap words (_mi_bitmap_try_find_from_claim_across -> per start field: first the in-field search
   _mi_bitmap_try_find_claim_field when count <= W, then mi_bitmap_try_find_claim_field_across: leading zeros of the start word,
   one load per following word, CAS on the initial word, CAS 0 -> FULL on intermediate words, CAS on the final word, roll-back,
   <= 3 retries), _mi_bitmap_unclaim_across as one fetch_and per word, and the purge-style _mi_bitmap_try_claim / _mi_bitmap_unclaim.
   A field is the set of its set bit positions 0..W-1 (bit W-1 is the most significant).  Pre-claimed left-over bits (Blocked)
   model the unusable tail of an arena's last field. *)
EXTENDS Naturals, FiniteSets, Sequences, TLC
CONSTANTS W, F, Threads, Counts, MaxClaims, Blocked, Purgers    \* Blocked: globally blocked bits; Purgers: threads that do try_claim/unclaim of free ranges
Bits == 0..(W-1)
Full == Bits
Lo(n) == 0..(n-1)                       \* mask of the n low bits
Hi(n) == (W-n)..(W-1)                   \* mask of the n high bits
Clz(m) == IF m = {} THEN W ELSE (W-1) - (CHOOSE b \in m : \A c \in m : c <= b)   \* leading zeros
Ctz1(m) == IF m = Full THEN W ELSE CHOOSE b \in Bits \ m : \A c \in Bits \ m : b <= c  \* first zero bit
DivUp(a,b) == (a + b - 1) \div b
Glob(f, S) == {f*W + b : b \in S}

VARIABLES field,            \* [0..F-1 -> SUBSET Bits]
          owner,            \* ghost: global bit -> thread or "none"
          pc, cnt, idx, retries, map, initial, found, cur, lastmask, bitidx, held, nclaims, mine,
          phase             \* "in" = in-field search of the current start field, "x" = across attempt of the same start field
vars == <<field,owner,pc,cnt,idx,retries,map,initial,found,cur,lastmask,bitidx,held,nclaims,mine,phase>>

Init == /\ field = [f \in 0..(F-1) |-> {b \in Bits : (f*W + b) \in Blocked}]
        /\ owner = [g \in 0..(F*W-1) |-> IF g \in Blocked THEN "blocked" ELSE "none"]
        /\ phase = [t \in Threads |-> "in"]
        /\ pc = [t \in Threads |-> "idle"] /\ cnt = [t \in Threads |-> 0] /\ idx = [t \in Threads |-> 0]
        /\ retries = [t \in Threads |-> 0] /\ map = [t \in Threads |-> {}] /\ initial = [t \in Threads |-> 0]
        /\ found = [t \in Threads |-> 0] /\ cur = [t \in Threads |-> 0] /\ lastmask = [t \in Threads |-> {}]
        /\ bitidx = [t \in Threads |-> 0] /\ held = [t \in Threads |-> {}] /\ nclaims = [t \in Threads |-> 0]
        /\ mine = [t \in Threads |-> {}]

Set(v, t, x) == [v EXCEPT ![t] = x]

\* ---- start a claim ----
Start(t) == /\ t \notin Purgers /\ pc[t] = "idle" /\ held[t] = {} /\ nclaims[t] < MaxClaims
            /\ \E c \in Counts : cnt' = Set(cnt,t,c)
            /\ idx' = Set(idx,t,0) /\ retries' = Set(retries,t,0) /\ nclaims' = Set(nclaims,t,nclaims[t]+1)
            /\ pc' = Set(pc,t,"a0") /\ mine' = Set(mine,t,{}) /\ phase' = Set(phase,t,"in")
            /\ UNCHANGED <<field,owner,map,initial,found,cur,lastmask,bitidx,held>>

NextIdx(t) == /\ phase' = Set(phase,t,"in")
              /\ IF idx[t] + 1 < F
                 THEN /\ idx' = Set(idx,t,idx[t]+1) /\ retries' = Set(retries,t,0) /\ pc' = Set(pc,t,"a0")
                 ELSE /\ pc' = Set(pc,t,"failed") /\ UNCHANGED <<idx,retries>>
\* the in-field search of this start field failed: counts > 2 go on with the across attempt of the same field
InFieldFailed(t) == IF phase[t] = "in" /\ cnt[t] > 2
                    THEN /\ phase' = Set(phase,t,"x") /\ pc' = Set(pc,t,"a0") /\ UNCHANGED <<idx,retries>>
                    ELSE NextIdx(t)

\* a0: load field[idx]; decide
A0(t) == /\ pc[t] = "a0"
         /\ LET m == field[idx[t]] ini == Clz(m) IN
            /\ map' = Set(map,t,m) /\ initial' = Set(initial,t,ini)
            /\ IF phase[t] = "in" /\ (cnt[t] <= 2 \/ cnt[t] <= W)
               THEN \* in-field search (_mi_bitmap_try_find_claim_field)
                    IF m = Full THEN InFieldFailed(t) /\ UNCHANGED <<bitidx,found,cur>>
                    ELSE /\ bitidx' = Set(bitidx,t,Ctz1(m)) /\ pc' = Set(pc,t,"s1") /\ UNCHANGED <<idx,retries,found,cur,phase>>
               ELSE \* across attempt (mi_bitmap_try_find_claim_field_across)
                    IF ini = 0 THEN NextIdx(t) /\ UNCHANGED <<bitidx,found,cur>>
                    ELSE IF ini >= cnt[t]
                    THEN /\ bitidx' = Set(bitidx,t,Ctz1(m)) /\ pc' = Set(pc,t,"s1") /\ phase' = Set(phase,t,"x") /\ UNCHANGED <<idx,retries,found,cur>>
                    ELSE IF DivUp(cnt[t]-ini, W) >= F - idx[t]
                    THEN NextIdx(t) /\ UNCHANGED <<bitidx,found,cur>>
                    ELSE /\ found' = Set(found,t,ini) /\ cur' = Set(cur,t,idx[t]) /\ pc' = Set(pc,t,"scan") /\ phase' = Set(phase,t,"x")
                         /\ UNCHANGED <<idx,retries,bitidx>>
         /\ UNCHANGED <<field,owner,cnt,lastmask,held,nclaims,mine>>

\* single field: scan/CAS loop with local copy `map`
S1(t) == /\ pc[t] = "s1"
         /\ IF bitidx[t] > W - cnt[t]
            THEN InFieldFailed(t) /\ UNCHANGED <<field,owner,map,bitidx,held,mine>>
            ELSE LET m == {bitidx[t] + i : i \in 0..(cnt[t]-1)} IN
                 IF map[t] \cap m = {}
                 THEN IF field[idx[t]] = map[t]                      \* strong CAS
                      THEN /\ field' = [field EXCEPT ![idx[t]] = map[t] \cup m]
                           /\ Assert(\A g \in Glob(idx[t],m) : owner[g] = "none", "double claim")
                           /\ owner' = [g \in DOMAIN owner |-> IF g \in Glob(idx[t],m) THEN t ELSE owner[g]]
                           /\ held' = Set(held,t,Glob(idx[t],m)) /\ pc' = Set(pc,t,"holding")
                           /\ UNCHANGED <<map,bitidx,idx,retries,mine,phase>>
                      ELSE /\ map' = Set(map,t,field[idx[t]]) /\ UNCHANGED <<field,owner,bitidx,held,pc,idx,retries,mine,phase>>
                 ELSE LET top == CHOOSE b \in (map[t] \cap m) : \A c \in (map[t] \cap m) : c <= b
                          shift == IF cnt[t] = 1 THEN 1 ELSE (top + 1) - bitidx[t] IN
                      /\ bitidx' = Set(bitidx,t,bitidx[t]+shift) /\ UNCHANGED <<field,owner,map,held,pc,idx,retries,mine,phase>>
         /\ UNCHANGED <<cnt,initial,found,cur,lastmask,nclaims>>

\* scan ahead: one load per following field
Scan(t) == /\ pc[t] = "scan"
           /\ LET f == cur[t] + 1
                  bits == IF found[t] + W <= cnt[t] THEN W ELSE cnt[t] - found[t]
                  mask == Lo(bits) IN
              IF field[f] \cap mask # {}
              THEN NextIdx(t) /\ UNCHANGED <<found,cur,lastmask>>
              ELSE /\ cur' = Set(cur,t,f) /\ found' = Set(found,t,found[t]+bits) /\ lastmask' = Set(lastmask,t,mask)
                   /\ pc' = Set(pc,t, IF found[t]+bits >= cnt[t] THEN "ci0" ELSE "scan") /\ UNCHANGED <<idx,retries,phase>>
           /\ UNCHANGED <<field,owner,cnt,map,initial,bitidx,held,nclaims,mine>>

\* claim initial field: load, then CAS loop
Ci0(t) == /\ pc[t] = "ci0" /\ map' = Set(map,t,field[idx[t]]) /\ pc' = Set(pc,t,"ci1")
          /\ UNCHANGED <<field,owner,cnt,idx,retries,initial,found,cur,lastmask,bitidx,held,nclaims,mine,phase>>
FinalField(t) == cur[t]       \* after the scan `cur` is the final field
Ci1(t) == /\ pc[t] = "ci1"
          /\ LET im == Hi(initial[t]) IN
             IF map[t] \cap im # {}
             THEN /\ pc' = Set(pc,t,"rb_done") /\ UNCHANGED <<field,map,mine,found>>       \* failed on the initial field: nothing to roll back
             ELSE IF field[idx[t]] = map[t]
                  THEN /\ field' = [field EXCEPT ![idx[t]] = map[t] \cup im]
                       /\ mine' = Set(mine,t, mine[t] \cup Glob(idx[t],im))
                       /\ found' = Set(found,t,idx[t]+1)      \* reuse `found` as the field cursor for the mid claim
                       /\ pc' = Set(pc,t, IF idx[t]+1 < FinalField(t) THEN "cm" ELSE "cf0") /\ UNCHANGED map
                  ELSE /\ map' = Set(map,t,field[idx[t]]) /\ UNCHANGED <<field,pc,mine,found>>
          /\ UNCHANGED <<owner,cnt,idx,retries,initial,cur,lastmask,bitidx,held,nclaims,phase>>

\* intermediate fields: CAS 0 -> FULL
Cm(t) == /\ pc[t] = "cm"
         /\ LET f == found[t] IN
            IF field[f] = {}
            THEN /\ field' = [field EXCEPT ![f] = Full] /\ mine' = Set(mine,t, mine[t] \cup Glob(f,Full))
                 /\ found' = Set(found,t,f+1) /\ pc' = Set(pc,t, IF f+1 < FinalField(t) THEN "cm" ELSE "cf0")
            ELSE /\ pc' = Set(pc,t,"rb") /\ UNCHANGED <<field,mine,found>>     \* failed on field f: roll back f-1 .. idx
         /\ UNCHANGED <<owner,cnt,idx,retries,map,initial,cur,lastmask,bitidx,held,nclaims,phase>>

Cf0(t) == /\ pc[t] = "cf0" /\ map' = Set(map,t,field[FinalField(t)]) /\ pc' = Set(pc,t,"cf1")
          /\ UNCHANGED <<field,owner,cnt,idx,retries,initial,found,cur,lastmask,bitidx,held,nclaims,mine,phase>>
Cf1(t) == /\ pc[t] = "cf1"
          /\ LET f == FinalField(t) fm == lastmask[t] IN
             IF map[t] \cap fm # {}
             THEN /\ found' = Set(found,t,f) /\ pc' = Set(pc,t,"rb") /\ UNCHANGED <<field,map,mine,owner,held>>
             ELSE IF field[f] = map[t]
                  THEN LET all == mine[t] \cup Glob(f,fm) IN
                       /\ field' = [field EXCEPT ![f] = map[t] \cup fm]
                       /\ Assert(\A g \in all : owner[g] = "none", "double claim (across)")
                       /\ Assert(Cardinality(all) = cnt[t], "claimed wrong number of bits")
                       /\ owner' = [g \in DOMAIN owner |-> IF g \in all THEN t ELSE owner[g]]
                       /\ held' = Set(held,t,all) /\ mine' = Set(mine,t,{}) /\ pc' = Set(pc,t,"holding")
                       /\ UNCHANGED <<map,found>>
                  ELSE /\ map' = Set(map,t,field[f]) /\ UNCHANGED <<field,pc,mine,owner,held,found>>
          /\ UNCHANGED <<cnt,idx,retries,initial,cur,lastmask,bitidx,nclaims,phase>>

\* roll back: `found` = field we failed on; clear found-1 down to idx+1 by plain store, then the initial mask by CAS loop
Rb(t) == /\ pc[t] = "rb"
         /\ LET f == found[t] - 1 IN
            IF f > idx[t]
            THEN /\ field' = [field EXCEPT ![f] = {}] /\ mine' = Set(mine,t, mine[t] \ Glob(f,Full))
                 /\ found' = Set(found,t,f) /\ UNCHANGED <<pc,map>>
            ELSE /\ map' = Set(map,t,field[idx[t]]) /\ pc' = Set(pc,t,"rb_i") /\ UNCHANGED <<field,mine,found>>
         /\ UNCHANGED <<owner,cnt,idx,retries,initial,cur,lastmask,bitidx,held,nclaims,phase>>
RbI(t) == /\ pc[t] = "rb_i"
          /\ LET im == Hi(initial[t]) IN
             IF field[idx[t]] = map[t]
             THEN /\ field' = [field EXCEPT ![idx[t]] = map[t] \ im] /\ mine' = Set(mine,t, mine[t] \ Glob(idx[t],im))
                  /\ pc' = Set(pc,t,"rb_done") /\ UNCHANGED map
             ELSE /\ map' = Set(map,t,field[idx[t]]) /\ UNCHANGED <<field,mine,pc>>
          /\ UNCHANGED <<owner,cnt,idx,retries,initial,found,cur,lastmask,bitidx,held,nclaims,phase>>
RbDone(t) == /\ pc[t] = "rb_done"
             /\ Assert(mine[t] = {}, "roll-back left bits behind")
             /\ IF retries[t] <= 2
                THEN /\ retries' = Set(retries,t,retries[t]+1) /\ pc' = Set(pc,t,"a0") /\ UNCHANGED <<idx,phase>>
                ELSE NextIdx(t)
             /\ UNCHANGED <<field,owner,cnt,map,initial,found,cur,lastmask,bitidx,held,nclaims,mine>>

Failed(t) == /\ pc[t] = "failed" /\ Assert(mine[t] = {}, "failed claim left bits") /\ pc' = Set(pc,t,"idle")
             /\ UNCHANGED <<field,owner,cnt,idx,retries,map,initial,found,cur,lastmask,bitidx,held,nclaims,mine,phase>>

\* unclaim_across: one fetch_and per field, lowest field first
Unclaim(t) == /\ pc[t] = "holding" /\ held[t] # {}
              /\ LET g0 == CHOOSE g \in held[t] : \A h \in held[t] : g <= h
                     f == g0 \div W
                     part == {g \in held[t] : g \div W = f} IN
                 /\ Assert(\A g \in part : (g % W) \in field[f], "unclaiming a bit that is not set")
                 /\ field' = [field EXCEPT ![f] = field[f] \ {g % W : g \in part}]
                 /\ owner' = [g \in DOMAIN owner |-> IF g \in part THEN "none" ELSE owner[g]]
                 /\ held' = Set(held,t,held[t] \ part)
                 /\ pc' = Set(pc,t, IF held[t] \ part = {} THEN "idle" ELSE "holding")
              /\ UNCHANGED <<cnt,idx,retries,map,initial,found,cur,lastmask,bitidx,nclaims,mine,phase>>

\* _mi_bitmap_try_claim (arena purge): claim a given range inside one field only if it is entirely free (one CAS loop = one step)
TryClaim(t) == /\ t \in Purgers /\ pc[t] = "idle" /\ held[t] = {} /\ nclaims[t] < MaxClaims
               /\ \E f \in 0..(F-1), lo \in Bits, n \in 1..2 :
                     /\ lo + n <= W
                     /\ LET m == {lo + i : i \in 0..(n-1)} IN
                          IF field[f] \cap m = {}
                          THEN /\ field' = [field EXCEPT ![f] = field[f] \cup m]
                               /\ Assert(\A g \in Glob(f,m) : owner[g] = "none", "try_claim took an owned bit")
                               /\ owner' = [g \in DOMAIN owner |-> IF g \in Glob(f,m) THEN t ELSE owner[g]]
                               /\ held' = Set(held,t,Glob(f,m)) /\ pc' = Set(pc,t,"holding")
                          ELSE UNCHANGED <<field,owner,held,pc>>
               /\ nclaims' = Set(nclaims,t,nclaims[t]+1)
               /\ UNCHANGED <<cnt,idx,retries,map,initial,found,cur,lastmask,bitidx,mine,phase>>

Step(t) == TryClaim(t) \/ Start(t) \/ A0(t) \/ S1(t) \/ Scan(t) \/ Ci0(t) \/ Ci1(t) \/ Cm(t) \/ Cf0(t) \/ Cf1(t)
           \/ Rb(t) \/ RbI(t) \/ RbDone(t) \/ Failed(t) \/ Unclaim(t)
Next == \E t \in Threads : Step(t)
Spec == Init /\ [][Next]_vars

\* every set bit is owned by a holder or is a tentative bit of a claim in progress
BitsAccounted == \A f \in 0..(F-1) : \A b \in field[f] :
                    LET g == f*W + b IN owner[g] # "none" \/ \E t \in Threads : g \in mine[t]
OwnedBitsSet == \A g \in DOMAIN owner : owner[g] # "none" => (g % W) \in field[g \div W]
AllFreeAtEnd == (\A t \in Threads : pc[t] = "idle" /\ held[t] = {}) => \A f \in 0..(F-1) : field[f] = {b \in Bits : (f*W + b) \in Blocked}
\* C14 "after everything has been freed the arena can again be allocated completely" is AllFreeAtEnd; "a request that fails or rolls back
\* leaves nothing reserved" is the assertion in Failed/RbDone (mine = {}) together with BitsAccounted.
BlockedStay == \A g \in Blocked : (g % W) \in field[g \div W] /\ owner[g] = "blocked"
=============================================================================
