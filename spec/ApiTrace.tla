------------------------------ MODULE ApiTrace ------------------------------
(***************************************************************************
  Trace specification (Tier P): validates an ndjson trace recorded from the real allocator
  against MiApi (API-level contract) and MiOs (OS-level model).  One trace line = one action.
  Acceptance = every line consumed (POSTCONDITION) and no guard failed.
 ***************************************************************************)
EXTENDS MiApi, MiOs, Json, IOUtils

Tr == ndJsonDeserialize(IOEnv.TRACE)

vars == <<apiVars, osVars>>

TraceInit == ApiInit /\ OsInit

Consume == step' = step + 1

TraceNext ==
  /\ step < Len(Tr)
  /\ LET ev == Tr[step + 1] IN
     CASE ev.e = "call" -> Call(ev) /\ OsOnCall(ev)
       [] ev.e = "ret" -> Ret(ev) /\ OsOnRet(ev)
       [] ev.e = "write" -> Write(ev) /\ UNCHANGED osVars
       [] ev.e = "checkall" -> CheckAll(ev) /\ UNCHANGED osVars
       [] ev.e = "arena" -> ArenaNew(ev) /\ UNCHANGED osVars
       [] ev.e = "tstart" -> ThreadStart(ev) /\ UNCHANGED osVars
       [] ev.e = "tdone" -> ThreadDone(ev) /\ UNCHANGED osVars
       [] ev.e = "os" -> /\ Consume
                         /\ OsEvent(ev)
                         /\ IF ev.ok THEN UNCHANGED osfail ELSE OsRefused
                         /\ UNCHANGED <<live, heaps, dflt, backing, flux, arenas, cfg>>
       [] ev.e = "clock" -> Consume /\ OsClock(ev) /\ UNCHANGED <<live, heaps, dflt, backing, flux, arenas, osfail, cfg>>
       [] ev.e = "cfg" -> /\ Consume
                          /\ cfg' = ev
                          /\ OsCfg(ev)
                          /\ UNCHANGED <<live, heaps, dflt, backing, flux, arenas, osfail>>
       [] ev.e = "crash" -> /\ Consume
                            /\ GD("NoCrash", ev.sig, FALSE)
                            /\ UNCHANGED <<live, heaps, dflt, backing, flux, arenas, osfail, cfg, osVars>>
       [] ev.e = "mark" -> Consume /\ OsMark(ev) /\ UNCHANGED <<live, heaps, dflt, backing, flux, arenas, osfail, cfg>>
       [] ev.e = "reset" -> /\ Consume
                            /\ live' = <<>> /\ heaps' = (1 :> [t |-> 0, backing |-> TRUE, arena |-> 0, desc |-> 0])
                            /\ dflt' = (0 :> 1) /\ backing' = (0 :> 1) /\ flux' = (0 :> NoCall) /\ arenas' = <<>>
                            /\ osfail' = (0 :> FALSE) /\ UNCHANGED cfg
                            /\ OsReset
       [] ev.e = "end" -> Consume /\ UNCHANGED <<live, heaps, dflt, backing, flux, arenas, osfail, cfg, osVars>>
       [] OTHER -> FALSE

TraceSpec == TraceInit /\ [][TraceNext]_vars

\* acceptance: the whole trace was consumed
TraceAccepted ==
  /\ PrintT(<<"TVDIAMETER", TLCGet("stats").diameter - 1>>)
  /\ TLCGet("stats").diameter - 1 = Len(Tr)

\* cross-layer invariants evaluated in every state of the reconstructed behaviour
Inv == LiveWellFormed /\ HeapsOK /\ BlocksHaveHeaps
=============================================================================
