------------------------------ MODULE ApiTrace ------------------------------
(***************************************************************************
  Trace specification (Tier P): validates an ndjson trace recorded from the real allocator
  against MiApi (API-level contract) and MiOs (OS-level model).  One trace line = one action.
  Acceptance = every line consumed (POSTCONDITION) and no guard failed.
 ***************************************************************************)
EXTENDS MiSecure, MiOs, Json, IOUtils

Tr == ndJsonDeserialize(IOEnv.TRACE)

vars == <<apiVars, osVars>>

TraceInit == ApiInit /\ OsInit

Consume == step' = step + 1
ApiSame == UNCHANGED <<live, heaps, dflt, backing, flux, arenas, osfail, cfg, aux>>

\* does this return hand a (written) block to the program?
ReturnsBlock(ev) == /\ ev.t \in DOMAIN flux /\ flux[ev.t] # NoCall
                    /\ flux[ev.t].op \in (AllocOps \cup ReallocOps) /\ ~ev.null

TraceNext ==
  /\ step < Len(Tr)
  /\ LET ev == Tr[step + 1] IN
     CASE ev.e = "call" -> Call(ev) /\ OsSkip
       [] ev.e = "ret" -> Ret(ev) /\ (IF ReturnsBlock(ev) THEN OsBlockReturned(ev.a, ev.us, ev.wr) ELSE OsSkip)
       [] ev.e = "write" -> Write(ev) /\ (IF ev.id \in LiveIds THEN OsWrite(live[ev.id].a, ev.wr) ELSE OsSkip)
       [] ev.e = "checkall" -> CheckAll(ev) /\ OsSkip
       [] ev.e = "arena" -> ArenaNew(ev) /\ OsSkip
       [] ev.e = "tstart" -> ThreadStart(ev) /\ OsSkip
       [] ev.e = "tdone" -> ThreadDone(ev) /\ OsSkip
       [] ev.e = "os" -> /\ Consume
                         /\ OsEvent(ev, live, aux.groups)
                         /\ IF ~ev.ok THEN OsRefused ELSE IF ev.call = "mmap" THEN OsMapped(ev.t) ELSE UNCHANGED osfail
                         /\ UNCHANGED <<live, heaps, dflt, backing, flux, arenas, cfg, aux>>
       [] ev.e = "clock" -> Consume /\ OsClock(ev) /\ ApiSame
       [] ev.e = "areas" -> Consume /\ OsAreas(ev, live) /\ ApiSame
       [] ev.e = "mark" -> Consume /\ OsMark(ev, live) /\ ApiSame
       [] ev.e = "quiesce" -> Consume /\ OsQuiesce(ev, live) /\ ApiSame
       [] ev.e = "cfg" -> /\ Consume
                          /\ cfg' = ev
                          /\ OsCfg(ev)
                          /\ UNCHANGED <<live, heaps, dflt, backing, flux, arenas, osfail, aux>>
       [] ev.e = "crash" -> /\ Consume
                            /\ GD("NoCrash", ev.sig, FALSE)
                            /\ ApiSame /\ OsSkip
       [] ev.e = "reset" -> /\ Consume
                            /\ live' = <<>> /\ heaps' = (1 :> [t |-> 0, backing |-> TRUE, arena |-> 0, desc |-> 0])
                            /\ dflt' = (0 :> 1) /\ backing' = (0 :> 1) /\ flux' = (0 :> NoCall) /\ arenas' = <<>>
                            /\ osfail' = (0 :> <<FALSE, FALSE>>) /\ aux' = [m |-> <<0, 0>>, groups |-> <<>>] /\ UNCHANGED cfg
                            /\ OsReset
       [] ev.e = "round" -> Round(ev) /\ OsSkip
       [] ev.e = "refill" -> Refill(ev) /\ OsSkip
       [] ev.e = "misuse" -> Misuse(ev) /\ OsSkip
       [] ev.e = "snap" -> Snap(ev) /\ OsSkip
       [] ev.e = "batch" -> BatchAlloc(ev) /\ OsBatch(ev.blocks, ev.wr)
       [] ev.e = "batch_free" -> BatchFree(ev) /\ OsSkip
       [] ev.e = "end" -> Consume /\ ApiSame /\ OsSkip
       [] OTHER -> FALSE

TraceSpec == TraceInit /\ [][TraceNext]_vars

\* acceptance: the whole trace was consumed
TraceAccepted ==
  /\ PrintT(<<"TVDIAMETER", TLCGet("stats").diameter - 1>>)
  /\ TLCGet("stats").diameter - 1 = Len(Tr)

\* The behaviour reconstructed from a trace is a single path: the position identifies the state, so TLC fingerprints only the
\* position (VIEW) instead of the whole reconstructed state (which can hold thousands of blocks).
TraceView == <<step, ostep>>

\* invariants evaluated in every state of the reconstructed behaviour
Inv == LiveWellFormed /\ HeapsOK /\ BlocksHaveHeaps /\ MapsDisjoint
=============================================================================
