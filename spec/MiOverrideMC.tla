---------------------------- MODULE MiOverrideMC ----------------------------
(***************************************************************************
  Bounded instance of MiOverride: TLC enumerates the complete (allocating entry point x releasing /
  resizing / querying entry point) relation, over the request sizes `Sizes` and alignments `Aligns`,
  against an ABSTRACT allocator (any result that satisfies the contract: the guards of MiApi and
  MiOverride with Relaxed = FALSE are enabling conditions), checks the invariants in every reachable
  state, and EMITS one program per variant (PrintT of JSON at the `done` state).  The programs are
  executed by harness/ovr/ovr_c.c / ovr_cpp.cpp with nothing but the standard entry points, under
  LD_PRELOAD of libmimalloc.so and linked with the static override object; the recorded traces are
  validated against the same actions by OverrideTrace.tla.

  A program:  two witness blocks (live across the pair; their contents must survive)
              X := ae(n, al)                      -- the allocating entry point of the pair
              re(X, ...)                          -- the releasing / resizing / querying entry point
              free(X') if a block of the chain is still live;  release of the witnesses
  plus the malformed / overflowing requests whose return values the standards prescribe (re = "none").

  Abstract address space: cell k = [k * 16 MiB, (k+1) * 16 MiB); every request is < 16 MiB, a block sits
  at the start of a cell (so every alignment <= 16 MiB holds and blocks of distinct cells are disjoint).
 ***************************************************************************)
EXTENDS MiOverride, Json

CONSTANTS Cells, Sizes, Aligns, Page

VARIABLES nextId, prog, pc, plan, xid
mcVars == <<ovVars, nextId, prog, pc, plan, xid>>

RealpathLen == 40       \* stands for the length of the resolved path (the driver measures the real one)

\* ---- the variants of the matrix
AlignsOf(ae) == IF ae = "posix_memalign" THEN {a \in Aligns : a % PtrSize = 0} ELSE Aligns
AllocVariants ==
  {[ae |-> ae, n |-> n, al |-> al] : ae \in AllocE \ (AlignedAlloc \cup PageAlloc \cup {"realpath"}), n \in Sizes, al \in {0}}
  \cup {[ae |-> ae, n |-> n, al |-> Page] : ae \in PageAlloc, n \in Sizes}
  \cup {[ae |-> "realpath", n |-> RealpathLen, al |-> 0]}
  \cup UNION {{[ae |-> ae, n |-> n, al |-> al] : n \in Sizes, al \in AlignsOf(ae)} : ae \in AlignedAlloc}
RelVariants ==
  {[re |-> re, n2 |-> 0] : re \in ReleaseE \ {"realloc", "reallocarray"}}
  \cup {[re |-> re, n2 |-> n2] : re \in {"realloc", "reallocarray"}, n2 \in Sizes}
\* requests that must fail with the prescribed value (n = -1: beyond PTRDIFF_MAX resp. overflowing product)
ErrVariants ==
  {[ae |-> "posix_memalign", n |-> 64, al |-> al, re |-> "none", n2 |-> 0, lib |-> "any"] : al \in {0, 4, 24}}
  \cup {[ae |-> "posix_memalign", n |-> -1, al |-> 64, re |-> "none", n2 |-> 0, lib |-> "any"],
        [ae |-> "reallocarray_null", n |-> -1, al |-> 0, re |-> "none", n2 |-> 0, lib |-> "any"]}
  \cup {[ae |-> ae, n |-> -1, al |-> (IF ae \in AlignedAlloc THEN 64 ELSE IF ae \in PageAlloc THEN Page ELSE 0), re |-> "none", n2 |-> 0, lib |-> "any"] :
           ae \in {"malloc", "calloc", "realloc_null", "aligned_alloc", "memalign", "valloc", "pvalloc"}}
\* every form of operator new once with an unsatisfiable size, against a library compiled as C and one compiled as C++
FailNewVariants ==
  {[ae |-> ae, n |-> -1, al |-> (IF ae \in AlignedAlloc THEN 64 ELSE 0), re |-> "none", n2 |-> 0, lib |-> lib] :
      ae \in CppAlloc, lib \in {"c", "cxx"}}
Variants == {[ae |-> av.ae, n |-> av.n, al |-> av.al, re |-> rv.re, n2 |-> rv.n2, lib |-> "any"] : av \in AllocVariants, rv \in RelVariants}
              \cup ErrVariants \cup FailNewVariants

Cpp == plan.re # "none" /\ Flavour(plan.ae, plan.re) = "cpp"
W1Entry == "calloc"
W2Entry == IF Cpp THEN "new" ELSE "malloc"
WSize == 48

\* ---- records
CallRec(ep, id, n, al) ==
  [e |-> "call", t |-> 0, at |-> FALSE, op |-> ep, h |-> 0, id |-> id, n |-> n, al |-> al, off |-> 0,
   zero |-> (ep = "calloc"), cls |-> "?", arena |-> 0, stopat |-> 0, obs |-> <<>>, used |-> Cardinality(LiveIds)]
RetRec(ep, null, id, a, us, z, keep, rc, errno, inheap, used) ==
  [e |-> "ret", t |-> 0, op |-> ep, null |-> null, id |-> id, a |-> a, us |-> us, z |-> z, gen |-> 1, wr |-> 0,
   keep |-> keep, rc |-> rc, errno |-> errno, outkeep |-> TRUE, res |-> TRUE, h |-> 0, nvisited |-> 0, obs |-> <<>>,
   inheap |-> inheap, used |-> used, out |-> "", sig |-> 0]

CellAddr(k) == <<16 * k, 0>>
Addrs == {CellAddr(k) : k \in 1..Cells}
FreeCell(a) == \A b \in LiveIds : live[b].a # a
LowestFree == CHOOSE a \in Addrs : FreeCell(a) /\ \A a2 \in Addrs : FreeCell(a2) => LeA(a, a2)

MCInit == /\ OvInit0 /\ nextId = 1 /\ prog = <<>> /\ pc = "w1" /\ xid = 0
          /\ plan \in Variants
          /\ ocfg = [DefaultCfg EXCEPT !.libcxx = IF plan.lib = "cxx" THEN 1 ELSE 0]

Idle == flux[0] = NoCall
\* what the emitted program says: realpath's size is determined by the path; n < 0 is symbolic
LogN(ep, n) == IF ep = "realpath" THEN 0 ELSE n
Log(ep, id, n, al) == prog' = Append(prog, [op |-> ep, id |-> id, n |-> LogN(ep, n), al |-> al])

Issue(ep, id, n, al) == OvCall(CallRec(ep, id, n, al)) /\ Log(ep, id, n, al)

RelAlign(b) == IF live[b].al > 0 THEN live[b].al ELSE DefaultAlign(live[b].req)
\* arguments of the releasing entry point for block b
RelN(re, b, n2) == IF re \in SizedRel THEN live[b].req
                   ELSE IF re \in {"realloc", "reallocarray"} THEN n2
                   ELSE IF re = "reallocarray_ovf" THEN -1 ELSE 0
RelAl(re, b) == IF re \in AlignedRel THEN RelAlign(b) ELSE 0

\* ---- the program issues its next call
DoCall ==
  /\ Idle
  /\ CASE pc = "w1" -> Issue(W1Entry, 0, WSize, 0)
       [] pc = "w2" -> Issue(W2Entry, 0, WSize, 0)
       [] pc = "x" -> Issue(plan.ae, 0, plan.n, plan.al)
       [] pc = "rel" -> Issue(plan.re, xid, RelN(plan.re, xid, plan.n2), RelAl(plan.re, xid))
       [] pc = "fin" -> Issue("free", xid, 0, 0)
       [] pc = "f2" -> Issue(IF Cpp THEN "delete" ELSE "free", 2, 0, 0)
       [] pc = "f1" -> Issue("free", 1, 0, 0)
       [] OTHER -> FALSE
  /\ UNCHANGED <<nextId, pc, plan, xid>>

\* ---- the abstract allocator answers (every answer the contract admits)
AfterX == IF plan.re = "none" THEN "f2" ELSE "rel"
DoRet ==
  /\ ~Idle
  /\ LET c == flux[0]
         card == Cardinality(LiveIds) + (IF c.op \in ReallocOps /\ c.id > 0 THEN 1 ELSE 0)   \* the block in flux counts
     IN
     \/ \* witnesses: deterministic placement (they only have to be there)
        /\ pc \in {"w1", "w2"}
        /\ OvRet(RetRec(c.ep, FALSE, nextId, LowestFree, c.n, c.n, 0, 0, 0, 1, card + 1))
        /\ nextId' = nextId + 1 /\ pc' = (IF pc = "w1" THEN "w2" ELSE "x") /\ UNCHANGED xid
     \/ \* the allocating entry point: any free cell, exact or larger usable size, served or not (the guard decides)
        /\ pc = "x" /\ c.cls = "ok"
        /\ \E a \in Addrs, us \in {NeedUsable(c), NeedUsable(c) + 8}, inheap \in {0, 1}, d \in {0, 1} :
              OvRet(RetRec(c.ep, FALSE, nextId, a, us, us, c.n, 0, 0, inheap, card + d))
        /\ xid' = nextId /\ nextId' = nextId + 1 /\ pc' = AfterX
     \/ \* a malformed request: NULL with any of the codes (the guards keep the prescribed one)
        /\ pc = "x" /\ c.cls # "ok" /\ ~FailingNew(c)
        /\ \E code \in {0, 12, 22} : OvRet(RetRec(c.ep, TRUE, nextId, <<0, 0>>, 0, 0, 0, code, code, 0, card))
        /\ xid' = 0 /\ nextId' = nextId + 1 /\ pc' = "f2"
     \/ \* operator new that cannot be satisfied: every way the call can end (the guards keep the prescribed ones)
        /\ pc = "x" /\ FailingNew(c)
        /\ \E o \in {"null", "nonnull", "threw", "threw_other", "abort", "exit"} :
              OvRet([RetRec(c.ep, TRUE, nextId, <<0, 0>>, 0, 0, 0, 0, 0, 0, card) EXCEPT !.out = o])
        /\ xid' = 0 /\ nextId' = nextId + 1 /\ pc' = "f2"
     \/ \* release
        /\ pc \in {"rel", "fin", "f2", "f1"} /\ c.op \in FreeOps
        /\ \E d \in {-1, 0} : OvRet(RetRec(c.ep, FALSE, 0, <<0, 0>>, 0, 0, 0, 0, 0, 0, card + d))
        /\ pc' = (CASE pc \in {"rel", "fin"} -> "f2" [] pc = "f2" -> "f1" [] OTHER -> "emit")
        /\ UNCHANGED <<nextId, xid>>
     \/ \* resize: in place or moved to any cell
        /\ pc = "rel" /\ c.op \in ReallocOps /\ c.cls = "ok"
        /\ \E a \in Addrs, us \in {c.n, c.n + 8}, inheap \in {0, 1} :
              OvRet(RetRec(c.ep, FALSE, nextId, a, us, 0, Min(Min(c.old.wr, c.old.req), c.n), 0, 0, inheap, card))
        /\ xid' = nextId /\ nextId' = nextId + 1 /\ pc' = "fin"
     \/ \* overflowing resize: NULL, the block stays
        /\ pc = "rel" /\ c.op \in ReallocOps /\ c.cls # "ok"
        /\ \E code \in {0, 12} : OvRet(RetRec(c.ep, TRUE, nextId, <<0, 0>>, 0, 0, c.old.wr, 0, code, 0, card))
        /\ nextId' = nextId + 1 /\ pc' = "fin" /\ UNCHANGED xid
     \/ \* query
        /\ pc = "rel" /\ c.op = "usable_size"
        /\ \E us \in {live[c.id].us, live[c.id].us + 8} :
              OvRet(RetRec(c.ep, FALSE, 0, <<0, 0>>, us, 0, 0, 0, 0, 0, card))
        /\ pc' = "fin" /\ UNCHANGED <<nextId, xid>>
  /\ UNCHANGED <<prog, plan>>

\* the program is complete: emitted exactly once per behaviour
Finish == /\ Idle /\ pc = "emit" /\ pc' = "done"
          /\ UNCHANGED <<ovVars, nextId, prog, plan, xid>>

\* (explicit stuttering at the end, so that TLC's deadlock check reports exactly the states in which the contract
\*  admits NO answer or the program cannot continue: every variant of the matrix must run to completion)
Done == pc = "done" /\ UNCHANGED mcVars

MCNext == DoCall \/ DoRet \/ Finish \/ Done
MCSpec == MCInit /\ [][MCNext]_mcVars

MCInv == LiveDisjoint /\ LiveWellFormed /\ HeapsOK /\ BlocksHaveHeaps /\ OriginTracksLive /\ AllLiveServed
\* a finished program has released everything it obtained
DoneClean == pc \in {"emit", "done"} => LiveIds = {}

GenEmit == pc = "done" =>
  PrintT(<<"PROGRAM", ToJson([ae |-> plan.ae, re |-> plan.re, n |-> LogN(plan.ae, plan.n), al |-> plan.al, n2 |-> plan.n2,
                               lib |-> plan.lib,
                               flavour |-> (IF plan.re = "none" THEN (IF plan.ae \in CppAlloc THEN "cpp" ELSE "c") ELSE Flavour(plan.ae, plan.re)),
                               std |-> (plan.re = "none" \/ StdDefined(plan.ae, plan.re)), calls |-> prog])>>)
=============================================================================
