------------------------------- MODULE MiHeap -------------------------------
(***************************************************************************
  The page queues of one heap (src/page-queue.c, src/page.c, src/free.c) for one size class: NP pages of CAP blocks each move
  between the queue of their size class and the FULL queue while the owner allocates and frees and other threads free blocks
  that were handed to them.  Per page:
      q      "none" (not allocated) | "bin" (in the queue of its size class) | "full" (in the FULL queue)
      used   blocks in use as far as the page knows (includes blocks on its thread-free list and on the heap's delayed list)
      nfree  blocks on the free / local-free list;   ntf  blocks on the page's thread-free list (freed by other threads)
      flag   "USE" (the next remote free goes to the heap's delayed list) | "NO" (remote frees go to the thread-free list)
      lh / rh  blocks held by the owner / by other threads (the program's view);   dl  blocks of the page on the heap's delayed list
  A page goes to the FULL queue when the owner finds no free block in it (after collecting its thread-free list); its flag is then
  armed (USE).  The first remote free into a full page goes through the heap's delayed list; when the owner drains that list
  (_mi_free_delayed_block) the block is freed locally and the page is taken out of the FULL queue again.  A heap walk or collect
  moves the thread-free list of any page to its free list without touching the queues.

  TLC checks (MiHeap_mc.cfg) that every reachable heap satisfies HeapValid (MiHeapValid -- the operator HeapTrace evaluates on dumps
  of the running allocator; in particular FullPagesAreFull) and the accounting used = lh + rh + ntf + dl, used + nfree = CAP.
  Variant "no_unfull" is the seeded change C08_8 (the drained block does not take its page out of the FULL queue): FullPagesAreFull
  fails.  Variant "always" drops the dlempty condition from the obligation -- the first formulation, which TLC refutes on the code as
  it is (a walk moves later remote frees to the free list while the first is still on the delayed list), as the allocator did.
 ***************************************************************************)
EXTENDS Integers, Sequences, FiniteSets, TLC
CONSTANTS NP, CAP, Variant
VARIABLES q, used, nfree, ntf, flag, lh, rh, dl
vars == <<q, used, nfree, ntf, flag, lh, rh, dl>>
Page == 1..NP
INSTANCE MiHeapValid

Init == /\ q = [p \in Page |-> "none"] /\ used = [p \in Page |-> 0] /\ nfree = [p \in Page |-> 0] /\ ntf = [p \in Page |-> 0]
        /\ flag = [p \in Page |-> "NO"] /\ lh = [p \in Page |-> 0] /\ rh = [p \in Page |-> 0] /\ dl = [p \in Page |-> 0]

\* a fresh page for the size class (all blocks free)
Fresh(p) == /\ q[p] = "none" /\ \A x \in Page : q[x] = "bin" => nfree[x] = 0         \* (only when no page of the class has room)
            /\ q' = [q EXCEPT ![p] = "bin"] /\ nfree' = [nfree EXCEPT ![p] = CAP] /\ UNCHANGED <<used, ntf, flag, lh, rh, dl>>
\* the owner allocates from a page of the size-class queue that has a free block
Alloc(p) == /\ q[p] = "bin" /\ nfree[p] > 0
            /\ nfree' = [nfree EXCEPT ![p] = @ - 1] /\ used' = [used EXCEPT ![p] = @ + 1] /\ lh' = [lh EXCEPT ![p] = @ + 1]
            /\ UNCHANGED <<q, ntf, flag, rh, dl>>
\* looking for a free block the owner collects the page's thread-free list; a page without free blocks goes to the FULL queue (flag armed)
Collect(p) == /\ q[p] # "none" /\ ntf[p] > 0
              /\ nfree' = [nfree EXCEPT ![p] = @ + ntf[p]] /\ used' = [used EXCEPT ![p] = @ - ntf[p]] /\ ntf' = [ntf EXCEPT ![p] = 0]
              /\ UNCHANGED <<q, flag, lh, rh, dl>>
ToFull(p) == /\ q[p] = "bin" /\ nfree[p] = 0 /\ ntf[p] = 0 /\ used[p] = CAP
             /\ q' = [q EXCEPT ![p] = "full"] /\ flag' = [flag EXCEPT ![p] = "USE"] /\ UNCHANGED <<used, nfree, ntf, lh, rh, dl>>
\* a block is handed to another thread
Give(p) == /\ lh[p] > 0 /\ lh' = [lh EXCEPT ![p] = @ - 1] /\ rh' = [rh EXCEPT ![p] = @ + 1] /\ UNCHANGED <<q, used, nfree, ntf, flag, dl>>
\* the owner frees a block: a full page leaves the FULL queue; a page without blocks in use is released
LocalFree(p) == /\ lh[p] > 0
                /\ lh' = [lh EXCEPT ![p] = @ - 1] /\ used' = [used EXCEPT ![p] = @ - 1] /\ nfree' = [nfree EXCEPT ![p] = @ + 1]
                /\ q' = [q EXCEPT ![p] = IF @ = "full" THEN "bin" ELSE @] /\ flag' = [flag EXCEPT ![p] = IF q[p] = "full" THEN "NO" ELSE @]
                /\ UNCHANGED <<ntf, rh, dl>>
Retire(p) == /\ q[p] = "bin" /\ used[p] = 0 /\ ntf[p] = 0 /\ dl[p] = 0
             /\ q' = [q EXCEPT ![p] = "none"] /\ nfree' = [nfree EXCEPT ![p] = 0] /\ UNCHANGED <<used, ntf, flag, lh, rh, dl>>
\* another thread frees a block: through the heap's delayed list if the flag is armed (it is disarmed by that), else onto the thread-free list
RemoteFree(p) == /\ rh[p] > 0 /\ rh' = [rh EXCEPT ![p] = @ - 1]
                 /\ IF flag[p] = "USE" THEN dl' = [dl EXCEPT ![p] = @ + 1] /\ flag' = [flag EXCEPT ![p] = "NO"] /\ UNCHANGED ntf
                    ELSE ntf' = [ntf EXCEPT ![p] = @ + 1] /\ UNCHANGED <<dl, flag>>
                 /\ UNCHANGED <<q, used, nfree, lh>>
\* the owner drains the delayed list (_mi_free_delayed_block): the page's thread-free list is collected, the block is freed locally,
\* the page leaves the FULL queue
Drain(p) == /\ dl[p] > 0
            /\ dl' = [dl EXCEPT ![p] = @ - 1]
            /\ nfree' = [nfree EXCEPT ![p] = @ + ntf[p] + 1] /\ used' = [used EXCEPT ![p] = @ - ntf[p] - 1] /\ ntf' = [ntf EXCEPT ![p] = 0]
            /\ q' = [q EXCEPT ![p] = IF @ = "full" /\ Variant # "no_unfull" THEN "bin" ELSE @]
            /\ flag' = [flag EXCEPT ![p] = IF q[p] = "full" /\ Variant = "no_unfull" THEN "USE" ELSE "NO"]
            /\ UNCHANGED <<lh, rh>>
Next == \E p \in Page : Fresh(p) \/ Alloc(p) \/ Collect(p) \/ ToFull(p) \/ Give(p) \/ LocalFree(p) \/ Retire(p) \/ RemoteFree(p) \/ Drain(p)
Spec == Init /\ [][Next]_vars

Accounting == \A p \in Page : /\ used[p] = lh[p] + rh[p] + ntf[p] + dl[p]
                              /\ (q[p] # "none" => used[p] + nfree[p] = CAP)
                              /\ (flag[p] = "USE" => q[p] = "full")

\* the heap as a dump record of MiHeapValid: queue 1 = the size class, queue 2 = the (unused) huge queue, queue 3 = the FULL queue
SeqOfSet(S) == LET RECURSIVE F(_) F(T) == IF T = {} THEN << >> ELSE LET x == CHOOSE y \in T : \A z \in T : y <= z IN <<x>> \o F(T \ {x}) IN F(S)
PageRec(p, prev) == [pg |-> p, prev |-> prev, heap |-> 1, bsize |-> 64, binof |-> 1, full |-> (q[p] = "full"), aligned |-> FALSE,
                     used |-> used[p], cap |-> CAP, res |-> CAP, nfree |-> nfree[p], ntf |-> ntf[p], live |-> lh[p] + rh[p] + dl[p], interior |-> 0]
QueueRec(S, bs) == LET s == SeqOfSet(S) IN
  [bsize |-> bs, first |-> (IF s = << >> THEN 0 ELSE s[1]), last |-> (IF s = << >> THEN 0 ELSE s[Len(s)]),
   pages |-> [i \in 1..Len(s) |-> PageRec(s[i], IF i = 1 THEN 0 ELSE s[i - 1])], complete |-> TRUE]
Dump == [id |-> 1, npages |-> Cardinality({p \in Page : q[p] # "none"}), full |-> 3, huge |-> 2, quiet |-> FALSE,
         dlempty |-> (IF Variant = "always" THEN TRUE ELSE \A p \in Page : dl[p] = 0),
         queues |-> <<QueueRec({p \in Page : q[p] = "bin"}, 64), QueueRec({}, 100000), QueueRec({p \in Page : q[p] = "full"}, 100001)>>,
         direct |-> << >>]
ModelValid == HeapValid(Dump)
ModelFailName == HeapFail(Dump)
=============================================================================
