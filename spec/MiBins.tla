------------------------------- MODULE MiBins -------------------------------
(***************************************************************************
  Size-class and address arithmetic of mimalloc (property C16), transcribed from the C code
  for the configuration of this repository on x86-64 (MI_INTPTR_SIZE = 8, MI_MAX_ALIGN_SIZE = 16,
  hence MI_ALIGN2W; 64 KiB slices, 32 MiB segments).  Everything here is constant level: the
  module defines total functions, TLC evaluates the theorems over their whole finite domain
  (MiBinsMC) and compares every row of the tables dumped from the compiled code (BinsTrace).

  transcribed from                                   operator
    src/page-queue.c  mi_bin / _mi_bin               Bin(n)
    src/init.c        MI_PAGE_QUEUES_EMPTY (QNULL)   BinWords, BinSize(b)
    src/page-queue.c  mi_good_size                   GoodSizeP(n, pad), GoodSize(n)
    src/os.c          _mi_os_good_alloc_size         OsGoodAllocSize(n)
    src/page.c        mi_find_page / large path      ChosenBlockSize(n, pad)
    src/segment.c     mi_slice_bin8 / mi_slice_bin   SliceBin(c)
    src/segment.c     _mi_segment_page_start_from_slice   StartOffset(bs, pm, psize)
    src/page.c        mi_page_init (block_size_shift)     BlockShift(bs)
    src/free.c        _mi_page_ptr_unalign           Unalign(ps, bs, shift, p)
    internal.h        _mi_ptr_segment, _mi_segment_page_of, mi_slice_first   SegBaseOf, PageSliceOf
    src/heap.c        mi_get_fast_divisor / mi_fast_divide     FastDivShift, FastDivMagic, FastDiv
    internal.h        _mi_align_up/_mi_align_down/_mi_divide_up, mi_mul_overflow,
                      mi_count_size_overflow          AlignUp, AlignDown, DivideUp, *BN variants

  TLC integers are 32 bit (and TLC raises an error on overflow).  Quantities that need more bits
  (64-bit sizes, the 64-bit product of the fast divide) use the little multi-precision layer "BN"
  below: a natural number is a little-endian sequence of limbs in base 2^10.
 ***************************************************************************)
EXTENDS Integers, Sequences, FiniteSets, TLC

\* ---------------------------------------------------------------- configuration (types.h, x86-64)
WSize == 8                         \* MI_INTPTR_SIZE = sizeof(void*) = sizeof(uintptr_t)
MaxAlignSize == 16                 \* MI_MAX_ALIGN_SIZE
\* page-queue.c l.24-32: minimal alignment in machine words
AlignW == IF MaxAlignSize > 2 * WSize THEN 4 ELSE IF MaxAlignSize > WSize THEN 2 ELSE 1
SliceShift == 16                   \* MI_SEGMENT_SLICE_SHIFT = 13 + 3
SliceSize == 65536                 \* MI_SEGMENT_SLICE_SIZE
SlicesPerSegment == 512            \* MI_SLICES_PER_SEGMENT
SegmentSize == 33554432            \* MI_SEGMENT_SIZE = 32 MiB
SmallPageSize == SliceSize         \* MI_SMALL_PAGE_SIZE
MediumPageSize == 8 * SliceSize    \* MI_MEDIUM_PAGE_SIZE = 512 KiB
SmallObjMax == SmallPageSize \div 8      \* MI_SMALL_OBJ_SIZE_MAX = 8 KiB
MediumObjMax == MediumPageSize \div 8    \* MI_MEDIUM_OBJ_SIZE_MAX = 64 KiB
MediumObjWMax == MediumObjMax \div WSize \* MI_MEDIUM_OBJ_WSIZE_MAX = 8192
LargeObjMax == SegmentSize \div 2        \* MI_LARGE_OBJ_SIZE_MAX = 16 MiB
MaxAlignGuarantee == MediumObjMax        \* MI_MAX_ALIGN_GUARANTEE
BlockAlignmentMax == SegmentSize \div 2  \* MI_BLOCK_ALIGNMENT_MAX
MaxSliceOffsetCount == (BlockAlignmentMax \div SliceSize) - 1   \* MI_MAX_SLICE_OFFSET_COUNT = 255
BinHuge == 73                      \* MI_BIN_HUGE
BinFull == 74                      \* MI_BIN_FULL
SegmentBinMax == 35                \* MI_SEGMENT_BIN_MAX
OsPage == 4096                     \* _mi_os_page_size() on this platform
KiB == 1024
MiB == 1048576

\* ---------------------------------------------------------------- small helpers
IsPow2(x) == x > 0 /\ \E k \in 0..30 : x = 2^k            \* _mi_is_power_of_two for x > 0
\* index of the highest set bit: MI_SIZE_BITS - 1 - mi_clz(x) = mi_bsr(x), for 0 < x < 2^30
HighBit(x) == CHOOSE b \in 0..29 : 2^b <= x /\ x < 2^(b + 1)
Log2(x) == CHOOSE k \in 0..30 : x = 2^k                   \* mi_ctz of a power of two
Min(a, b) == IF a < b THEN a ELSE b
Max(a, b) == IF a > b THEN a ELSE b

\* internal.h: _mi_align_up / _mi_align_down / _mi_divide_up (values < 2^31, no wrap-around)
AlignUp(sz, al) ==
  LET mask == al - 1 IN
  IF IsPow2(al) THEN (sz + mask) - ((sz + mask) % al)          \* (sz + mask) & ~mask
  ELSE ((sz + mask) \div al) * al
AlignDown(sz, al) ==
  IF IsPow2(al) THEN sz - (sz % al)                              \* sz & ~mask
  ELSE (sz \div al) * al
DivideUp(sz, d) == IF d = 0 THEN sz ELSE (sz + d - 1) \div d

\* internal.h: _mi_wsize_from_size
WSizeOf(n) == (n + WSize - 1) \div WSize

\* ---------------------------------------------------------------- size classes
\* src/init.c MI_PAGE_QUEUES_EMPTY: block size in words of bin 0..74 (index b+1)
BinWords == <<
  1,
  1, 2, 3, 4, 5, 6, 7, 8,
  10, 12, 14, 16, 20, 24, 28, 32,
  40, 48, 56, 64, 80, 96, 112, 128,
  160, 192, 224, 256, 320, 384, 448, 512,
  640, 768, 896, 1024, 1280, 1536, 1792, 2048,
  2560, 3072, 3584, 4096, 5120, 6144, 7168, 8192,
  10240, 12288, 14336, 16384, 20480, 24576, 28672, 32768,
  40960, 49152, 57344, 65536, 81920, 98304, 114688, 131072,
  163840, 196608, 229376, 262144, 327680, 393216, 458752, 524288,
  MediumObjWMax + 1,       \* huge queue
  MediumObjWMax + 2 >>     \* full queue
Bins == 0..BinFull
BinSize(b) == BinWords[b + 1] * WSize         \* _mi_bin_size(b) = _mi_heap_empty.pages[b].block_size

\* src/page-queue.c mi_bin (all three MI_ALIGNxW variants; AlignW selects as the preprocessor does)
Bin(n) ==
  LET w == WSizeOf(n) IN
  IF AlignW = 4 /\ w <= 4 THEN (IF w <= 1 THEN 1 ELSE ((w + 1) \div 2) * 2)
  ELSE IF AlignW = 2 /\ w <= 8 THEN (IF w <= 1 THEN 1 ELSE ((w + 1) \div 2) * 2)   \* (wsize+1)&~1
  ELSE IF AlignW = 1 /\ w <= 8 THEN (IF w = 0 THEN 1 ELSE w)
  ELSE IF w > MediumObjWMax THEN BinHuge
  ELSE LET w1 == IF AlignW = 4 /\ w <= 16 THEN ((w + 3) \div 4) * 4 ELSE w
           w2 == w1 - 1
           b  == HighBit(w2)
       IN  ((b * 4) + ((w2 \div (2^(b - 2))) % 4)) - 3

\* src/os.c _mi_os_good_alloc_size (sizes < 2^30 here)
OsGoodAllocSize(size) ==
  LET al == IF size < 512 * KiB THEN OsPage
            ELSE IF size < 2 * MiB THEN 64 * KiB
            ELSE IF size < 8 * MiB THEN 256 * KiB
            ELSE IF size < 32 * MiB THEN MiB
            ELSE 4 * MiB
  IN AlignUp(size, al)

\* src/page-queue.c mi_good_size; pad = MI_PADDING_SIZE of the build (0 in release, 8 in debug/secure builds)
GoodSizeP(n, pad) ==
  IF n <= MediumObjMax THEN BinSize(Bin(n + pad)) ELSE AlignUp(n + pad, OsPage)
GoodSize(n) == GoodSizeP(n, 0)

\* block size of the page that serves mi_malloc(n): alloc.c adds the padding, page.c mi_find_page picks the
\* size-class queue (size <= MI_MEDIUM_OBJ_SIZE_MAX) or a large page of _mi_os_good_alloc_size(size) bytes.
\* (huge pages, > MI_LARGE_OBJ_SIZE_MAX, get at least this size)
ChosenBlockSize(n, pad) ==
  LET s == n + pad IN IF s <= MediumObjMax THEN BinSize(Bin(s)) ELSE OsGoodAllocSize(s)

\* ---------------------------------------------------------------- span (slice) bins, src/segment.c
SliceBin(c) ==
  IF c <= 1 THEN c
  ELSE LET c1 == c - 1
           s  == HighBit(c1)
       IN  IF s <= 2 THEN c1 + 1
           ELSE ((s * 4) + ((c1 \div (2^(s - 2))) % 4)) - 4     \* ((s << 2) | ((c >> (s-2)) & 3)) - 4

\* ---------------------------------------------------------------- page start, src/segment.c
\* _mi_segment_page_start_from_slice: offset of the first block from the start of the page's first slice.
\*   bs    block size (0 for an uninitialised page)
\*   pm    (address of the slice start) % bs   (only read when 0 < bs <= MI_MAX_ALIGN_GUARANTEE)
\*   psize slice_count * MI_SEGMENT_SLICE_SIZE
StartOffset(bs, pm, psize) ==
  LET adj == bs - pm
      o1  == IF bs > 0 /\ bs <= MaxAlignGuarantee /\ adj < bs /\ psize >= bs + adj THEN adj ELSE 0
      o2  == IF bs >= WSize THEN (IF bs <= 64 THEN 3 * bs ELSE IF bs <= 512 THEN bs ELSE 0) ELSE 0
  IN  AlignUp(o1 + o2, MaxAlignSize)

\* src/page.c mi_page_init: block_size_shift
BlockShift(bs) == IF bs > 0 /\ IsPow2(bs) THEN Log2(bs) ELSE 0

\* src/free.c _mi_page_ptr_unalign; ps = page_start, p = pointer, both relative to the same base
Unalign(ps, bs, shift, p) ==
  LET diff   == p - ps
      adjust == IF shift # 0 THEN diff % (2^shift)     \* diff & ((1 << shift) - 1)
                ELSE diff % bs
  IN  p - adjust

\* what the property demands: the start of the block that contains p
TrueBlockStart(ps, bs, p) == ps + ((p - ps) \div bs) * bs

\* internal.h _mi_ptr_segment on segment-relative offsets: ((p - 1) & ~MI_SEGMENT_MASK), off >= 1
SegBaseOf(off) == ((off - 1) \div SegmentSize) * SegmentSize
\* internal.h _mi_segment_page_of + mi_slice_first for a page occupying slices s .. s+cnt-1 (segment.c
\* mi_segment_span_allocate sets slice_offset for the first MI_MAX_SLICE_OFFSET_COUNT followers and the last slice;
\* any other slice entry keeps a stale offset, modelled as "recovers itself")
PageSliceOf(s, cnt, off) ==
  LET idx == off \div SliceSize IN
  IF idx - s <= MaxSliceOffsetCount \/ idx = s + cnt - 1 THEN s ELSE idx

\* ---------------------------------------------------------------- BN: naturals as little-endian limbs, base 2^10
BB == 1024
RECURSIVE BNCarry(_, _, _)
BNCarry(s, i, c) ==
  IF i > Len(s) THEN (IF c = 0 THEN <<>> ELSE <<c % BB>> \o BNCarry(s, i, c \div BB))
  ELSE LET v == s[i] + c IN <<v % BB>> \o BNCarry(s, i + 1, v \div BB)
BNNorm(s) == BNCarry(s, 1, 0)
Limb(a, i) == IF i >= 1 /\ i <= Len(a) THEN a[i] ELSE 0
BNFromInt(x) == <<x % BB, (x \div BB) % BB, (x \div (BB * BB)) % BB, x \div (BB * BB * BB)>>   \* 0 <= x < 2^31
\* from the harness encoding: big-endian limbs of base 2^20 (VF [hi..lo] words)
RECURSIVE BNFromL20(_)
BNFromL20(l) == IF Len(l) = 0 THEN <<>> ELSE <<l[Len(l)] % BB, l[Len(l)] \div BB>> \o BNFromL20(SubSeq(l, 1, Len(l) - 1))
BNAdd(a, b) == BNNorm([i \in 1..Max(Len(a), Len(b)) |-> Limb(a, i) + Limb(b, i)])
RECURSIVE SumProd(_, _, _, _)
SumProd(a, b, k, i) == IF i > k THEN 0 ELSE Limb(a, i) * Limb(b, k - i + 1) + SumProd(a, b, k, i + 1)
BNMul(a, b) == BNNorm([k \in 1..(Len(a) + Len(b)) |-> SumProd(a, b, k, 1)])     \* Len(a), Len(b) <= 16
BNMulSmall(a, m) == BNNorm([i \in 1..Len(a) |-> a[i] * m])                        \* m < 2^20
RECURSIVE BNTopNZ(_, _)
BNTopNZ(a, i) == IF i = 0 THEN 0 ELSE IF a[i] # 0 THEN i ELSE BNTopNZ(a, i - 1)
BNTrim(a) == SubSeq(a, 1, BNTopNZ(a, Len(a)))
RECURSIVE BNLtFrom(_, _, _)
BNLtFrom(a, b, i) == IF i = 0 THEN FALSE ELSE IF Limb(a, i) # Limb(b, i) THEN Limb(a, i) < Limb(b, i) ELSE BNLtFrom(a, b, i - 1)
BNLt(a, b) == BNLtFrom(a, b, Max(Len(a), Len(b)))
BNLe(a, b) == ~BNLt(b, a)
BNEq(a, b) == BNTrim(a) = BNTrim(b)
\* a - b for a >= b
RECURSIVE BNBorrow(_, _, _, _)
BNBorrow(a, b, i, br) ==
  IF i > Len(a) THEN <<>>
  ELSE LET v == a[i] - Limb(b, i) - br IN
       IF v < 0 THEN <<v + BB>> \o BNBorrow(a, b, i + 1, 1) ELSE <<v>> \o BNBorrow(a, b, i + 1, 0)
BNSub(a, b) == BNBorrow(a, b, 1, 0)
BNShr(a, bits) ==
  LET q == bits \div 10
      r == bits % 10
      n == Max(Len(a) - q, 0)
  IN  [i \in 1..n |-> (Limb(a, i + q) \div (2^r)) + (Limb(a, i + q + 1) % (2^r)) * (2^(10 - r))]
RECURSIVE BNVal(_, _)
BNVal(a, i) == IF i > Len(a) THEN 0 ELSE a[i] + BB * BNVal(a, i + 1)
BNFits(a) == LET t == BNTrim(a) IN Len(t) <= 3 \/ (Len(t) = 4 /\ t[4] < 2)        \* value < 2^31
BNToInt(a) == BNVal(BNTrim(a), 1)                                                   \* requires BNFits(a)
\* a mod m for m < 2^21 (Horner from the top limb)
RECURSIVE BNModFrom(_, _, _, _)
BNModFrom(a, m, i, rem) == IF i = 0 THEN rem ELSE BNModFrom(a, m, i - 1, (rem * BB + a[i]) % m)
BNModSmall(a, m) == BNModFrom(a, m, Len(a), 0)
\* low e bits are zero (a multiple of 2^e)
BNLowBitsZero(a, e) ==
  /\ \A i \in 1..Min(e \div 10, Len(a)) : a[i] = 0
  /\ Limb(a, (e \div 10) + 1) % (2^(e % 10)) = 0
BNMultipleOf(a, m) == IF m < 2097152 THEN BNModSmall(a, m) = 0 ELSE IsPow2(m) /\ BNLowBitsZero(a, Log2(m))
BNMultipleSupported(m) == m > 0 /\ (m < 2097152 \/ IsPow2(m))
BN2p64 == <<0, 0, 0, 0, 0, 0, 16>>              \* 2^64 = 16 * 2^60

\* mi_mul_overflow(count, size): overflow iff the exact product does not fit 64 bits
MulOverflowsBN(a, b) == BNLe(BN2p64, BNMul(a, b))

\* ---------------------------------------------------------------- fast divide, src/heap.c
\* mi_get_fast_divisor: shift = MI_SIZE_BITS - mi_clz(divisor - 1)  (bit length of d - 1; mi_clz(0) = 64)
FastDivShift(d) == IF d <= 1 THEN 0 ELSE HighBit(d - 1) + 1
\*   magic = ((2^32 * (2^shift - d)) / d) + 1 ; the quotient is produced as 8 hex digits by long division
RECURSIVE HexQ(_, _, _, _)
HexQ(x, d, k, acc) ==                           \* requires x < d < 2^27
  IF k = 0 THEN acc ELSE HexQ((x * 16) % d, d, k - 1, BNAdd(BNMulSmall(acc, 16), <<(x * 16) \div d>>))
FastDivMagic(d) == BNAdd(HexQ((2^FastDivShift(d)) - d, d, 8, <<0>>), <<1>>)
\* mi_fast_divide: hi = (n * magic) >> 32 ; return (hi + n) >> shift        (n < 2^31 here)
FastDivWith(n, magic, shift) ==
  LET hi == BNShr(BNMul(BNFromInt(n), magic), 32) IN BNToInt(BNShr(BNAdd(hi, BNFromInt(n)), shift))
FastDiv(n, d) == FastDivWith(n, FastDivMagic(d), FastDivShift(d))
FastDivSupported(d) == d >= 1 /\ d < 134217728

\* page geometry used by the heap walk: blocks reserved in a page of `psize` bytes after StartOffset
Reserved(bs, pm, psize) == (psize - StartOffset(bs, pm, psize)) \div bs

=============================================================================
