----------------------------- MODULE MiOverride -----------------------------
(***************************************************************************
  C19 -- drop-in override: every standard entry point is served by ONE allocator.

  The (allocating entry point x releasing / resizing / querying entry point) matrix as a finite
  relation, on top of the API contract MiApi (live set, NoOverlap, ContentsKept, realloc prefix,
  posix_memalign codes ...).  An event names the ENTRY POINT the program called (`malloc`,
  `new_arr_nothrow`, `delete_sz_al`, ...); `Fam` maps it to the mimalloc function family the
  override is expected to behave as, and MiApi's Call/Ret actions are re-used with that family.

  C19-specific guards (all printed as GUARDFAIL under Relaxed = TRUE):
    OverrideActive     the process sees mimalloc at all (mi_is_in_heap_region is resolvable)
    ServedByMimalloc   every non-NULL result of every entry point lies in mimalloc's heap region
    UsableAtLeast      its usable size covers the request (pvalloc: the request rounded up to whole pages)
    CrossRelease       a release/resize/query entry point is applied to a live block produced by ANY
                       allocating entry point (the relation is the full product, that is C19's claim);
                       its consequences are MiApi's guards on the same events: ContentsKept.* on every
                       other live block, ReallocKeepsPrefix, UsableStable, NoOverlap of later results
    LiveCountDelta     the allocator's own count of live blocks moves by exactly the effect of the call
                       (+1 allocate, -1 release, 0 resize/query): a forward to a function that does not
                       release, or releases twice, is visible
    StringCopied       strdup/strndup/realpath results carry the string
  Measurement caveat (documented upstream behaviour, not a defect): mi_is_in_heap_region covers arena memory always, but
  OS-allocated segments only below 48 TiB.  The drivers use default options (blocks come from arenas) and keep requests
  below 16 MiB, so `inheap` is meaningful; memory of another allocator (glibc: brk heap / mmap above 48 TiB) reads 0.
  realpath is not overridden by upstream on Linux: glibc's realpath allocates through the overridden malloc; only the
  provenance of its result is demanded.
    posix_memalign return codes / untouched out parameter / reallocarray errno: MiApi (ErrCode, OutParamUnchanged)
 ***************************************************************************)
EXTENDS MiApi

CONSTANT HasCfree       \* the platform libc still provides cfree (glibc < 2.26); otherwise it is no entry point of the platform

VARIABLES origin,       \* [live block id -> entry point that produced it]
          foreign,      \* ids of live blocks whose result was NOT served by mimalloc (the driver abandons them)
          ocfg          \* the run: [mode, lang, have_mi, page]

ovVars == <<apiVars, origin, foreign, ocfg>>

PtrSize == 8

\* ---------------------------------------------------------------- the entry points of the platform
CAlloc   == {"malloc", "calloc", "realloc_null", "posix_memalign", "aligned_alloc", "memalign", "valloc", "pvalloc",
             "reallocarray_null", "strdup", "strndup", "realpath"}
CppAlloc == {"new", "new_arr", "new_nothrow", "new_arr_nothrow", "new_al", "new_arr_al", "new_al_nothrow", "new_arr_al_nothrow"}
AllocE   == CAlloc \cup CppAlloc

CRelease   == {"free", "realloc", "realloc_zero", "reallocarray", "reallocarray_ovf", "malloc_usable_size"}
                 \cup (IF HasCfree THEN {"cfree"} ELSE {})
CppRelease == {"delete", "delete_arr", "delete_sz", "delete_arr_sz", "delete_al", "delete_arr_al", "delete_sz_al",
               "delete_arr_sz_al", "delete_nothrow", "delete_arr_nothrow", "delete_al_nothrow", "delete_arr_al_nothrow"}
ReleaseE   == CRelease \cup CppRelease

\* memory handed out by the C library itself on behalf of the program and released by the program with free
\* (whole-program runs only)
LibAlloc == {"getline", "asprintf", "open_memstream", "new_expr", "new_arr_expr"}
LibRelease == {"delete_expr", "delete_arr_expr"}

Entries == AllocE \cup ReleaseE \cup LibAlloc \cup LibRelease \cup {"cfree"}

AlignedAlloc == {"posix_memalign", "aligned_alloc", "memalign", "new_al", "new_arr_al", "new_al_nothrow", "new_arr_al_nothrow"}
PageAlloc    == {"valloc", "pvalloc"}
StrAlloc     == {"strdup", "strndup", "realpath"}
SizedRel     == {"delete_sz", "delete_arr_sz", "delete_sz_al", "delete_arr_sz_al"}
AlignedRel   == {"delete_al", "delete_arr_al", "delete_sz_al", "delete_arr_sz_al", "delete_al_nothrow", "delete_arr_al_nothrow"}

ResizeRel    == {"realloc", "realloc_zero", "reallocarray", "reallocarray_ovf"}

\* the mimalloc family an entry point must behave as (operation names of MiApi)
Fam(ep) ==
  CASE ep \in {"malloc", "getline", "asprintf", "open_memstream"} -> "malloc"
    [] ep = "calloc" -> "calloc"
    [] ep \in {"realloc_null", "realloc", "realloc_zero"} -> "realloc"
    [] ep \in {"reallocarray_null", "reallocarray", "reallocarray_ovf"} -> "reallocarray"
    [] ep \in {"posix_memalign", "aligned_alloc", "memalign", "valloc", "pvalloc", "strdup", "strndup", "realpath"} -> ep
    [] ep \in {"new", "new_arr", "new_expr", "new_arr_expr"} -> "new"
    [] ep \in {"new_nothrow", "new_arr_nothrow"} -> "new_nothrow"
    [] ep \in {"new_al", "new_arr_al"} -> "new_aligned"
    [] ep \in {"new_al_nothrow", "new_arr_al_nothrow"} -> "new_aligned_nothrow"
    [] ep \in {"free", "delete", "delete_arr", "delete_nothrow", "delete_arr_nothrow", "delete_expr", "delete_arr_expr"} -> "free"
    [] ep = "cfree" -> "cfree"
    [] ep \in {"delete_sz", "delete_arr_sz"} -> "free_size"
    [] ep \in {"delete_al", "delete_arr_al", "delete_al_nothrow", "delete_arr_al_nothrow"} -> "free_aligned"
    [] ep \in {"delete_sz_al", "delete_arr_sz_al"} -> "free_size_aligned"
    [] ep = "malloc_usable_size" -> "usable_size"
    [] OTHER -> "unknown-entry-point"

\* ---------------------------------------------------------------- the relation
\* C19: memory from ANY allocating entry point may be released / resized / queried through ANY other entry point
\* (a block that went through a resizing entry point is a product of that entry point)
CrossOK(ae, re) == ae \in AllocE \cup LibAlloc \cup ResizeRel /\ re \in ReleaseE \cup LibRelease
\* the sub-relation the C / C++ standards (and glibc's manual for the non-standard ones) define; the rest of the
\* product is defined only because all entry points are one allocator
StdDefined(ae, re) ==
  \/ ae \in CAlloc /\ re \in CRelease
  \/ ae \in {"new", "new_nothrow"} /\ re \in {"delete", "delete_sz", "delete_nothrow"}
  \/ ae \in {"new_arr", "new_arr_nothrow"} /\ re \in {"delete_arr", "delete_arr_sz", "delete_arr_nothrow"}
  \/ ae \in {"new_al", "new_al_nothrow"} /\ re \in {"delete_al", "delete_sz_al", "delete_al_nothrow"}
  \/ ae \in {"new_arr_al", "new_arr_al_nothrow"} /\ re \in {"delete_arr_al", "delete_arr_sz_al", "delete_arr_al_nothrow"}
Flavour(ae, re) == IF ae \in CppAlloc \/ re \in CppRelease THEN "cpp" ELSE "c"

\* ---------------------------------------------------------------- classification of a request (by the spec, not the driver)
\* n < 0 stands for a size beyond PTRDIFF_MAX (posix_memalign) resp. a count*size product that overflows (reallocarray)
ClsOf(ev) ==
  CASE ev.op = "posix_memalign" /\ (ev.al <= 0 \/ ~IsPow2(ev.al) \/ ev.al % PtrSize # 0) -> "einval"
    [] ev.op = "posix_memalign" /\ ev.n < 0 -> "enomem"
    [] ev.op \in {"reallocarray", "reallocarray_null", "reallocarray_ovf"} /\ ev.n < 0 -> "overflow"
    [] ev.op \in CppAlloc /\ ev.n < 0 -> "enomem"       \* operator new with an unsatisfiable size
    [] ev.op \in {"malloc", "calloc", "realloc_null", "aligned_alloc", "memalign", "valloc", "pvalloc"} /\ ev.n < 0 -> "toolarge"   \* beyond PTRDIFF_MAX (also after rounding up to a page / an alignment): NULL
    [] OTHER -> "ok"

\* ---------------------------------------------------------------- operator new that cannot be satisfied (no new-handler installed)
\* The driver runs the call in a forked copy of the process and logs how it ended: `out` =
\*   "null" returned nullptr | "nonnull" returned a pointer | "threw" std::bad_alloc | "threw_other" | "abort" killed by a
\*   signal (`sig`) | "exit" left otherwise.
\* The standard prescribes: the nothrow forms return nullptr, the throwing forms throw std::bad_alloc.  Upstream documents
\* one deviation (src/alloc.c, "C++ new and new_aligned"): a library compiled as C cannot throw and aborts in the THROWING
\* forms; that is accepted exactly there (ocfg.libcxx = 0) and nowhere else -- a nothrow form never aborts.
NothrowNew == {"new_nothrow", "new_arr_nothrow", "new_al_nothrow", "new_arr_al_nothrow"}
ThrowingNew == CppAlloc \ NothrowNew
FailingNew(c) == c.ep \in CppAlloc /\ c.cls = "enomem"

MapCall(ev) == [ep |-> ev.op] @@ [ev EXCEPT !.op = Fam(ev.op), !.cls = ClsOf(ev)]

RoundUp(n, k) == ((n + k - 1) \div k) * k
NeedUsable(c) == IF c.ep = "pvalloc" THEN RoundUp(c.n, ocfg.page) ELSE c.n

Produces(c, r) == c.op \in AllocOps \cup ReallocOps /\ ~r.null

\* effect of a call on the allocator's own number of live blocks
Delta(c, r) ==
  CASE c.op \in AllocOps -> IF r.null THEN 0 ELSE 1
    [] c.op \in FreeOps -> -1
    [] c.op \in ReallocOps -> IF c.id = 0 /\ ~r.null THEN 1 ELSE 0
    [] OTHER -> 0

PairStr(c) == (IF c.id \in DOMAIN origin THEN origin[c.id] ELSE "?") \o "->" \o c.ep

DefaultCfg == [mode |-> "none", lang |-> "c", have_mi |-> 1, page |-> 4096, libcxx |-> 0]
OvInit0 == ApiInit /\ origin = <<>> /\ foreign = {}
OvInit == OvInit0 /\ ocfg = DefaultCfg

\* ---------------------------------------------------------------- call of an entry point
OvCall(ev) ==
  LET c == MapCall(ev) IN
  /\ GD("KnownEntryPoint", ev.op, ev.op \in Entries /\ (ev.op = "cfree" => HasCfree))
  /\ (ev.op \in PageAlloc => GD("CallWellFormed", ev.op, ev.al = ocfg.page))
  /\ (ev.op \in ReleaseE \cup LibRelease =>
        GD("CrossRelease", PairStr(c), c.id \in LiveIds /\ c.id \in DOMAIN origin /\ c.id \notin foreign /\ CrossOK(origin[c.id], ev.op)))
  /\ (ev.op \in SizedRel /\ c.id \in LiveIds => GD("CallWellFormed", ev.op, ev.n = live[c.id].req))
  /\ (ev.op \in AlignedRel /\ c.id \in LiveIds => GD("CallWellFormed", ev.op, IsPow2(ev.al) /\ AlignedAt(live[c.id].a, 0, ev.al)))
  /\ Call(c)
  /\ UNCHANGED <<origin, foreign, ocfg>>

\* ---------------------------------------------------------------- return of an entry point
OvGuards(c, r) ==
  /\ (Produces(c, r) => GD("ServedByMimalloc", c.ep, r.inheap = 1))
  /\ ((Produces(c, r) /\ r.inheap = 1) => GD("UsableAtLeast", c.ep, r.us >= NeedUsable(c)))
  /\ ((c.ep \in StrAlloc /\ ~r.null) => GD("StringCopied", c.ep, r.keep >= c.n))
  /\ ((c.ep \in AllocE \cup ReleaseE /\ c.used >= 0 /\ r.used >= 0 /\ (Produces(c, r) => r.inheap = 1)) =>
        GD("LiveCountDelta", c.ep, r.used - c.used = Delta(c, r)))
  /\ ((FailingNew(c) /\ c.ep \in NothrowNew) => GD("NothrowNewReturnsNull", c.ep \o ":" \o r.out, r.out = "null" /\ r.null))
  /\ ((FailingNew(c) /\ c.ep \in ThrowingNew) =>
        GD("ThrowingNewThrows", c.ep \o ":" \o r.out, r.null /\ (r.out = "threw" \/ (ocfg.libcxx = 0 /\ r.out = "abort"))))

OvRet(ev) ==
  /\ ev.t \in DOMAIN flux /\ flux[ev.t] # NoCall
  /\ LET c == flux[ev.t] IN
       /\ c.ep = ev.op
       /\ OvGuards(c, ev)
       /\ Ret([ev EXCEPT !.op = c.op])
       /\ origin' = [b \in DOMAIN live' |-> IF b \in DOMAIN origin THEN origin[b] ELSE c.ep]
       /\ foreign' = (foreign \cap DOMAIN live') \cup (IF Produces(c, ev) /\ ev.inheap # 1 THEN {ev.id} ELSE {})
       /\ UNCHANGED ocfg

\* the driver abandons a block that is not mimalloc's (it was reported by ServedByMimalloc; passing it on to other
\* entry points would only crash the driver)
OvSkip(ev) ==
  /\ step' = step + 1
  /\ GD("SkipOnlyForeign", ev.id, ev.id \in foreign)
  /\ live' = [b \in LiveIds \ {ev.id} |-> live[b]]
  /\ origin' = [b \in DOMAIN origin \ {ev.id} |-> origin[b]]
  /\ foreign' = foreign \ {ev.id}
  /\ UNCHANGED <<heaps, dflt, backing, flux, arenas, osfail, cfg, aux, ocfg>>

\* a block that a broken pair left behind (the failure itself was reported where it happened): the driver drops it
OvAbandon(ev) ==
  /\ step' = step + 1
  /\ GD("LeftoverBlock", ev.id, FALSE)
  /\ live' = [b \in LiveIds \ {ev.id} |-> live[b]]
  /\ origin' = [b \in DOMAIN origin \ {ev.id} |-> origin[b]]
  /\ foreign' = foreign \ {ev.id}
  /\ UNCHANGED <<heaps, dflt, backing, flux, arenas, osfail, cfg, aux, ocfg>>

\* a pointer the program sees inside a library-managed object (container storage ...): only its provenance is demanded
OvSeen(ev) ==
  /\ step' = step + 1
  /\ GD("ServedByMimalloc", ev.op, ev.inheap = 1)
  /\ UNCHANGED <<live, heaps, dflt, backing, flux, arenas, osfail, cfg, aux, origin, foreign, ocfg>>

\* start of one (allocating, releasing) pair of the matrix
OvPair(ev) ==
  /\ step' = step + 1
  /\ GD("PairStartsClean", ev.ae, LiveIds = {})
  /\ GD("PairInMatrix", ev.ae \o "->" \o ev.re, ev.ae \in AllocE /\ ev.re \in ReleaseE \cup {"none"})
  /\ UNCHANGED <<live, heaps, dflt, backing, flux, arenas, osfail, cfg, aux, origin, foreign, ocfg>>

OvCfg(ev) ==
  /\ step' = step + 1
  /\ ocfg' = ev
  /\ GD("OverrideActive", ev.mode, ev.have_mi = 1)
  /\ UNCHANGED <<live, heaps, dflt, backing, flux, arenas, osfail, cfg, aux, origin, foreign>>

\* ---------------------------------------------------------------- invariants
OriginTracksLive == DOMAIN origin = LiveIds \/ \E t \in DOMAIN flux : flux[t] # NoCall
AllLiveServed == foreign = {}
=============================================================================
