SPECIFICATION Spec
CONSTANTS NP = 3
 CAP = 3
 Variant = "fixed"
INVARIANT ModelValid
INVARIANT Accounting
