------------------------------ MODULE MiApiMC ------------------------------
(***************************************************************************
  Bounded instance of MiApi for exhaustive model checking and for generating API programs.
  The event records that trace validation reads from the implementation are here chosen from a
  small abstract domain: an address space of Cells 8-byte cells, requested sizes from Sizes,
  at most MaxBlocks allocations and MaxHeaps extra heaps.  The guards of MiApi then act as the
  definition of an abstract allocator ("any result that satisfies the contract"), and TLC checks
  that the state invariants (LiveDisjoint, ...) follow from the contract in every reachable state
  and that no action is dead.

  `prog` records the program (the Call side only); in -simulate mode it is printed as JSON and
  replayed against the real allocator by the harness (tools/gen_programs.py, drv_api --prog).
 ***************************************************************************)
EXTENDS MiApi, Json

CONSTANTS Cells, Sizes, MaxBlocks, MaxHeaps, GenDepth

VARIABLES nextId, nextHeap, prog, done
mcVars == <<apiVars, nextId, nextHeap, prog, done>>

CallRec(op, h, id, n, zero) ==
  [e |-> "call", t |-> 0, at |-> FALSE, op |-> op, h |-> h, id |-> id, n |-> n, al |-> 0, off |-> 0,
   zero |-> zero, cls |-> "ok", arena |-> 0, stopat |-> 0, obs |-> <<>>]
RetRec(op, null, id, a, us, z, gen, wr, keep, h) ==
  [e |-> "ret", t |-> 0, op |-> op, null |-> null, id |-> id, a |-> a, us |-> us, z |-> z, gen |-> gen, wr |-> wr,
   keep |-> keep, rc |-> 0, errno |-> 0, outkeep |-> TRUE, res |-> TRUE, h |-> h, nvisited |-> 0, obs |-> <<>>]

Addrs == {<<0, 8 * c>> : c \in 0..(Cells - 1)}
Fits(a, us) == a[2] + us <= 8 * Cells
UserHeaps == {h \in DOMAIN heaps : ~heaps[h].backing}
HeapChoices == {0} \cup DOMAIN heaps            \* 0 = use the default heap

MCInit == ApiInit /\ nextId = 1 /\ nextHeap = 2 /\ prog = <<>> /\ done = FALSE

Log(c) == prog' = Append(prog, [op |-> c.op, h |-> c.h, id |-> c.id, n |-> c.n])
Idle == flux[0] = NoCall

\* ---- calls the program may issue
DoCall ==
  /\ Idle
  /\ Len(prog) < GenDepth
  /\ \E c \in
        {CallRec(op, h, 0, n, op \in {"zalloc", "heap_zalloc"}) :
            op \in {"malloc", "zalloc"}, h \in {0}, n \in Sizes}
        \cup {CallRec(op, h, 0, n, op = "heap_zalloc") : op \in {"heap_malloc", "heap_zalloc"}, h \in DOMAIN heaps, n \in Sizes}
        \cup {CallRec("free", 0, b, 0, FALSE) : b \in {x \in LiveIds : live[x].kind = "blk"}}
        \cup {CallRec(op, 0, b, n, op = "rezalloc") : op \in {"realloc", "rezalloc", "reallocf"},
                                                        b \in {x \in LiveIds : live[x].kind = "blk"}, n \in Sizes}
        \cup {CallRec("expand", 0, b, n, FALSE) : b \in {x \in LiveIds : live[x].kind = "blk"}, n \in Sizes}
        \cup {CallRec("heap_new", 0, 0, 0, FALSE) : x \in {1}}
        \cup {CallRec(op, h, 0, 0, FALSE) : op \in {"heap_delete", "heap_destroy", "heap_set_default"}, h \in UserHeaps}
        \cup {CallRec("heap_set_default", backing[0], 0, 0, FALSE), CallRec("collect", 0, 0, 1, FALSE)} :
       /\ (c.op \in AllocOps \cup {"heap_new"} => nextId <= MaxBlocks)
       /\ (c.op \in ReallocOps => nextId <= MaxBlocks)
       /\ (c.op = "heap_new" => nextHeap <= MaxHeaps + 1)
       /\ Call(c) /\ Log(c)
  /\ UNCHANGED <<nextId, nextHeap, done>>

\* ---- results the abstract allocator may produce (constrained by the guards of MiApi)
DoRet ==
  /\ ~Idle
  /\ LET c == flux[0] IN
     \/ /\ c.op \in AllocOps
        /\ \E a \in Addrs, us \in {c.n, c.n + 8} : \E wr \in {c.n, us}, z \in {0, us} :
              /\ Fits(a, us)
              /\ Ret(RetRec(c.op, FALSE, nextId, a, us, z, 1, wr, 0, 0))
        /\ nextId' = nextId + 1 /\ UNCHANGED nextHeap
     \/ /\ c.op \in ReallocOps
        /\ \E a \in Addrs, us \in {c.n, c.n + 8} : \E z \in {0, us} :
              /\ Fits(a, us)
              /\ Ret(RetRec(c.op, FALSE, nextId, a, us, z, 2, c.n, Min(Min(c.old.wr, c.old.req), c.n), 0))
        /\ nextId' = nextId + 1 /\ UNCHANGED nextHeap
     \/ /\ c.op = "expand"
        /\ \E null \in BOOLEAN : Ret(RetRec(c.op, null, 0, live[c.id].a, live[c.id].us, 0, 0, 0, 0, 0))
        /\ UNCHANGED <<nextId, nextHeap>>
     \/ /\ c.op = "heap_new"
        /\ \E a \in Addrs : /\ Fits(a, 8)
                            /\ Ret(RetRec(c.op, FALSE, nextId, a, 8, 0, 0, 0, 0, nextHeap))
        /\ nextId' = nextId + 1 /\ nextHeap' = nextHeap + 1
     \/ /\ c.op = "heap_set_default"
        /\ Ret(RetRec(c.op, FALSE, 0, <<0, 0>>, 0, 0, 0, 0, 0, dflt[0]))
        /\ UNCHANGED <<nextId, nextHeap>>
     \/ /\ c.op \in FreeOps \cup {"heap_delete", "heap_destroy", "collect"}
        /\ Ret(RetRec(c.op, FALSE, 0, <<0, 0>>, 0, 0, 0, 0, 0, 0))
        /\ UNCHANGED <<nextId, nextHeap>>
  /\ UNCHANGED <<prog, done>>

\* generation only: the program is complete (one deterministic step, so it is emitted exactly once per behaviour)
Finish == /\ Idle /\ Len(prog) = GenDepth /\ ~done /\ done' = TRUE
          /\ UNCHANGED <<apiVars, nextId, nextHeap, prog>>

MCNext == DoCall \/ DoRet \/ Finish
MCSpec == MCInit /\ [][MCNext]_mcVars

\* state seen by the model checker: without the trace position and the program history
MCView == <<live, heaps, dflt, backing, flux, arenas, osfail, nextId, nextHeap>>

MCInv == LiveDisjoint /\ LiveWellFormed /\ HeapsOK /\ BlocksHaveHeaps

\* generation: print the program when the behaviour has reached GenDepth calls (used with -simulate)
GenEmit == done => PrintT(<<"PROGRAM", ToJson(prog)>>)
GenBound == Len(prog) <= GenDepth
=============================================================================
