SPECIFICATION TraceSpec
CONSTANT Relaxed = TRUE
CONSTANT HasCfree = FALSE
INVARIANT Inv
POSTCONDITION TraceAccepted
CHECK_DEADLOCK FALSE
