SPECIFICATION MCSpec
CONSTANTS
  Relaxed = FALSE
  Cells = 6
  Sizes = {8, 16}
  MaxBlocks = 4
  MaxHeaps = 1
  GenDepth = 99
VIEW MCView
INVARIANT MCInv
CHECK_DEADLOCK FALSE
