------------------------------- MODULE MiStep -------------------------------
(***************************************************************************
  The transition functions of the delayed-free protocol on one shared word, shared by the exhaustive protocol model
  (MiPage.tla: one page, owner + remote threads, every interleaving) and by the step-level trace specification
  (StepTrace.tla: the atomic operations the real allocator performed on page.xthread_free / heap.thread_delayed_free /
  page.xheap, as logged by the scheduler hooks, replayed against exactly these functions).

  A thread-free word is a pair <<head, flag>>: the head of the list of remotely freed blocks and the delayed-free flag.

    remote free     (free.c  mi_free_block_delayed_mt)      load ; CAS Cas1New ; if it set FREEING: load xheap ; load dh ;
                                                             CAS dh := own block ; load ; CAS Cas3New
    owner collect   (page.c  _mi_page_thread_free_collect)  load ; CAS CollectNew
    owner flag      (page.c  _mi_page_try_use_delayed_free) load ; wait while FREEING ; keep if already there (or NEVER and not
                                                             overriding) ; else CAS UseDelayedNew
    owner drain     (page.c  _mi_heap_delayed_free_partial) load dh ; CAS dh := NULL ; per block: flag back to USE (see above) or re-push
 ***************************************************************************)
CONSTANT NULL          \* the empty list (instantiated: a string in MiPage, the triple <<0,0,0>> in StepTrace)
Flags == {"USE", "FREEING", "NO", "NEVER"}

\* first CAS of a remote free of block b: the first remote free into a page in delayed mode only announces itself, every other one pushes
Cas1Delayed(tf) == tf[2] = "USE"
Cas1New(tf, b)  == IF Cas1Delayed(tf) THEN <<tf[1], "FREEING">> ELSE <<b, tf[2]>>
\* last CAS of a delayed remote free: only the thread that set FREEING resets it, to NO, leaving the list alone
Cas3Pre(tf)     == tf[2] = "FREEING"
Cas3New(tf)     == <<tf[1], "NO">>
\* the owner takes the whole list and leaves the flag alone
CollectNew(tf)  == <<NULL, tf[2]>>
\* the owner changes the flag and leaves the list alone; never while a remote thread is between its first and last CAS
UseDelayedWaits(tf)                  == tf[2] = "FREEING"
UseDelayedKeeps(tf, target, ovNever) == tf[2] = target \/ (~ovNever /\ tf[2] = "NEVER")
UseDelayedNew(tf, target)            == <<tf[1], target>>
\* shapes of a legal successful write to a thread-free word, whoever performs it
IsPush(old, new)    == new[2] = old[2] /\ new[1] # NULL /\ new[1] # old[1]
IsTake(old, new)    == new = CollectNew(old) /\ old[1] # NULL
IsFlagSet(old, new) == new[1] = old[1] /\ new[2] # old[2]
=============================================================================
