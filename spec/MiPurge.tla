------------------------------- MODULE MiPurge -------------------------------
(***************************************************************************
  The purge schedule of the arenas (src/arena.c: mi_arena_schedule_purge, mi_arena_try_purge, mi_arenas_try_purge,
  _mi_arena_free, _mi_arenas_collect) for sequential histories (every API call is one step; C18 quantifies over
  configurations and histories with a controlled clock).

  NA arenas of NB blocks.  Freeing blocks of an arena schedules them for purging: the arena gets an expiry (now + Delay) if it
  has none, and then the global expiry is set if IT has none; afterwards -- and in every mi_collect -- the allocator looks at
  the global expiry and, when it is due (or the collect is forced), visits the arenas in index order, purges those whose own
  expiry is due (at most Budget of them unless everything is visited; the next limited visit begins behind the arena at which
  this one ran out of budget), and clears the global expiry if all arenas were visited and none has a purge pending.

  Time is kept relative: rem[a] / grem are the milliseconds left until the expiry (0 = due), Tick lets one unit pass.  That is
  an exact finite abstraction of the absolute clock values of the code (only comparisons with `now` and `now + delay` occur).

  Checked by TLC:
     ModelValid        (MiPurge_mc.cfg) every reachable table satisfies ArenaValid (MiArenaValid -- the same operator ArenaTrace
                       evaluates on tables dumped from the running allocator)
     EventuallyPurged  (MiPurge_live.cfg: 3 arenas, MiPurge_live4.cfg: 4 arenas) under ordinary activity -- time passes, non-forced
                       collects keep being called -- every block scheduled for purging is purged (or handed out again)
  Variant selects the code as it is ("fixed") or one of the defects repaired in /repo:
     "forget_pending"  (1362dd2) the global expiry was cleared although an arena still had a purge pending   -> ModelValid fails
     "wrong_compare"   (ab5af6b) the global expiry was compared the wrong way round                          -> ModelValid fails
     "no_rotation"     (8ff5922) the limited visit (at most Budget purging arenas) always began at the first arena: with more arenas
                       than Budget, arenas of low index that have a due purge at every visit use up the budget and a later arena is
                       never reached -> EventuallyPurged fails (MiPurge_starve.cfg; this is how that defect was found: TLC's
                       counterexample is the history `starve` of the C18 driver, where the real allocator showed the same)
  With each of them TLC reports the violation (tools/selftest.py), which is how the model is known not to be vacuous.
 ***************************************************************************)
EXTENDS Integers, Sequences, FiniteSets, MiArenaValid
CONSTANTS NA, NB, Delay, Budget, Variant
VARIABLES inuse, purge, dirty, set, rem, gset, grem, start, after
vars == <<inuse, purge, dirty, set, rem, gset, grem, start, after>>
Arena == 1..NA
Block == 0..(NB - 1)

St == [purge |-> purge, set |-> set, rem |-> rem, gset |-> gset, grem |-> grem, start |-> start]

\* mi_arena_schedule_purge: the arena's expiry is set if it has none (CAS from 0), and only then the global one (CAS from 0)
Schedule(a, Bs, S) ==
  IF S.set[a] THEN [S EXCEPT !.purge[a] = @ \cup Bs]
  ELSE [S EXCEPT !.purge[a] = @ \cup Bs, !.set[a] = TRUE, !.rem[a] = Delay,
                 !.gset = TRUE, !.grem = IF S.gset THEN S.grem ELSE Delay]

\* the loop of mi_arenas_try_purge over the arenas: k arenas were looked at so far, the visit began at arena `st` (the arena behind the
\* one at which the previous visit ran out of budget; always the first arena in variant "no_rotation" and when everything is visited);
\* mi_arena_try_purge purges everything scheduled in an arena whose expiry is due (all of it: nothing is in use concurrently in a
\* sequential history) and clears the arena's expiry
RECURSIVE Visit(_, _, _, _, _, _, _, _)
Visit(force, st, k, budget, pu, se, re, pending) ==
  IF k >= NA THEN [purge |-> pu, set |-> se, allv |-> TRUE, pending |-> pending, start |-> st]
  ELSE LET i == ((st - 1 + k) % NA) + 1
           due == force \/ (se[i] /\ re[i] = 0)
           any == due /\ pu[i] # {}
           pu2 == IF due THEN [pu EXCEPT ![i] = {}] ELSE pu
           se2 == IF due THEN [se EXCEPT ![i] = FALSE] ELSE se
       IN IF any /\ budget <= 1 THEN [purge |-> pu2, set |-> se2, allv |-> FALSE, pending |-> pending, start |-> (i % NA) + 1]
          ELSE Visit(force, st, k + 1, IF any THEN budget - 1 ELSE budget, pu2, se2, re, pending \/ se2[i])

\* mi_arenas_try_purge(force, visit_all)
TryPurge(force, visitall, S) ==
  LET due == IF Variant = "wrong_compare" THEN S.gset /\ S.grem > 0 ELSE S.gset /\ S.grem = 0 IN
  IF ~force /\ ~due THEN S
  ELSE LET st == IF visitall \/ Variant = "no_rotation" THEN 1 ELSE S.start
           r == Visit(force, st, 0, IF visitall THEN NA ELSE Budget, S.purge, S.set, S.rem, FALSE)
           clear == IF Variant = "forget_pending" THEN r.allv ELSE r.allv /\ ~r.pending
       IN [purge |-> r.purge, set |-> r.set, rem |-> [a \in Arena |-> IF r.set[a] THEN S.rem[a] ELSE 0],
           gset |-> ~clear, grem |-> IF clear THEN 0 ELSE Delay,
           start |-> IF r.allv \/ Variant = "no_rotation" THEN S.start ELSE r.start]

Install(S) == purge' = S.purge /\ set' = S.set /\ rem' = S.rem /\ gset' = S.gset /\ grem' = S.grem /\ start' = S.start

Init == /\ inuse = [a \in Arena |-> {}] /\ purge = [a \in Arena |-> {}] /\ dirty = [a \in Arena |-> {}]
        /\ set = [a \in Arena |-> FALSE] /\ rem = [a \in Arena |-> 0] /\ gset = FALSE /\ grem = 0 /\ start = 1 /\ after = "op"

\* an allocation takes free blocks of an arena; blocks scheduled for purging are taken off the schedule
Alloc(a, Bs) == /\ Bs # {} /\ Bs \cap inuse[a] = {}
                /\ inuse' = [inuse EXCEPT ![a] = @ \cup Bs] /\ dirty' = [dirty EXCEPT ![a] = @ \cup Bs]
                /\ purge' = [purge EXCEPT ![a] = @ \ Bs] /\ after' = "op" /\ UNCHANGED <<set, rem, gset, grem, start>>
\* _mi_arena_free: schedule the purge, release the blocks, look at the global expiry
Free(a, Bs) == /\ Bs # {} /\ Bs \subseteq inuse[a]
               /\ inuse' = [inuse EXCEPT ![a] = @ \ Bs] /\ Install(TryPurge(FALSE, FALSE, Schedule(a, Bs, St)))
               /\ after' = "op" /\ UNCHANGED dirty
Collect(force) == /\ Install(TryPurge(force, force, St)) /\ after' = (IF force THEN "fcollect" ELSE "collect") /\ UNCHANGED <<inuse, dirty>>
Tick == /\ rem' = [a \in Arena |-> IF rem[a] > 0 THEN rem[a] - 1 ELSE 0] /\ grem' = (IF grem > 0 THEN grem - 1 ELSE 0)
        /\ after' = "op" /\ UNCHANGED <<inuse, purge, dirty, set, gset, start>>

Next == \/ \E a \in Arena, Bs \in SUBSET Block : Alloc(a, Bs) \/ Free(a, Bs)
        \/ \E f \in BOOLEAN : Collect(f)
        \/ Tick
Spec == Init /\ [][Next]_vars
\* ordinary activity: time passes and non-forced collects keep being called
FairSpec == Spec /\ WF_vars(Tick /\ vars' # vars) /\ WF_vars(Collect(FALSE))

Dump == [delay |-> Delay, gset |-> gset, grem |-> grem, after |-> after,
         arenas |-> [a \in Arena |-> [blocks |-> NB, bits |-> NB + 1, pinned |-> FALSE, zero |-> TRUE, set |-> set[a], rem |-> rem[a],
                                      inuse |-> inuse[a] \cup {NB}, purge |-> purge[a], abandoned |-> {}, dirty |-> dirty[a]]]]
ModelValid == ArenaValid(Dump)
ModelFailName == ArenaFail(Dump)
EventuallyPurged == \A a \in Arena, b \in Block : (b \in purge[a]) ~> (b \notin purge[a])
=============================================================================
