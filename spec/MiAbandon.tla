------------------------------ MODULE MiAbandon ------------------------------
(***************************************************************************
  Abandonment and adoption of segments at the granularity of the atomic operations on the shared words
  (segment.thread_id, the arena's abandoned bit, subproc.abandoned_count) -- src/arena-abandon.c, src/segment.c:

    thread exit (mi_segment_abandon)    : pages marked NEVER_DELAYED; store thread_id := 0; claim abandoned bit; count++
    reclaim on free / on allocation     : unclaim abandoned bit (atomic test-and-clear); [other sub-process: re-claim the bit, give up];
                                          count--; store thread_id := self; collect the blocks freed meanwhile; free the segment if empty
    free of a block in a foreign segment: load thread_id; if 0 (abandoned) and reclaim-on-free is on, try to reclaim; else push on the
                                          page's thread-free list (collected by whoever owns / adopts the segment later)

  Program view (ghost): live[s] = blocks of the segment the program still holds; the allocator's used[s] additionally counts
  the blocks pushed on thread-free lists (pend[s]) until the owner collects them.

  Invariants: AtMostOneOwner, BitImpliesUnowned, SameSubprocOnly, CountMatches (at rest), NoLostSegment / EventuallyFreed
  (a quiescent state with nothing live has every segment freed or abandoned-and-empty-collectable: checked via QuiescentFreed).
 ***************************************************************************)
EXTENDS Naturals, FiniteSets, TLC

CONSTANTS Threads, Segs, SubOfThread, SubOfSeg, InitOwner, InitLive, ReclaimOnFree, MaxOps

VARIABLES owner,     \* segment.thread_id : thread or "none"
          bit,       \* abandoned bit of the segment's arena block
          cnt,       \* subproc.abandoned_count (one sub-process counter per sub-process)
          live,      \* ghost: blocks held by the program
          pend,      \* blocks on thread-free lists (freed remotely, not yet collected)
          freed,     \* the segment was returned to the arena / OS
          users,     \* ghost: threads that currently treat the segment as theirs
          alive,     \* thread has not exited
          pc, cur,   \* per thread: program counter and the segment it is working on
          ops
vars == <<owner, bit, cnt, live, pend, freed, users, alive, pc, cur, ops>>

None == "none"
Subs == {SubOfThread[t] : t \in Threads}

Init ==
  /\ owner = InitOwner /\ bit = [s \in Segs |-> FALSE] /\ cnt = [p \in Subs |-> 0]
  /\ live = InitLive /\ pend = [s \in Segs |-> 0] /\ freed = [s \in Segs |-> FALSE]
  /\ users = [s \in Segs |-> IF InitOwner[s] = None THEN {} ELSE {InitOwner[s]}]
  /\ alive = [t \in Threads |-> TRUE] /\ pc = [t \in Threads |-> "idle"] /\ cur = [t \in Threads |-> CHOOSE s \in Segs : TRUE]
  /\ ops = 0

Used(s) == live[s] + pend[s]
Set(f, k, v) == [f EXCEPT ![k] = v]
Begin(t) == pc[t] = "idle" /\ alive[t] /\ ops < MaxOps /\ ops' = ops + 1

\* ---- owner-local operations on an owned segment (no shared-word race: the owner is the only user)
LocalFree(t) == /\ Begin(t)
                /\ \E s \in Segs : /\ owner[s] = t /\ ~freed[s] /\ live[s] > 0
                                   /\ live' = Set(live, s, live[s] - 1)
                                   /\ IF live[s] - 1 + pend[s] = 0      \* (the owner collects the thread-free list when the page looks free)
                                      THEN freed' = Set(freed, s, TRUE) /\ users' = Set(users, s, users[s] \ {t}) /\ owner' = Set(owner, s, None)
                                      ELSE UNCHANGED <<freed, users, owner>>
                /\ UNCHANGED <<bit, cnt, pend, alive, pc, cur>>
Collect(t) == /\ Begin(t)
              /\ \E s \in Segs : /\ owner[s] = t /\ ~freed[s] /\ pend[s] > 0
                                 /\ pend' = Set(pend, s, 0)
                                 /\ IF live[s] = 0 THEN freed' = Set(freed, s, TRUE) /\ users' = Set(users, s, users[s] \ {t}) /\ owner' = Set(owner, s, None)
                                    ELSE UNCHANGED <<freed, users, owner>>
              /\ UNCHANGED <<bit, cnt, live, alive, pc, cur>>
Alloc(t) == /\ Begin(t)
            /\ \E s \in Segs : owner[s] = t /\ ~freed[s] /\ live[s] < 2 /\ live' = Set(live, s, live[s] + 1)
            /\ UNCHANGED <<owner, bit, cnt, pend, freed, users, alive, pc, cur>>

\* ---- thread exit: abandon every owned segment, one shared-word step at a time
ExitStart(t) == /\ Begin(t) /\ pc' = Set(pc, t, "x_next") /\ UNCHANGED <<owner, bit, cnt, live, pend, freed, users, alive, cur>>
ExitNext(t) == /\ pc[t] = "x_next"
               /\ IF \E s \in Segs : owner[s] = t /\ ~freed[s]
                  THEN LET s == CHOOSE s \in Segs : owner[s] = t /\ ~freed[s] IN
                       IF Used(s) = 0      \* nothing left: free the segment instead of abandoning it  (collects pend first)
                       THEN /\ freed' = Set(freed, s, TRUE) /\ owner' = Set(owner, s, None) /\ users' = Set(users, s, users[s] \ {t})
                            /\ UNCHANGED <<pc, cur, alive, pend>>
                       ELSE \* store thread_id := 0  (from now on other threads see the segment as abandoned)
                            /\ owner' = Set(owner, s, None) /\ users' = Set(users, s, users[s] \ {t})
                            /\ cur' = Set(cur, t, s) /\ pc' = Set(pc, t, "x_bit") /\ UNCHANGED <<freed, alive, pend>>
                  ELSE /\ alive' = Set(alive, t, FALSE) /\ pc' = Set(pc, t, "idle") /\ UNCHANGED <<owner, users, freed, cur, pend>>
               /\ UNCHANGED <<bit, cnt, live, ops>>
ExitBit(t) == /\ pc[t] = "x_bit"
              /\ Assert(~bit[cur[t]], "abandoned bit was already set (mark_abandoned asserts was_unmarked)")
              /\ bit' = Set(bit, cur[t], TRUE) /\ pc' = Set(pc, t, "x_cnt")
              /\ UNCHANGED <<owner, cnt, live, pend, freed, users, alive, cur, ops>>
ExitCnt(t) == /\ pc[t] = "x_cnt"
              /\ cnt' = Set(cnt, SubOfSeg[cur[t]], cnt[SubOfSeg[cur[t]]] + 1) /\ pc' = Set(pc, t, "x_next")
              /\ UNCHANGED <<owner, bit, live, pend, freed, users, alive, cur, ops>>

\* ---- free of a block in a segment of another (possibly exited) thread
RemoteFree(t) == /\ Begin(t)
                 /\ \E s \in Segs : /\ owner[s] # t /\ ~freed[s] /\ live[s] > 0 /\ t \notin users[s]
                                    /\ live' = Set(live, s, live[s] - 1)          \* the program gives the block up now
                                    /\ cur' = Set(cur, t, s)
                                    \* load thread_id: abandoned?  then maybe try to reclaim the segment first
                                    /\ IF owner[s] = None /\ ReclaimOnFree /\ SubOfSeg[s] = SubOfThread[t]
                                       THEN pc' = Set(pc, t, "f_claim") ELSE pc' = Set(pc, t, "f_push")
                 /\ UNCHANGED <<owner, bit, cnt, pend, freed, users, alive>>
FClaim(t) == /\ pc[t] = "f_claim"       \* _mi_arena_segment_clear_abandoned: atomic test-and-clear of the bit
             /\ IF bit[cur[t]] THEN bit' = Set(bit, cur[t], FALSE) /\ pc' = Set(pc, t, "f_cnt")
                ELSE UNCHANGED bit /\ pc' = Set(pc, t, "f_push")     \* not (yet / any more) marked: ordinary cross-thread free
             /\ UNCHANGED <<owner, cnt, live, pend, freed, users, alive, cur, ops>>
FCnt(t) == /\ pc[t] = "f_cnt"
           /\ cnt' = Set(cnt, SubOfSeg[cur[t]], cnt[SubOfSeg[cur[t]]] - 1) /\ pc' = Set(pc, t, "f_own")
           /\ UNCHANGED <<owner, bit, live, pend, freed, users, alive, cur, ops>>
FOwn(t) == /\ pc[t] = "f_own"           \* store thread_id := self; reclaim: collect, then free the block locally
           /\ Assert(owner[cur[t]] = None, "reclaimed a segment that has an owner")
           /\ LET s == cur[t] IN
                /\ pend' = Set(pend, s, 0)
                /\ IF live[s] = 0
                   THEN freed' = Set(freed, s, TRUE) /\ owner' = Set(owner, s, None) /\ users' = users
                   ELSE freed' = freed /\ owner' = Set(owner, s, t) /\ users' = Set(users, s, users[s] \cup {t})
           /\ pc' = Set(pc, t, "idle")
           /\ UNCHANGED <<bit, cnt, live, alive, cur, ops>>
FPush(t) == /\ pc[t] = "f_push"         \* push on the page's thread-free list (CAS loop merged into one step)
            /\ pend' = Set(pend, cur[t], pend[cur[t]] + 1) /\ pc' = Set(pc, t, "idle")
            /\ UNCHANGED <<owner, bit, cnt, live, freed, users, alive, cur, ops>>

\* ---- reclaim by an allocating (or collecting) thread: cursor over the abandoned bits
Reclaim(t) == /\ Begin(t)
              /\ \E s \in Segs : bit[s] /\ cur' = Set(cur, t, s)      \* pre-check "bit is set" (relaxed load of the field)
              /\ pc' = Set(pc, t, "r_claim")
              /\ UNCHANGED <<owner, bit, cnt, live, pend, freed, users, alive>>
RClaim(t) == /\ pc[t] = "r_claim"
             /\ IF bit[cur[t]]
                THEN /\ bit' = Set(bit, cur[t], FALSE)
                     /\ pc' = Set(pc, t, IF SubOfSeg[cur[t]] = SubOfThread[t] THEN "r_cnt" ELSE "r_remark")
                ELSE UNCHANGED bit /\ pc' = Set(pc, t, "idle")
             /\ UNCHANGED <<owner, cnt, live, pend, freed, users, alive, cur, ops>>
RRemark(t) == /\ pc[t] = "r_remark"     \* other sub-process: put the bit back
              /\ Assert(~bit[cur[t]], "re-mark found the bit set")
              /\ bit' = Set(bit, cur[t], TRUE) /\ pc' = Set(pc, t, "idle")
              /\ UNCHANGED <<owner, cnt, live, pend, freed, users, alive, cur, ops>>
RCnt(t) == /\ pc[t] = "r_cnt"
           /\ cnt' = Set(cnt, SubOfSeg[cur[t]], cnt[SubOfSeg[cur[t]]] - 1) /\ pc' = Set(pc, t, "r_own")
           /\ UNCHANGED <<owner, bit, live, pend, freed, users, alive, cur, ops>>
ROwn(t) == /\ pc[t] = "r_own"           \* mi_segment_reclaim: store thread_id := self, collect every page, free the segment if empty
           /\ Assert(owner[cur[t]] = None, "reclaimed a segment that has an owner")
           /\ LET s == cur[t] IN
                /\ pend' = Set(pend, s, 0)
                /\ IF live[s] = 0
                   THEN freed' = Set(freed, s, TRUE) /\ owner' = Set(owner, s, None) /\ users' = users
                   ELSE freed' = freed /\ owner' = Set(owner, s, t) /\ users' = Set(users, s, users[s] \cup {t})
           /\ pc' = Set(pc, t, "idle")
           /\ UNCHANGED <<bit, cnt, live, alive, cur, ops>>

Step(t) == LocalFree(t) \/ Collect(t) \/ Alloc(t) \/ ExitStart(t) \/ ExitNext(t) \/ ExitBit(t) \/ ExitCnt(t)
           \/ RemoteFree(t) \/ FClaim(t) \/ FCnt(t) \/ FOwn(t) \/ FPush(t)
           \/ Reclaim(t) \/ RClaim(t) \/ RRemark(t) \/ RCnt(t) \/ ROwn(t)
Next == \E t \in Threads : Step(t)
Spec == Init /\ [][Next]_vars

\* ---- properties
AtMostOneOwner == \A s \in Segs : Cardinality(users[s]) <= 1
OwnerIsUser == \A s \in Segs : (owner[s] # None) => users[s] = {owner[s]}
BitImpliesUnowned == \A s \in Segs : bit[s] => (owner[s] = None /\ users[s] = {} /\ ~freed[s])
SameSubprocOnly == \A s \in Segs : \A t \in users[s] : SubOfThread[t] = SubOfSeg[s]
FreedOnlyWhenEmpty == \A s \in Segs : freed[s] => (live[s] = 0)
AtRest == \A t \in Threads : pc[t] = "idle"
CountMatches == AtRest => \A p \in Subs : cnt[p] = Cardinality({s \in Segs : bit[s] /\ SubOfSeg[s] = p})
\* no segment is lost: at rest, a segment that is not freed is either owned by a live thread or marked abandoned (so it can be adopted)
NoLostSegment == AtRest => \A s \in Segs : freed[s] \/ (owner[s] # None /\ alive[owner[s]]) \/ bit[s]
\* liveness-as-safety: once nothing is live any more, one adoption round by a thread of the right sub-process frees the segment
\* (checked by the action properties of ROwn/FOwn: live = 0 => freed); here: an abandoned empty segment always still carries its bit
EmptyAbandonedStillAdoptable == AtRest => \A s \in Segs : (~freed[s] /\ owner[s] = None) => bit[s]
Inv == AtMostOneOwner /\ OwnerIsUser /\ BitImpliesUnowned /\ SameSubprocOnly /\ FreedOnlyWhenEmpty /\ CountMatches /\ NoLostSegment /\ EmptyAbandonedStillAdoptable
=============================================================================
