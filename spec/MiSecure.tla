------------------------------ MODULE MiSecure ------------------------------
(***************************************************************************
  C17: what a hardened build (MI_SECURE >= 4, or a debug build) owes the program after a misuse, with mi_register_error
  installed.  The misuse itself is an action of the PROGRAM; the allocator's obligations are the guards:

    DoubleFree  : a second free of a thread-local block whose page still holds another live block is reported with EAGAIN (11)
                  and otherwise ignored -- the model's live set does not change, so every later allocation is still checked
                  against it (a block handed out twice shows up as NoOverlap).
    Overflow    : a foreign byte written up to 16 bytes past the requested size (into the fill bytes or the canary) is reported
                  with EFAULT (14) when the block is freed.
    ForgedLink  : an overwritten free-list link is reported with EFAULT (14) no later than when the allocator reaches the block
                  again, unless the forged value decodes into the same page (or to NULL, an ordinary list end).
    Legal operations report no double-free / corruption error (recorded, not part of the claim).
  StaysConsistent is carried by the ordinary MiApi guards on the events that follow (NoOverlap, ContentsKept, WalkExact,
  AreasCoverAll = every block lies inside one of the heap's areas).
 ***************************************************************************)
EXTENDS MiApi

EAGAIN == 11
EFAULT == 14
HasErr(ev, code) == \E i \in 1..Len(ev.errs) : ev.errs[i] = code

Misuse(ev) ==
  /\ step' = step + 1
  /\ CASE ev.kind = "double_free" ->
            (ev.samepage_live => GD("DetectsDoubleFree", ev.id, HasErr(ev, EAGAIN)))
       [] ev.kind = "overflow" -> GD("DetectsOverflow", <<ev.id, ev.cls, ev.k>>, HasErr(ev, EFAULT))
       [] ev.kind = "forged" ->
            ((ev.cls = "other" /\ ev.reached) => GD("DetectsForgedLink", <<ev.id, ev.k>>, HasErr(ev, EFAULT)))
       [] ev.kind = "none" -> GD("NoSpuriousError", ev.errs, ~HasErr(ev, EAGAIN) /\ ~HasErr(ev, EFAULT))     \* (not decisive: C17 does not forbid false positives)
       [] OTHER -> TRUE
  /\ UNCHANGED <<live, heaps, dflt, backing, flux, arenas, osfail, cfg, aux>>
=============================================================================
