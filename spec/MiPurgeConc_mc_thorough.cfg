SPECIFICATION Spec
CONSTANTS NA = 2
 Threads = {"t1", "t2", "t3"}
 Delay = 2
 MaxOps = 2
 Variant = "fixed"
INVARIANT Quiescent
INVARIANT NeverPurgeInUse
CHECK_DEADLOCK FALSE
