----------------------------- MODULE BitmapTrace -----------------------------
(* Trace specification for the bitmap claim interface (C14, level i): claims reported as successful by concurrent threads are
   pairwise disjoint ranges of bits that were free, lie inside the bitmap and avoid the blocked tail; an unclaim releases exactly
   bits the thread holds (and the function reports that all of them were set); when all threads are done the words contain
   exactly the blocked bits again (nothing reserved is left behind by failed or rolled-back claims). *)
EXTENDS Integers, Sequences, FiniteSets, TLC, Json, IOUtils
CONSTANT Relaxed
Tr == ndJsonDeserialize(IOEnv.TRACE)
VARIABLES step, owned, blocked, pending
vars == <<step, owned, blocked, pending>>
G(name, d, cond) == IF cond THEN TRUE ELSE (Relaxed /\ PrintT(<<"GUARDFAIL", name, step + 1, d>>))
NBits == 192
Range(i, n) == i..(i + n - 1)
SetOf(seq) == {seq[i] : i \in 1..Len(seq)}
WordsBits(w) == UNION {SetOf(w[i]) : i \in 1..Len(w)}
Init == step = 0 /\ owned = [b \in {} |-> 0] /\ blocked = {} /\ pending = [t \in {} |-> {}]
Next ==
  /\ step < Len(Tr) /\ step' = step + 1
  /\ LET ev == Tr[step + 1] IN
     CASE ev.e = "init" -> blocked' = WordsBits(ev.words) /\ owned' = [b \in {} |-> 0] /\ pending' = [t \in {} |-> {}]
       [] ev.e = "claim" ->
            IF ev.ok
            THEN LET r == Range(ev.idx, ev.count) IN
                 /\ G("ClaimInsideBitmap", ev.idx, \A b \in r : b >= 0 /\ b < NBits)
                 /\ G("ClaimAvoidsBlocked", ev.idx, r \cap blocked = {})
                 /\ G("ClaimsDisjoint", ev.idx, r \cap DOMAIN owned = {})
                 /\ owned' = [b \in DOMAIN owned \cup r |-> IF b \in r THEN ev.t ELSE owned[b]]
                 /\ UNCHANGED <<blocked, pending>>
            ELSE UNCHANGED <<owned, blocked, pending>>
       [] ev.e = "unclaim" ->
            LET r == Range(ev.idx, ev.count) IN
            /\ G("UnclaimOwn", ev.idx, \A b \in r : b \in DOMAIN owned /\ owned[b] = ev.t)
            /\ owned' = [b \in DOMAIN owned \ r |-> owned[b]]
            /\ UNCHANGED <<blocked, pending>>
       [] ev.e = "unclaimed" -> G("UnclaimSawAllSet", ev.t, ev.all) /\ UNCHANGED <<owned, blocked, pending>>
       [] ev.e = "final" ->
            /\ G("AllFreeAtEnd", Cardinality(WordsBits(ev.words) \ blocked), WordsBits(ev.words) = blocked \cup DOMAIN owned)
            /\ G("NothingBehindBitmap", 0, \A i \in 1..Len(ev.behind) : ev.behind[i] = 0)
            /\ G("NothingHeldAtEnd", Cardinality(DOMAIN owned), DOMAIN owned = {})
            /\ UNCHANGED <<owned, blocked, pending>>
       [] ev.e = "crash" -> G("NoCrash", ev.sig, FALSE) /\ UNCHANGED <<owned, blocked, pending>>
       [] ev.e \in {"end", "reset", "cfg"} -> UNCHANGED <<owned, blocked, pending>>
       [] OTHER -> FALSE
Spec == Init /\ [][Next]_vars
TraceAccepted == /\ PrintT(<<"TVDIAMETER", TLCGet("stats").diameter - 1>>) /\ TLCGet("stats").diameter - 1 = Len(Tr)
=============================================================================
