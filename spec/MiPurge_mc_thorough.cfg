SPECIFICATION Spec
CONSTANTS NA = 4
 NB = 2
 Delay = 2
 Budget = 2
 Variant = "fixed"
INVARIANT ModelValid
