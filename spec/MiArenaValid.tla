---------------------------- MODULE MiArenaValid ----------------------------
(***************************************************************************
  Well-formedness of the arena tables (src/arena.c) at a quiescent point: per arena the bitmaps
      inuse      blocks (32 MiB each) handed out; the bits behind the last block of the arena are permanently set
      purge      blocks scheduled for a delayed purge (decommit / reset)
      abandoned  blocks whose segment is abandoned
      dirty      blocks that were handed out at least once (memory that is not known to be zero)
  the arena's purge expiry (`set`, `rem` = expiry minus the current time in ms) and, for the whole process, the global
  purge expiry (`gset`, `grem`) and the arena purge delay (`delay` = purge_delay * arena_purge_mult, in ms).

  A dump D is a record [delay, gset, grem, after, arenas], `after` names the call that has just returned ("collect": a
  non-forced mi_collect, "fcollect": a forced one, "op": anything else); D.arenas is a sequence of records
  [blocks, bits, pinned, zero, set, rem, inuse, purge, abandoned, dirty] (the bitmaps as sets of bit indices; `zero`: the arena's
  memory was zero when the arena was created -- only then dirty bits are kept).

  ArenaFail(D) is "" if D is well-formed, otherwise the name of the first obligation that fails:
      TailBlocked            the bits behind the arena's last block are marked in use (nobody can be given memory behind the arena)
      BitsInside             purge / abandoned / dirty bits only for blocks of the arena
      PurgeNotInUse          a block that is scheduled for purging is not in use (purging never touches live data: C13)
      AbandonedInUse         an abandoned segment's blocks are in use (abandoned memory is not handed out again: C09)
      InUseDirty             a block in use is marked dirty (its memory is not assumed to be zero later: C04), in arenas that
                             started out with zero memory
      PinnedNoPurge          pinned arenas have nothing scheduled
      PurgeScheduled         blocks are scheduled for purging only with a positive delay, and then the arena has an expiry (C18)
      ExpireBounded          no expiry lies further in the future than the delay
      GlobalCoversArenas     if some arena has an expiry, the global expiry is set -- otherwise no ordinary activity would ever
                             look at the arenas again (C18; the defect repaired in /repo 1362dd2)
      AfterCollectNotDue     after mi_collect the global expiry is not due (the collect would have acted on it)
      AfterForcedCollectClean  after a forced collect no arena has anything scheduled any more (C11); the global expiry may stay set:
                             the visit of the last arena that purges something uses up the visit budget (harmless: the next
                             pass finds nothing and clears it)
 ***************************************************************************)
EXTENDS Integers, Sequences, FiniteSets

ArenaFailOne(D, a) ==
  LET inside == 0..(a.blocks - 1) IN
  IF ~((a.blocks..(a.bits - 1)) \subseteq a.inuse) THEN "TailBlocked"
  ELSE IF ~((a.purge \cup a.abandoned \cup a.dirty) \subseteq inside) THEN "BitsInside"
  ELSE IF a.purge \cap a.inuse # {} THEN "PurgeNotInUse"
  ELSE IF ~(a.abandoned \subseteq a.inuse) THEN "AbandonedInUse"
  ELSE IF a.zero /\ ~((a.inuse \cap inside) \subseteq a.dirty) THEN "InUseDirty"
  ELSE IF a.pinned /\ a.purge # {} THEN "PinnedNoPurge"
  ELSE IF a.purge # {} /\ ~(D.delay > 0 /\ a.set) THEN "PurgeScheduled"
  ELSE IF a.set /\ a.rem > D.delay THEN "ExpireBounded"
  ELSE ""

ArenaFail(D) ==
  LET n == Len(D.arenas)
      bad == {i \in 1..n : ArenaFailOne(D, D.arenas[i]) # ""}
  IN IF bad # {} THEN ArenaFailOne(D, D.arenas[CHOOSE i \in bad : \A j \in bad : i <= j])
     ELSE IF (\E i \in 1..n : D.arenas[i].set) /\ ~D.gset THEN "GlobalCoversArenas"
     ELSE IF D.gset /\ D.grem > D.delay THEN "ExpireBounded"
     ELSE IF D.after \in {"collect", "fcollect"} /\ D.delay > 0 /\ n > 0 /\ D.gset /\ D.grem <= 0 THEN "AfterCollectNotDue"
     ELSE IF D.after = "fcollect" /\ (\E i \in 1..n : D.arenas[i].set \/ D.arenas[i].purge # {}) THEN "AfterForcedCollectClean"
     ELSE ""
ArenaValid(D) == ArenaFail(D) = ""
=============================================================================
