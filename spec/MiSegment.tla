------------------------------ MODULE MiSegment ------------------------------
(***************************************************************************
  The slice table of a segment (src/segment.c): a segment is an array of `entries` slice entries (64 KiB each); spans of
  slices are either pages in use or free spans; the first span holds the segment's own meta data.  Every entry carries
      cnt  -- number of slices of the span (only in the first entry of a span, 0 elsewhere)
      off  -- distance (in entries) back to the first entry of the span
      use  -- 0 free, 1 in use
  plus, per segment, the commit mask and the purge mask (one bit per slice), and the counters `used` / `abandoned`.

  SegValid(s) is the well-formedness of one segment record; it is a transcription of the allocator's own debug-only
  check (mi_segment_is_valid) extended by the commit / purge obligations of C13 and C18:
      the spans tile the table exactly; a span in use has valid back offsets in its first MaxBack+1 entries and in its last
      entry (interior pointers find their page; coalescing finds the span start); a free span has a valid back offset in its
      last entry; no two free spans are adjacent in a segment that is owned (coalescing is complete); the number of spans in
      use is used + 1 (the meta-data span); abandoned <= used; the purge mask lies inside the commit mask; every slice of
      a page in use is committed and not scheduled for purging (normal segments); every block the program holds lies in a
      span in use.

  The module also contains a small executable model of the span operations (allocate with split, free with coalescing,
  commit on demand, schedule purge, purge) over a table of N entries; TLC checks that every reachable table satisfies
  SegValid (MiSegment_mc.cfg).  SegTrace.tla evaluates the same SegValid on slice tables dumped from the running
  allocator.
 ***************************************************************************)
EXTENDS MiSegValid

\* ---------------------------------------------------------------- a small model of the span operations
CONSTANTS N, Info       \* entries of the table, entries of the meta-data span
VARIABLES cnt, off, use, commit, purge, used, pages   \* pages: set of start indices of pages the program holds (each with a live block)
vars == <<cnt, off, use, commit, purge, used, pages>>

Rec == [kind |-> "normal", entries |-> N, info |-> Info, used |-> used, abandoned |-> 0, owned |-> TRUE,
        cnt |-> cnt, off |-> off, use |-> use, commit |-> commit, purge |-> purge,
        live |-> {<<p, p>> : p \in pages}]

\* write a span (start i, count c, in use or free) into the table, as mi_segment_span_allocate / mi_segment_span_free do
SetSpan(c0, o0, u0, i, c, inuse) ==
  LET cN == [k \in 1..N |-> IF k - 1 = i THEN c ELSE IF k - 1 > i /\ k - 1 < i + c THEN 0 ELSE c0[k]]
      oN == [k \in 1..N |-> IF k - 1 = i THEN 0
                            ELSE IF inuse /\ k - 1 > i /\ k - 1 < i + c /\ (k - 1 - i <= MaxBack \/ k - 1 = i + c - 1) THEN k - 1 - i
                            ELSE IF ~inuse /\ k - 1 = i + c - 1 THEN c - 1
                            ELSE o0[k]]
      uN == [k \in 1..N |-> IF k - 1 >= i /\ k - 1 < i + c /\ (inuse \/ k - 1 = i \/ k - 1 = i + c - 1) THEN (IF inuse THEN 1 ELSE 0) ELSE u0[k]]
  IN <<cN, oN, uN>>

Init ==
  LET t0 == SetSpan([k \in 1..N |-> 0], [k \in 1..N |-> 0], [k \in 1..N |-> 0], 0, Info, TRUE)
      t1 == SetSpan(t0[1], t0[2], t0[3], Info, N - Info, FALSE)
  IN cnt = t1[1] /\ off = t1[2] /\ use = t1[3] /\ commit = 0..(Info - 1) /\ purge = {} /\ used = 0 /\ pages = {}

FreeStarts == {i \in 0..(N - 1) : cnt[i + 1] > 0 /\ use[i + 1] = 0}
UsedStarts == {i \in Info..(N - 1) : cnt[i + 1] > 0 /\ use[i + 1] = 1}

\* allocate a page of c slices from the free span at i: split off the rest, commit on demand, cancel a pending purge of those slices
Alloc(i, c) ==
  /\ i \in FreeStarts /\ c >= 1 /\ c <= cnt[i + 1]
  /\ LET rest == cnt[i + 1] - c
         t1 == IF rest > 0 THEN SetSpan(cnt, off, use, i + c, rest, FALSE) ELSE <<cnt, off, use>>
         t2 == SetSpan(t1[1], t1[2], t1[3], i, c, TRUE)
     IN cnt' = t2[1] /\ off' = t2[2] /\ use' = t2[3]
  /\ commit' = commit \cup (i..(i + c - 1))
  /\ purge' = purge \ (i..(i + c - 1))
  /\ used' = used + 1 /\ pages' = pages \cup {i}

\* free the page at i: coalesce with free neighbours, schedule the slices for purging
Free(i) ==
  /\ i \in pages
  /\ LET c == cnt[i + 1]
         nxt == i + c
         withNext == nxt < N /\ use[nxt + 1] = 0 /\ cnt[nxt + 1] > 0
         c1 == IF withNext THEN c + cnt[nxt + 1] ELSE c
         prevStart == IF i > Info THEN (i - 1) - off[i] ELSE i          \* off[(i-1)+1] = back offset of the previous entry
         withPrev == i > Info /\ use[prevStart + 1] = 0 /\ cnt[prevStart + 1] > 0
         s2 == IF withPrev THEN prevStart ELSE i
         c2 == IF withPrev THEN c1 + cnt[prevStart + 1] ELSE c1
         t == SetSpan(cnt, off, use, s2, c2, FALSE)
     IN cnt' = t[1] /\ off' = t[2] /\ use' = t[3]
        /\ purge' = purge \cup ((i..(i + c - 1)) \cap commit)
  /\ used' = used - 1 /\ pages' = pages \ {i} /\ UNCHANGED commit

\* the purge of scheduled slices (decommit variant: they leave the commit mask; reset variant: they stay committed)
Purge(decommit) ==
  /\ purge # {}
  /\ commit' = IF decommit THEN commit \ purge ELSE commit
  /\ purge' = {} /\ UNCHANGED <<cnt, off, use, used, pages>>

Next == (\E i \in 0..(N - 1), c \in 1..N : Alloc(i, c)) \/ (\E i \in pages : Free(i)) \/ (\E d \in BOOLEAN : Purge(d))
Spec == Init /\ [][Next]_vars
ModelValid == SegValid(Rec)
ModelFailName == SegFail(Rec)
=============================================================================
