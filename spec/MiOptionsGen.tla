---------------------------- MODULE MiOptionsGen ----------------------------
(* Enumerates the value forms of the grammar of MiOptions (TLC prints one FORM tuple per form: the character codes,
   how Parse classifies it for an ordinary and for a size option, whether the parsed size is small (<= 64 MiB), and whether the form belongs to the always-run quick part).
   checks/c20.py turns the forms into environments for the real allocator; the expected results are NOT taken from
   here: OptsTrace re-parses the environment recorded by each run. *)
EXTENDS MiOptions
Small(p) == p.kind # "num" \/ Cmp(p.val.mag, NatOfInt(65536)) <= 0
ASSUME \A f \in AllFormsStr \cup QuickFormsStr :
         LET c == S(f) pn == Parse(FALSE, c) pk == Parse(TRUE, c) IN
         PrintT(<<"FORM", c, pn.kind, pk.kind, Small(pk), f \in QuickFormsStr>>)
GenNext == FALSE /\ UNCHANGED mcVars
=============================================================================
