------------------------------- MODULE MiAddr -------------------------------
(* Address arithmetic on pairs <<hi, lo>> = <<a \div 2^20, a % 2^20>> (TLC integers are 32 bit). *)
EXTENDS Integers, Sequences, FiniteSets, TLC
M == 1048576
Norm(h, l) == <<h + (l \div M), l % M>>
AddA(a, n) == Norm(a[1], a[2] + n)                 \* n < 2^30
AddP(a, p) == Norm(a[1] + p[1], a[2] + p[2])       \* p is a <<hi,lo>> length
LtA(a, b) == a[1] < b[1] \/ (a[1] = b[1] /\ a[2] < b[2])
LeA(a, b) == ~LtA(b, a)
DisjointR(a1, e1, a2, e2) == LeA(e1, a2) \/ LeA(e2, a1)     \* half-open ranges [a,e)
InsideR(a1, e1, a2, e2) == LeA(a2, a1) /\ LeA(e1, e2)       \* [a1,e1) inside [a2,e2)
IsPow2(x) == x > 0 /\ \E k \in 0..30 : x = 2^k
\* (a + off) is a multiple of al, for al a power of two up to 2^30
AlignedAt(a, off, al) ==
  IF al <= M THEN ((a[2] + off) % al) = 0
  ELSE LET s == Norm(a[1], a[2] + off) IN s[2] = 0 /\ (s[1] % (al \div M)) = 0

Min(x, y) == IF x < y THEN x ELSE y
Max(x, y) == IF x > y THEN x ELSE y

=============================================================================
