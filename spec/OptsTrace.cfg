SPECIFICATION TraceSpec
CONSTANTS
  Relaxed = TRUE
  BuildDebug = FALSE
  MCOpts = {1}
  MCEnvIds = {1}
  MCVals = {0}
  MaxOps = 0
INVARIANT Inv
POSTCONDITION TraceAccepted
CHECK_DEADLOCK FALSE
