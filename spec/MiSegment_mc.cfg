SPECIFICATION Spec
CONSTANTS
  N = 7
  Info = 1
INVARIANT ModelValid
CHECK_DEADLOCK FALSE
