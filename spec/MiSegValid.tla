----------------------------- MODULE MiSegValid -----------------------------
(* Well-formedness of one segment record (see MiSegment.tla for the description); pure operators, shared by the executable model of
   the span operations (MiSegment) and by the trace specification for slice-table dumps of the running allocator (SegTrace). *)
EXTENDS Integers, Sequences, FiniteSets, TLC

MaxBack == 255       \* MI_MAX_SLICE_OFFSET_COUNT: interior back offsets are maintained for this many entries

\* ---------------------------------------------------------------- well-formedness of one segment record
\* s: [kind, entries, info, used, abandoned, owned, cnt, off, use, commit, purge, live]   (cnt/off/use: sequences of length entries;
\*     commit/purge: sets of slice indices 0..entries-1; live: set of <<first slice, last slice>> of the program's blocks)
Cnt(s, i) == s.cnt[i + 1]
Off(s, i) == s.off[i + 1]
Use(s, i) == s.use[i + 1]
MaxIdx(s, i) == (IF i + Cnt(s, i) >= s.entries THEN s.entries ELSE i + Cnt(s, i)) - 1

UsedSpanOK(s, i) ==
  LET mx == MaxIdx(s, i) IN
  /\ \A k \in 0..(IF mx - i < MaxBack THEN mx - i ELSE MaxBack) :
        /\ Off(s, i + k) = k
        /\ (k = 0 \/ Cnt(s, i + k) = 0)
        /\ (k = 0 \/ Use(s, i + k) = 1)
  /\ LET last == i + Cnt(s, i) - 1 IN          \* (a huge page may reach beyond the table: only entries inside it are demanded)
     (last > i /\ last < s.entries) => (Off(s, last) = last - i /\ Cnt(s, last) = 0 /\ Use(s, last) = 1)

FreeSpanOK(s, i) ==
  LET mx == MaxIdx(s, i) IN
  /\ (s.kind # "huge" => Off(s, mx) = mx - i)
  /\ (mx = i \/ Cnt(s, mx) = 0)
  /\ (Use(s, mx) = 0 \/ s.kind = "huge")

RECURSIVE SpanStarts(_, _)
SpanStarts(s, i) == IF i >= s.entries \/ Cnt(s, i) <= 0 THEN <<>> ELSE <<i>> \o SpanStarts(s, MaxIdx(s, i) + 1)
Tiles(s) == LET st == SpanStarts(s, 0) IN
            st # <<>> /\ MaxIdx(s, st[Len(st)]) + 1 = s.entries
SpanSlices(s, i) == i..MaxIdx(s, i)

SegFail(s) ==          \* the name of the first obligation that fails ("" if none): one pass, usable as guard detail
  LET st == SpanStarts(s, 0)
      starts == {st[k] : k \in 1..Len(st)}
      usedSt == {i \in starts : Use(s, i) = 1}
      freeSt == starts \ usedSt
  IN
  IF ~Tiles(s) THEN "Tiles"
  ELSE IF \E i \in starts : Off(s, i) # 0 THEN "SpanStartOffset"
  ELSE IF \E i \in usedSt : ~UsedSpanOK(s, i) THEN "UsedSpanBackOffsets"
  ELSE IF \E i \in freeSt : ~FreeSpanOK(s, i) THEN "FreeSpanLastEntry"
  ELSE IF s.owned /\ s.kind # "huge" /\ (\E i \in freeSt : MaxIdx(s, i) + 1 \in freeSt) THEN "CoalescingComplete"
  ELSE IF Cardinality(usedSt) # s.used + 1 THEN "UsedCount"
  ELSE IF s.abandoned > s.used THEN "AbandonedCount"
  ELSE IF ~(s.purge \subseteq s.commit) THEN "PurgeInsideCommit"
  ELSE IF s.kind # "huge" /\ (\E i \in usedSt : ~(SpanSlices(s, i) \subseteq s.commit)) THEN "UsedIsCommitted"
  ELSE IF s.kind # "huge" /\ (\E i \in usedSt : SpanSlices(s, i) \cap s.purge # {}) THEN "PurgeAvoidsUsed"
  ELSE IF \E b \in s.live : ~(\E i \in usedSt : i > 0 /\ b[1] >= i /\ b[2] <= (IF s.kind = "huge" THEN b[2] ELSE MaxIdx(s, i))) THEN "LiveInsideUsedSpan"
  ELSE ""
SegValid(s) == SegFail(s) = ""

=============================================================================
