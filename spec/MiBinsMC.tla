------------------------------ MODULE MiBinsMC ------------------------------
(***************************************************************************
  Theorems of property C16 over the transcribed arithmetic (MiBins), evaluated by TLC over the
  whole finite domain.  The "behaviour" is an enumeration: one state per point of the domain, the
  invariant of the mode is the conjunction of the theorems at that point, so TLC's state count is
  the number of points evaluated.  A domain is split into chunks [Lo, Hi] that run as parallel
  TLC processes.

    Mode = "size" : n = Lo..Hi are request sizes (0 .. 2*MI_MEDIUM_OBJ_SIZE_MAX + 1)
    Mode = "addr" : n = Lo..Hi are bins (1..72); for the bin's block size every page position class and
                    (Full = TRUE) every address of the page / (Full = FALSE) block indices {0,1,2,last} x
                    interior offsets {0,1,bs/2,bs-1}; fast divide for every block offset of the heap walk
    Mode = "slice": n = Lo..Hi are slice counts (0..512)
 ***************************************************************************)
EXTENDS MiBins

CONSTANTS Mode, Lo, Hi, Full

VARIABLE n

Init == n = Lo
Next == n < Hi /\ n' = n + 1
Spec == Init /\ [][Next]_n

\* ---------------------------------------------------------------- request sizes
Pads == {0, 8}      \* MI_PADDING_SIZE of release and of debug/secure builds

BlockAtLeastRequest(x) == x <= MediumObjMax => BinSize(Bin(x)) >= x
BinInRange(x) == Bin(x) \in 1..BinHuge
BinMonotone(x) == Bin(x) <= Bin(x + 1)
\* internal fragmentation at most 25% above 64 bytes: the waste is at most a quarter of the request
Fragmentation25(x) == (x > 64 /\ x <= MediumObjMax) => (BinSize(Bin(x)) - x) * 4 <= x
GoodAtLeast(x) == GoodSize(x) >= x
GoodIdempotent(x) == GoodSize(GoodSize(x)) = GoodSize(x)
\* the block that serves mi_malloc(x) holds the request (and the padding of the build)
ChosenAtLeast(x) == \A pad \in Pads : ChosenBlockSize(x, pad) >= x + pad
\* release build: usable size of mi_malloc(x) = block size of its page = mi_good_size(x) for small and medium x
GoodIsChosen(x) == x <= MediumObjMax => GoodSize(x) = ChosenBlockSize(x, 0)
\* padded builds: mi_good_size includes the padding; a request that fills the block exactly maps to the same size
GoodPaddedOK(x) ==
  LET g == GoodSizeP(x, 8) IN g >= x + 8 /\ GoodSizeP(g - 8, 8) = g
\* every size class is its own fixed point (the classes are exactly the good sizes)
ClassFixed(x) == x <= MediumObjMax => Bin(BinSize(Bin(x))) = Bin(x)

SizeTheorems ==
  /\ BinInRange(n) /\ BlockAtLeastRequest(n) /\ BinMonotone(n) /\ Fragmentation25(n)
  /\ GoodAtLeast(n) /\ GoodIdempotent(n) /\ ChosenAtLeast(n) /\ GoodIsChosen(n) /\ GoodPaddedOK(n) /\ ClassFixed(n)

\* ---------------------------------------------------------------- span bins
SliceTheorems ==
  /\ SliceBin(n) \in 0..SegmentBinMax
  /\ (n < SlicesPerSegment => SliceBin(n) <= SliceBin(n + 1))
  /\ (n >= 1 => SliceBin(n) >= 1)          \* only the empty span is in bin 0

\* ---------------------------------------------------------------- address arithmetic of one bin's block size
PageBytes(bs) == IF bs <= SmallObjMax THEN SmallPageSize ELSE IF bs <= MediumObjMax THEN MediumPageSize ELSE AlignUp(bs, SliceSize)
\* residues (slice start address) % bs over all slice positions of a segment (segments are 32 MiB aligned)
Residues(bs) == {(k * (SliceSize % bs)) % bs : k \in 0..(SlicesPerSegment - 1)}

PageStartOK(bs, pm) ==
  LET ps == PageBytes(bs)
      so == StartOffset(bs, pm, ps)
  IN  /\ so % MaxAlignSize = 0
      /\ so + bs <= ps                                          \* at least one block fits
      \* blocks are block-size aligned (segment.c l.352) for the block sizes mi_bin can select on this configuration
      \* (24, 40 and 56 bytes are never selected under MI_ALIGN2W)
      /\ ((bs <= MaxAlignGuarantee /\ BinSize(Bin(bs)) = bs) => (pm + so) % bs = 0)

SampleIdx(res) == {0, 1, 2, res - 1} \cap 0..(res - 1)
SampleOff(bs) == {0, 1, bs \div 2, bs - 1}

UnalignOK(bs, pm) ==
  LET ps  == PageBytes(bs)
      so  == StartOffset(bs, pm, ps)          \* page_start relative to the slice start
      res == (ps - so) \div bs
      sh  == BlockShift(bs)
  IN  IF Full
      THEN \A p \in so..(so + res * bs - 1) : Unalign(so, bs, sh, p) = TrueBlockStart(so, bs, p)
      ELSE \A i \in SampleIdx(res) : \A o \in SampleOff(bs) :
             Unalign(so, bs, sh, so + i * bs + o) = so + i * bs

\* the heap walk divides the offset of every block of the page by the block size
FastDivOK(bs, pm) ==
  LET ps  == PageBytes(bs)
      so  == StartOffset(bs, pm, ps)
      res == (ps - so) \div bs
  IN  \A i \in (IF Full THEN 0..res ELSE SampleIdx(res) \cup {res}) : FastDiv(i * bs, bs) = i

\* a page of cnt slices at slice s: every interior address maps back to slice s (cnt <= 256 = large page maximum)
PageOfOK(bs) ==
  LET cnt == PageBytes(bs) \div SliceSize IN
  \A s \in {1, 2, 255, 256, SlicesPerSegment - cnt} \cap 1..(SlicesPerSegment - cnt) :
    \A j \in 0..(cnt - 1) : \A o \in {0, 1, SliceSize - 1} :
      /\ PageSliceOf(s, cnt, (s + j) * SliceSize + o) = s
      /\ SegBaseOf((s + j) * SliceSize + o) = 0

AddrTheorems ==
  LET bs == BinSize(n) IN
  /\ BlockShift(bs) # 0 <=> IsPow2(bs)
  /\ (BlockShift(bs) # 0 => 2^BlockShift(bs) = bs)
  /\ \A pm \in (IF bs <= MaxAlignGuarantee THEN Residues(bs) ELSE {0}) : PageStartOK(bs, pm) /\ UnalignOK(bs, pm)
  /\ FastDivOK(bs, 0)
  /\ PageOfOK(bs)

Theorems ==
  CASE Mode = "size" -> SizeTheorems
    [] Mode = "slice" -> SliceTheorems
    [] Mode = "addr" -> AddrTheorems

\* align/divide helpers on a grid (evaluated once per process)
ASSUME \A al \in {1, 2, 8, 16, 24, 48, 80, 4096, 12288, 65536} : \A sz \in {0, 1, al - 1, al, al + 1, 5 * al - 1, 5 * al, 70001} :
         /\ AlignUp(sz, al) >= sz /\ AlignUp(sz, al) - sz < al /\ AlignUp(sz, al) % al = 0
         /\ AlignDown(sz, al) <= sz /\ sz - AlignDown(sz, al) < al /\ AlignDown(sz, al) % al = 0
         /\ DivideUp(sz, al) * al >= sz /\ DivideUp(sz, al) * al < sz + al
ASSUME ~MulOverflowsBN(BNFromL20(<<0, 0, 4095, 1048575>>), BNFromL20(<<0, 0, 4096, 1>>))     \* (2^32-1)*(2^32+1) = 2^64-1
ASSUME MulOverflowsBN(BNFromL20(<<0, 0, 4096, 0>>), BNFromL20(<<0, 0, 4096, 0>>))                  \* 2^32 * 2^32
=============================================================================
