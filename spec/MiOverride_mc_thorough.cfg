SPECIFICATION MCSpec
CONSTANTS
  Relaxed = FALSE
  HasCfree = FALSE
  Cells = 4
  Sizes = {1, 24, 1000, 20000, 200000, 3000000}
  Aligns = {16, 64, 4096, 131072}
  Page = 4096
INVARIANT MCInv
INVARIANT DoneClean
INVARIANT GenEmit
CHECK_DEADLOCK TRUE
