SPECIFICATION Spec
CONSTANTS
  W = 4
  F = 3
  Threads = {t1, t2, t3}
  Counts = {1, 3, 6}
  MaxClaims = 1
  Blocked = {10, 11}
  Purgers = {}
INVARIANTS BitsAccounted OwnedBitsSet AllFreeAtEnd BlockedStay
CHECK_DEADLOCK FALSE
