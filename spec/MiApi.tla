------------------------------- MODULE MiApi -------------------------------
(***************************************************************************
  Property-level (Tier P) specification of the mimalloc public API.

  State = what a *program* can know: the set of live blocks with their address ranges
  (usable bytes), requested size, owning heap, content generation, written extent and
  zero-lineage; first-class heaps; per-thread default heap; managed arenas; the call in
  flight of every thread.

  Every action takes an event record.  In trace validation (ApiTrace.tla) the record is a
  line of the implementation's trace, so the guards CHECK what the allocator did.  In
  model checking / behaviour generation (MiApiMC.tla) the record is chosen from a small
  abstract domain, so the same guards CONSTRAIN an abstract allocator; TLC then checks the
  state invariants below in every reachable state and generates API programs.

  The spec is deliberately nondeterministic over everything the properties leave open:
  which address is returned, whether a realloc moves, which page/segment is used.

  Addresses are pairs <<hi, lo>> = <<a \div 2^20, a % 2^20>> because TLC integers are 32 bit.
 ***************************************************************************)
EXTENDS MiAddr

CONSTANTS Relaxed      \* TRUE: a failing guard prints GUARDFAIL and lets the behaviour continue (one-pass diagnosis)

VARIABLES
  live,      \* [block id -> block record]
  heaps,     \* [heap id -> [t : thread, backing : BOOLEAN, arena : arena id or 0, desc : block id or 0]]
  dflt,      \* [thread -> heap id]  current default heap
  backing,   \* [thread -> heap id]  backing heap
  flux,      \* [thread -> call record] the call in flight (or NoCall)
  arenas,    \* [arena id -> [a, e, excl]]
  osfail,    \* [thread -> <<refused, mapped>>] during the thread's current call an OS request was refused / new memory was mapped
  cfg,       \* configuration record of the run (build, padding, options)
  aux,       \* [m : <<max page areas in the first half, in the second half>> of a producer/consumer run (C08 NoBlowUp),
             \*  groups : [group id -> bulk-allocated blocks as an address-sorted sequence of <<hi, lo, usable>> + their gen / written extent]]
  step       \* number of events consumed (position in the trace)

apiVars == <<live, heaps, dflt, backing, flux, arenas, osfail, cfg, aux, step>>

NoCall == [op |-> "none"]

\* ---------------------------------------------------------------- guards with diagnosis
G(name, cond) == IF cond THEN TRUE ELSE (Relaxed /\ PrintT(<<"GUARDFAIL", name, step + 1>>))
GD(name, detail, cond) == IF cond THEN TRUE ELSE (Relaxed /\ PrintT(<<"GUARDFAIL", name, step + 1, detail>>))

\* ---------------------------------------------------------------- operation families
AllocOps == {"malloc", "zalloc", "calloc", "mallocn", "malloc_small", "zalloc_small",
             "malloc_aligned", "malloc_aligned_at", "zalloc_aligned", "zalloc_aligned_at",
             "calloc_aligned", "calloc_aligned_at", "posix_memalign", "memalign", "aligned_alloc",
             "valloc", "pvalloc", "strdup", "strndup", "realpath", "new", "new_aligned", "new_nothrow",
             "new_aligned_nothrow", "new_n",
             "heap_malloc", "heap_zalloc", "heap_calloc", "heap_mallocn", "heap_malloc_small",
             "heap_malloc_aligned", "heap_malloc_aligned_at", "heap_zalloc_aligned", "heap_zalloc_aligned_at",
             "heap_calloc_aligned", "heap_calloc_aligned_at", "heap_strdup", "heap_strndup", "heap_realpath",
             "heap_alloc_new", "heap_alloc_new_n"}
ReallocOps == {"realloc", "reallocn", "reallocf", "reallocarray", "reallocarr", "rezalloc", "recalloc",
               "realloc_aligned", "realloc_aligned_at", "rezalloc_aligned", "rezalloc_aligned_at",
               "recalloc_aligned", "recalloc_aligned_at", "new_realloc", "new_reallocn",
               "heap_realloc", "heap_reallocn", "heap_reallocf", "heap_rezalloc", "heap_recalloc",
               "heap_realloc_aligned", "heap_realloc_aligned_at", "heap_rezalloc_aligned",
               "heap_rezalloc_aligned_at", "heap_recalloc_aligned", "heap_recalloc_aligned_at"}
FreeOps == {"free", "free_size", "free_size_aligned", "free_aligned", "cfree"}
ZeroingReallocOps == {"rezalloc", "recalloc", "rezalloc_aligned", "rezalloc_aligned_at", "recalloc_aligned",
                      "recalloc_aligned_at", "heap_rezalloc", "heap_recalloc", "heap_rezalloc_aligned",
                      "heap_rezalloc_aligned_at", "heap_recalloc_aligned", "heap_recalloc_aligned_at"}
FreeingOnFailOps == {"reallocf", "heap_reallocf"}
QueryOps == {"usable_size", "good_size", "heap_contains_block", "heap_check_owned", "check_owned",
             "is_in_heap_region", "expand"}
HeapOps == {"heap_new", "heap_new_in_arena", "heap_delete", "heap_destroy", "heap_set_default",
            "heap_get_default", "heap_get_backing", "heap_collect", "collect", "visit", "visit_abandoned"}

\* heap a call allocates from: explicit heap, else the thread's default
HeapOf(c) == IF c.h > 0 THEN c.h ELSE dflt[c.t]

LiveIds == DOMAIN live
LiveOfHeap(h) == {b \in LiveIds : live[b].h = h}

\* ---------------------------------------------------------------- initial state
ApiInit ==
  /\ live = <<>>
  /\ heaps = (1 :> [t |-> 0, backing |-> TRUE, arena |-> 0, desc |-> 0])
  /\ dflt = (0 :> 1)
  /\ backing = (0 :> 1)
  /\ flux = (0 :> NoCall)
  /\ arenas = <<>>
  /\ osfail = (0 :> <<FALSE, FALSE>>)
  /\ cfg = [build |-> "rel", padding |-> FALSE]
  /\ aux = [m |-> <<0, 0>>, groups |-> <<>>]
  /\ step = 0

\* ---------------------------------------------------------------- observations of contents
\* obs is a sequence of <<id, gen, n>>: "the first n bytes of block id carry the pattern of generation gen"
\* (the driver compares up to the written extent, so n = wr means everything the program wrote is intact)
ObsOKIn(L, obs) ==
  \A i \in 1..Len(obs) :
    LET o == obs[i] IN
      /\ GD("ObsOfLiveBlock", o[1], o[1] \in DOMAIN L)
      /\ (o[1] \in DOMAIN L =>
            /\ GD("ContentsKept.gen", o[1], o[2] = L[o[1]].gen)
            /\ GD("ContentsKept.bytes", o[1], o[3] >= L[o[1]].wr))
ObsOK(obs) == ObsOKIn(live, obs)

\* ---------------------------------------------------------------- new block checks (C01, C03, C04, C15)
DefaultAlign(n) == IF n >= 16 THEN 16 ELSE 8

\* ---- bulk groups: blocks allocated in one go to fill whole pages, kept as one address-sorted sequence of <<hi, lo, usable>>
GAddr(m) == <<m[1], m[2]>>
GEnd(m) == AddA(<<m[1], m[2]>>, m[3])
RECURSIVE BSearch(_, _, _, _)
\* largest index i in lo..hi with member i starting at or before x (lo - 1 if none)
BSearch(seq, lo, hi, x) == IF lo > hi THEN lo - 1
                           ELSE LET mid == (lo + hi) \div 2 IN
                                IF LeA(GAddr(seq[mid]), x) THEN BSearch(seq, mid + 1, hi, x) ELSE BSearch(seq, lo, mid - 1, x)
\* does [a, e) intersect a member of the sorted sequence (or start exactly at one)?
HitsSeq(seq, a, e) == LET n == Len(seq) i == BSearch(seq, 1, n, a) IN
                        \/ (i >= 1 /\ (LtA(a, GEnd(seq[i])) \/ GAddr(seq[i]) = a))
                        \/ (i + 1 <= n /\ LtA(GAddr(seq[i + 1]), e))
Groups == aux.groups
HitsGroups(a, e) == \E g \in DOMAIN Groups : HitsSeq(Groups[g].blocks, a, e)

\* disjoint usable ranges, and distinct addresses even for zero-size blocks (whose usable range may be empty)
NoOverlap(a, e) == (\A b \in LiveIds : DisjointR(a, e, live[b].a, live[b].e) /\ live[b].a # a) /\ ~HitsGroups(a, e)

ArenaOf(h) == IF h \in DOMAIN heaps THEN heaps[h].arena ELSE 0

\* C15: a block of a heap bound to arena k lies inside k; a block inside an exclusive arena belongs to a heap bound to it
ArenaOK(h, a, e) ==
  /\ (ArenaOf(h) # 0 /\ ArenaOf(h) \in DOMAIN arenas =>
        G("BoundHeapInsideArena", InsideR(a, e, arenas[ArenaOf(h)].a, arenas[ArenaOf(h)].e)))
  /\ \A k \in DOMAIN arenas :
        (arenas[k].excl /\ ~DisjointR(a, e, arenas[k].a, arenas[k].e)) =>
            G("ExclusiveStaysPrivate", ArenaOf(h) = k)

\* c = call record, r = return record (non-NULL result)
NewBlockOK(c, r, h) ==
  LET e == AddA(r.a, r.us) IN
  /\ G("UsableAtLeastRequested", r.us >= c.n)
  /\ G("AlignOK", AlignedAt(r.a, c.off, IF c.al > 0 THEN c.al ELSE DefaultAlign(c.n)))
  /\ G("NoOverlap", NoOverlap(r.a, e))
  /\ (c.zero => G("ZeroOK", r.z >= c.n))
  /\ ArenaOK(h, r.a, e)

MkBlock(c, r, h, zl) ==
  [a |-> r.a, e |-> AddA(r.a, r.us), us |-> r.us, req |-> c.n, h |-> h, gen |-> r.gen, wr |-> r.wr,
   zl |-> zl /\ r.wr <= c.n, al |-> c.al, off |-> c.off, kind |-> "blk"]

\* ---------------------------------------------------------------- Call: a thread enters the API
Call(c) ==
  /\ c.t \in DOMAIN flux /\ flux[c.t] = NoCall
  /\ step' = step + 1
  /\ osfail' = [osfail EXCEPT ![c.t] = <<FALSE, FALSE>>]
  /\ ObsOK(c.obs)
  /\ CASE c.op \in FreeOps ->
            /\ G("FreeOfLiveBlock", c.id \in LiveIds)
            /\ flux' = [flux EXCEPT ![c.t] = c]
            /\ live' = [b \in LiveIds \ {c.id} |-> live[b]]      \* from now on the range may be reused
            /\ UNCHANGED <<heaps, dflt, backing, arenas, cfg, aux>>
       [] c.op \in ReallocOps /\ c.id > 0 ->
            /\ G("ReallocOfLiveBlock", c.id \in LiveIds)
            /\ flux' = [flux EXCEPT ![c.t] = [old |-> IF c.id \in LiveIds THEN live[c.id] ELSE NoCall] @@ c]
            /\ live' = [b \in LiveIds \ {c.id} |-> live[b]]      \* in flux: may be freed inside the call
            /\ UNCHANGED <<heaps, dflt, backing, arenas, cfg, aux>>
       [] c.op = "heap_destroy" ->
            \* all blocks of the heap die (and its descriptor block)
            /\ G("DestroyOfLiveHeap", c.h \in DOMAIN heaps /\ ~heaps[c.h].backing)
            /\ flux' = [flux EXCEPT ![c.t] = c]
            /\ live' = [b \in {x \in LiveIds : live[x].h # c.h /\ x # heaps[c.h].desc} |-> live[b]]
            /\ UNCHANGED <<heaps, dflt, backing, arenas, cfg, aux>>
       [] c.op = "heap_delete" ->
            /\ G("DeleteOfLiveHeap", c.h \in DOMAIN heaps /\ ~heaps[c.h].backing)
            /\ flux' = [flux EXCEPT ![c.t] = c]
            /\ live' = [b \in LiveIds \ {heaps[c.h].desc} |-> live[b]]   \* the descriptor block is released
            /\ UNCHANGED <<heaps, dflt, backing, arenas, cfg, aux>>
       [] OTHER ->
            /\ flux' = [flux EXCEPT ![c.t] = c]
            /\ UNCHANGED <<live, heaps, dflt, backing, arenas, cfg, aux>>

\* ---------------------------------------------------------------- Ret: the call returns
\* A NULL result of an allocating call is legitimate only for a malformed / oversized request class,
\* after an OS refusal during the call, or for a heap bound to an arena (arena exhausted).
NullAllowed(c) == c.cls # "ok" \/ osfail[c.t][1] \/ ArenaOf(HeapOf(c)) # 0

RetAlloc(c, r) ==
  /\ UNCHANGED <<heaps, dflt, backing, arenas, cfg, aux>>
  /\ IF r.null
     THEN /\ GD("WellFormedSucceeds", c.op, NullAllowed(c))
          \* C15: a heap bound to an arena reports exhaustion with NULL and does not fall back to the operating system
          /\ ((ArenaOf(HeapOf(c)) # 0 /\ c.cls = "ok" /\ ~osfail[c.t][1]) => GD("FullGivesNull", c.op, ~osfail[c.t][2]))
          /\ (c.cls = "einval" => GD("ErrCode", c.op, r.rc = 22))
          /\ (c.cls = "enomem" /\ c.op = "posix_memalign" => GD("ErrCode", c.op, r.rc = 12))
          /\ (c.op = "posix_memalign" => GD("OutParamUnchanged", c.op, r.outkeep))
          /\ UNCHANGED live
     ELSE /\ GD("MalformedFailsCleanly", c.op, c.cls \in {"ok", "huge-ok"})
          /\ (c.op = "posix_memalign" => GD("ErrCode", c.op, r.rc = 0))
          /\ NewBlockOK(c, r, HeapOf(c))
          /\ live' = live @@ (r.id :> MkBlock(c, r, HeapOf(c), c.zero))

RetFree(c, r) == UNCHANGED <<live, heaps, dflt, backing, arenas, cfg, aux>>

\* C05 / C04: realloc family.  old = the block record captured at Call (or NoCall when p = NULL)
RetRealloc(c, r) ==
  LET old == c.old
      hasOld == c.id > 0 /\ old # NoCall
      h == IF c.h > 0 THEN c.h ELSE dflt[c.t]
  IN
  /\ UNCHANGED <<heaps, dflt, backing, arenas, cfg, aux>>
  /\ IF r.null
     THEN /\ GD("WellFormedSucceeds", c.op, NullAllowed(c))
          /\ (c.cls = "overflow" /\ c.op \in {"reallocarray", "reallocarr"} => GD("ErrCode", c.op, r.errno \in {12, 75}))
          /\ (c.op = "reallocarr" => GD("OutParamUnchanged", c.op, r.outkeep))      \* the caller's pointer still designates the original block
          /\ IF hasOld /\ c.op \notin FreeingOnFailOps
             THEN \* the original block is untouched and still valid
                  /\ GD("FailedReallocKeepsOld", c.op, r.keep >= old.wr)
                  /\ live' = live @@ (c.id :> old)
             ELSE UNCHANGED live
     ELSE LET e == AddA(r.a, r.us)
              sameAddr == hasOld /\ r.a = old.a
              keepNeed == IF hasOld THEN Min(Min(old.wr, old.req), c.n) ELSE 0
              \* the new block's heap: in place keeps the block where it is
              nh == IF sameAddr THEN old.h ELSE h
              zl == c.op \in ZeroingReallocOps /\ (IF hasOld THEN old.zl /\ c.n >= old.req ELSE TRUE)
          IN
          /\ GD("MalformedFailsCleanly", c.op, c.cls \in {"ok", "huge-ok"})
          /\ G("UsableAtLeastRequested", r.us >= c.n)
          /\ G("NoOverlap", NoOverlap(r.a, e))
          /\ (hasOld /\ ~sameAddr => G("MovedDisjointFromOld", DisjointR(r.a, e, old.a, old.e)))
          /\ (hasOld => GD("ReallocKeepsPrefix", c.op, r.keep >= keepNeed))
          \* re-allocating with the same alignment (and offset) keeps it: demanded when the old block had that alignment
          \* (or p = NULL); the variants without offset re-use the old pointer's residue (upstream semantics)
          \* (the variants with an explicit offset use exactly the requested alignment and offset, whatever the old address was;
          \*  the plain aligned variants re-use the old pointer's residue, so for them the demand needs an old address that satisfies it)
          /\ ((c.al > 0 /\ (~hasOld \/ (c.at /\ c.al > 8) \/ AlignedAt(old.a, c.off, c.al))) => G("AlignKeptByRealloc", AlignedAt(r.a, c.off, c.al)))     \* (alignments up to a word with a compatible offset go through the plain re-allocation)
          /\ ((c.al = 0 /\ ~sameAddr) => G("AlignOK", AlignedAt(r.a, 0, DefaultAlign(c.n))))
          /\ ((c.op \in ZeroingReallocOps /\ ~hasOld) => G("ZeroOK", r.z >= c.n))
          /\ ((c.op \in ZeroingReallocOps /\ hasOld /\ old.zl /\ c.n > old.req) =>
                 GD("ZeroGrowOK", c.op, old.req + r.z >= c.n))
          /\ ArenaOK(nh, r.a, e)
          /\ live' = live @@ (r.id :> [a |-> r.a, e |-> e, us |-> r.us, req |-> c.n, h |-> nh, gen |-> r.gen,
                                        wr |-> r.wr, zl |-> zl /\ r.wr <= c.n, al |-> c.al, off |-> c.off, kind |-> "blk"])

\* mi_expand never moves; succeeds exactly up to the usable size (builds with padding: always NULL)
RetExpand(c, r) ==
  /\ UNCHANGED <<live, heaps, dflt, backing, arenas, cfg, aux>>
  /\ G("QueryOfLiveBlock", c.id \in LiveIds)
  /\ (c.id \in LiveIds =>
        IF r.null THEN G("ExpandSucceedsUpToUsable", cfg.padding \/ c.n > live[c.id].us)
        ELSE /\ G("ExpandNeverMoves", r.a = live[c.id].a)
             /\ G("ExpandWithinUsable", c.n <= live[c.id].us))

RetQuery(c, r) ==
  /\ UNCHANGED <<live, heaps, dflt, backing, arenas, cfg, aux>>
  /\ CASE c.op = "usable_size" ->
            /\ G("QueryOfLiveBlock", c.id \in LiveIds)
            /\ (c.id \in LiveIds => G("UsableStable", r.us = live[c.id].us))
       [] c.op = "good_size" -> G("GoodSizeAtLeast", r.us >= c.n)
       [] c.op = "heap_contains_block" ->
            /\ G("QueryOfLiveBlock", c.id \in LiveIds)
            /\ (c.id \in LiveIds => GD("OwnershipQuery", c.op, r.res = (live[c.id].h = c.h)))
       [] c.op = "heap_check_owned" ->     \* (documented: only word-aligned pointers are considered)
            /\ G("QueryOfLiveBlock", c.id \in LiveIds)
            /\ ((c.id \in LiveIds /\ live[c.id].a[2] % 8 = 0) => GD("OwnershipQuery", c.op, r.res = (live[c.id].h = c.h)))
       [] c.op = "check_owned" ->
            /\ G("QueryOfLiveBlock", c.id \in LiveIds)
            /\ ((c.id \in LiveIds /\ live[c.id].a[2] % 8 = 0) => GD("OwnershipQuery", c.op, r.res = (live[c.id].h = dflt[c.t])))
       [] c.op = "is_in_heap_region" -> TRUE    \* upstream tracks OS segments only below 48 TiB: no demand
       [] OTHER -> TRUE

\* C12: the walk reports exactly the live blocks of the heap
Encloses(v, b) == LeA(<<v[1], v[2]>>, live[b].a) /\ LeA(live[b].e, AddA(<<v[1], v[2]>>, v[3]))
VisitOK(c, r) ==
  LET hb == LiveOfHeap(c.h)
      n == Len(r.blocks)
      hg == {g \in DOMAIN Groups : Groups[g].h = c.h}           \* bulk groups of this heap
      ng == IF hg = {} THEN 0 ELSE LET RECURSIVE Sum(_) Sum(S) == IF S = {} THEN 0 ELSE LET x == CHOOSE x \in S : TRUE IN Len(Groups[x].blocks) + Sum(S \ {x}) IN Sum(hg)
      \* a reported range that encloses exactly one member of a bulk group
      IsMember(v) == \E g \in hg : LET sq == Groups[g].blocks
                                         ve == AddA(<<v[1], v[2]>>, v[3])
                                         i == BSearch(sq, 1, Len(sq), AddA(<<v[1], v[2]>>, IF v[3] > 0 THEN v[3] - 1 ELSE 0))   \* last member starting inside the range
                                     IN i >= 1 /\ LeA(<<v[1], v[2]>>, GAddr(sq[i])) /\ LeA(GEnd(sq[i]), ve)
                                        /\ (i = 1 \/ LeA(GEnd(sq[i - 1]), <<v[1], v[2]>>))                                        \* ... and no other member reaches into it
  IN IF c.n = 1
     THEN \* C08 quiescence: everything of this heap was freed (by whichever threads) and the owner force-collected
          /\ GD("QuiescentClean", <<Cardinality(hb), n, Len(r.areas)>>, hb = {} => (n = 0 /\ Len(r.areas) = 0))
     ELSE IF c.stopat > 0
     THEN \* the visitor returned false at its stopat-th block: the walk stops right there (no further call of the visitor)
          /\ G("StopsWhenFalse", r.nvisited = Min(c.stopat, Cardinality(hb) + ng) /\ (Cardinality(hb) + ng >= c.stopat => ~r.res) /\ r.after = 0)
     ELSE IF c.stopat < 0
     THEN \* the visitor returned false at its |stopat|-th area announcement: no block of that area, no further area
          /\ G("StopsWhenFalse", r.after = 0 /\ (r.nareas >= 0 - c.stopat => (~r.res /\ r.nareas = 0 - c.stopat)))
     ELSE /\ GD("WalkCount", <<n, Cardinality(hb), ng>>, n = Cardinality(hb) + ng)
          /\ G("WalkEveryLiveOnce", \A b \in hb : Cardinality({i \in 1..n : Encloses(r.blocks[i], b)}) = 1)
          /\ G("WalkOnlyLive", \A i \in 1..n : (ng > 0 /\ IsMember(r.blocks[i])) \/ Cardinality({b \in hb : Encloses(r.blocks[i], b)}) = 1)
          /\ G("WalkEveryLiveOnce", Cardinality({<<r.blocks[i][1], r.blocks[i][2]>> : i \in 1..n}) = n)       \* no range is reported twice
          /\ G("WalkRangesDisjoint", n > 400 \/ \A i, j \in 1..n : i < j =>
                   DisjointR(<<r.blocks[i][1], r.blocks[i][2]>>, AddA(<<r.blocks[i][1], r.blocks[i][2]>>, r.blocks[i][3]),
                             <<r.blocks[j][1], r.blocks[j][2]>>, AddA(<<r.blocks[j][1], r.blocks[j][2]>>, r.blocks[j][3])))
          \* per area: used = number of live blocks lying in the area  (area = <<hi, lo, lenhi, lenlo, used, bsize>>)
          /\ \A k \in 1..Len(r.areas) :
               LET ar == r.areas[k]
                   aa == <<ar[1], ar[2]>>
                   ae == AddP(aa, <<ar[3], ar[4]>>)
               IN GD("AreaUsedCount", k, ng > 0 \/ ar[5] = Cardinality({b \in hb : InsideR(live[b].a, live[b].e, aa, ae)}))
          /\ G("AreasCoverAll", \A b \in hb : \E k \in 1..Len(r.areas) :
                   LET ar == r.areas[k] aa == <<ar[1], ar[2]>> IN InsideR(live[b].a, live[b].e, aa, AddP(aa, <<ar[3], ar[4]>>)))

\* C12: mi_abandoned_visit_blocks reports exactly the blocks left behind by terminated threads (orphans: heap 0 in the model)
VisitAbandonedOK(c, r) ==
  LET hb == {b \in LiveIds : live[b].h = 0}
      n == Len(r.blocks)
  IN IF c.stopat > 0
     THEN G("StopsWhenFalse", r.nvisited = Min(c.stopat, Cardinality(hb)) /\ (Cardinality(hb) >= c.stopat => ~r.res) /\ r.after = 0)
     ELSE IF c.stopat < 0
     THEN G("StopsWhenFalse", r.after = 0 /\ (r.nareas >= 0 - c.stopat => (~r.res /\ r.nareas = 0 - c.stopat)))
     ELSE /\ GD("WalkCount", <<n, Cardinality(hb)>>, n = Cardinality(hb))
          /\ G("WalkEveryLiveOnce", \A b \in hb : Cardinality({i \in 1..n : Encloses(r.blocks[i], b)}) = 1)
          /\ G("WalkOnlyLive", \A i \in 1..n : Cardinality({b \in hb : Encloses(r.blocks[i], b)}) = 1)
          /\ G("WalkEveryLiveOnce", Cardinality({<<r.blocks[i][1], r.blocks[i][2]>> : i \in 1..n}) = n)

RetHeap(c, r) ==
  CASE c.op \in {"heap_new", "heap_new_in_arena"} ->
         IF r.null
         THEN /\ G("WellFormedSucceeds", osfail[c.t][1])
              /\ UNCHANGED <<live, heaps, dflt, backing, arenas, cfg, aux>>
         ELSE \* the heap descriptor is itself a block of the thread's backing heap
              LET e == AddA(r.a, r.us) IN
              /\ G("NoOverlap", NoOverlap(r.a, e))
              /\ heaps' = heaps @@ (r.h :> [t |-> c.t, backing |-> FALSE, arena |-> c.arena, desc |-> r.id])
              /\ live' = live @@ (r.id :> [a |-> r.a, e |-> e, us |-> r.us, req |-> r.us, h |-> backing[c.t], gen |-> 0,
                                            wr |-> 0, zl |-> FALSE, al |-> 0, off |-> 0, kind |-> "heapdesc"])
              /\ UNCHANGED <<dflt, backing, arenas, cfg, aux>>
    [] c.op = "heap_delete" ->
         \* all blocks stay live and now belong to the backing heap; default falls back.  A heap that is bound to another arena than
         \* the backing heap cannot hand its pages over (they would leave / enter an arena): its pages are abandoned, the blocks are
         \* orphans like those of a thread that has exited (heap 0) and an exclusive arena stays private
         /\ LET toback == heaps[c.h].arena = heaps[backing[c.t]].arena IN
            live' = [b \in LiveIds |-> IF live[b].h = c.h THEN [live[b] EXCEPT !.h = IF toback THEN backing[c.t] ELSE 0] ELSE live[b]]
         /\ heaps' = [x \in DOMAIN heaps \ {c.h} |-> heaps[x]]
         /\ dflt' = [dflt EXCEPT ![c.t] = IF dflt[c.t] = c.h THEN backing[c.t] ELSE dflt[c.t]]
         /\ UNCHANGED <<backing, arenas, cfg, aux>>
    [] c.op = "heap_destroy" ->
         /\ heaps' = [x \in DOMAIN heaps \ {c.h} |-> heaps[x]]
         /\ dflt' = [dflt EXCEPT ![c.t] = IF dflt[c.t] = c.h THEN backing[c.t] ELSE dflt[c.t]]
         /\ UNCHANGED <<live, backing, arenas, cfg, aux>>
    [] c.op = "heap_set_default" ->
         /\ GD("SetDefaultReturnsOld", <<r.h, dflt[c.t]>>, r.h = dflt[c.t])
         /\ dflt' = [dflt EXCEPT ![c.t] = c.h]
         /\ UNCHANGED <<live, heaps, backing, arenas, cfg, aux>>
    [] c.op = "heap_get_default" ->
         /\ GD("DefaultFallsBack", <<r.h, dflt[c.t]>>, r.h = dflt[c.t])
         /\ UNCHANGED <<live, heaps, dflt, backing, arenas, cfg, aux>>
    [] c.op = "heap_get_backing" ->
         /\ G("BackingHeap", r.h = backing[c.t])
         /\ UNCHANGED <<live, heaps, dflt, backing, arenas, cfg, aux>>
    [] c.op = "visit_abandoned" ->
         /\ VisitAbandonedOK(c, r)
         /\ UNCHANGED <<live, heaps, dflt, backing, arenas, cfg, aux>>
    [] c.op = "visit" ->
         /\ VisitOK(c, r)
         /\ UNCHANGED <<live, heaps, dflt, backing, arenas, cfg, aux>>
    [] OTHER -> UNCHANGED <<live, heaps, dflt, backing, arenas, cfg, aux>>     \* collect, heap_collect: no visible effect

Ret(r) ==
  /\ r.t \in DOMAIN flux /\ flux[r.t] # NoCall /\ flux[r.t].op = r.op
  /\ step' = step + 1
  /\ flux' = [flux EXCEPT ![r.t] = NoCall]
  /\ UNCHANGED osfail
  /\ LET c == flux[r.t] IN
       /\ CASE c.op \in AllocOps -> RetAlloc(c, r)
            [] c.op \in FreeOps -> RetFree(c, r)
            [] c.op \in ReallocOps -> RetRealloc(c, r)
            [] c.op = "expand" -> RetExpand(c, r)
            [] c.op \in QueryOps -> RetQuery(c, r)
            [] OTHER -> RetHeap(c, r)
       /\ ObsOKIn(live', r.obs)      \* contents observed after the call returned

\* the program writes a block (new generation over the first wr bytes)
Write(w) ==
  /\ step' = step + 1
  /\ G("WriteOfLiveBlock", w.id \in LiveIds)
  /\ live' = [live EXCEPT ![w.id] = [@ EXCEPT !.gen = w.gen, !.wr = w.wr, !.zl = @ /\ w.wr <= live[w.id].req]]
  /\ UNCHANGED <<heaps, dflt, backing, flux, arenas, osfail, cfg, aux>>

\* full check of all contents at a checkpoint
CheckAll(ev) ==
  /\ step' = step + 1
  /\ ObsOK(ev.obs)
  /\ GD("CheckAllComplete", <<Len(ev.obs), Cardinality({b \in LiveIds : live[b].kind = "blk"})>>, Len(ev.obs) = Cardinality({b \in LiveIds : live[b].kind = "blk"}))
  \* bulk groups: gobs = sequence of <<group id, member count, minimum matched length>>
  /\ \A i \in 1..Len(ev.gobs) :
        LET o == ev.gobs[i] IN
          /\ GD("ObsOfLiveBlock", <<"group", o[1]>>, o[1] \in DOMAIN Groups)
          /\ (o[1] \in DOMAIN Groups => /\ GD("CheckAllComplete", <<"group", o[1], o[2]>>, o[2] = Len(Groups[o[1]].blocks))
                                         /\ GD("ContentsKept.bytes", <<"group", o[1], o[3]>>, o[3] >= Groups[o[1]].wr))
  /\ GD("CheckAllComplete", <<"groups", Len(ev.gobs)>>, Len(ev.gobs) = Cardinality(DOMAIN Groups))
  /\ UNCHANGED <<live, heaps, dflt, backing, flux, arenas, osfail, cfg, aux>>

\* bulk allocation of one size class (fills whole pages): one event carrying all blocks, address-sorted
SortedDisjoint(seq) == \A i \in 1..(Len(seq) - 1) : LeA(GEnd(seq[i]), GAddr(seq[i + 1])) /\ LtA(GAddr(seq[i]), GAddr(seq[i + 1]))
BatchAlloc(ev) ==
  /\ step' = step + 1
  /\ G("BatchSortedDisjoint", SortedDisjoint(ev.blocks))                      \* the blocks of the batch are pairwise disjoint
  /\ G("UsableAtLeastRequested", \A i \in 1..Len(ev.blocks) : ev.blocks[i][3] >= ev.n)
  /\ G("AlignOK", \A i \in 1..Len(ev.blocks) : AlignedAt(GAddr(ev.blocks[i]), 0, IF ev.al > 0 THEN ev.al ELSE DefaultAlign(ev.n)))
  /\ G("NoOverlap", \A b \in LiveIds : ~HitsSeq(ev.blocks, live[b].a, live[b].e))          \* ... and disjoint from every tracked block
  /\ G("NoOverlap", \A g \in DOMAIN Groups : \A i \in 1..Len(ev.blocks) : ~HitsSeq(Groups[g].blocks, GAddr(ev.blocks[i]), GEnd(ev.blocks[i])))
  /\ (ev.zero => G("ZeroOK", ev.z >= ev.n))                                   \* z = minimum zero run over the batch
  /\ aux' = [aux EXCEPT !.groups = @ @@ (ev.grp :> [blocks |-> ev.blocks, n |-> ev.n, gen |-> ev.gen, wr |-> ev.wr, h |-> ev.h])]
  /\ UNCHANGED <<live, heaps, dflt, backing, flux, arenas, osfail, cfg>>
\* free part of a group: which in {"all", "even", "odd", "first", "second"} (positions in the sorted sequence);
\* minn = minimum over the freed members of the number of leading bytes still carrying the group's pattern
Selected(which, i, n) == CASE which = "all" -> TRUE [] which = "even" -> i % 2 = 0 [] which = "odd" -> i % 2 = 1
                           [] which = "first" -> i * 2 <= n [] which = "second" -> i * 2 > n [] OTHER -> FALSE
BatchFree(ev) ==
  /\ step' = step + 1
  /\ G("FreeOfLiveBlock", ev.grp \in DOMAIN Groups)
  /\ (ev.grp \in DOMAIN Groups =>
        LET g == Groups[ev.grp] n == Len(g.blocks)
            \* the members that stay, by index arithmetic on the sorted sequence (SelectSeq would be quadratic in TLC)
            keep == TLCEval(CASE ev.which = "all" -> <<>>
                              [] ev.which = "even" -> [j \in 1..((n + 1) \div 2) |-> g.blocks[2 * j - 1]]
                              [] ev.which = "odd" -> [j \in 1..(n \div 2) |-> g.blocks[2 * j]]
                              [] ev.which = "first" -> SubSeq(g.blocks, (n \div 2) + 1, n)
                              [] ev.which = "second" -> SubSeq(g.blocks, 1, n \div 2)
                              [] OTHER -> g.blocks)
        IN /\ GD("ContentsKept.bytes", <<"group", ev.grp, ev.minn>>, ev.minn >= g.wr)
           /\ GD("CheckAllComplete", <<ev.count, n - Len(keep)>>, ev.count = n - Len(keep))
           /\ aux' = [aux EXCEPT !.groups = IF Len(keep) = 0 THEN [x \in DOMAIN Groups \ {ev.grp} |-> Groups[x]]
                                           ELSE [Groups EXCEPT ![ev.grp] = [g EXCEPT !.blocks = keep]]])
  /\ UNCHANGED <<live, heaps, dflt, backing, flux, arenas, osfail, cfg>>

\* a managed arena is announced (mi_manage_os_memory_ex / mi_reserve_os_memory_ex returned its id and area)
ArenaNew(ev) ==
  /\ step' = step + 1
  \* the area the allocator uses lies inside the region that was handed to mi_manage_os_memory_ex
  /\ G("ManagedBounds", InsideR(ev.a, AddP(ev.a, ev.len), ev.ga, AddP(ev.ga, ev.glen)))
  /\ arenas' = arenas @@ (ev.id :> [a |-> ev.a, e |-> AddP(ev.a, ev.len), excl |-> ev.excl])
  /\ UNCHANGED <<live, heaps, dflt, backing, flux, osfail, cfg, aux>>

\* threads
ThreadStart(ev) ==
  /\ step' = step + 1
  /\ ev.t \notin DOMAIN flux
  /\ heaps' = heaps @@ (ev.h :> [t |-> ev.t, backing |-> TRUE, arena |-> 0, desc |-> 0])
  /\ dflt' = dflt @@ (ev.t :> ev.h)
  /\ backing' = backing @@ (ev.t :> ev.h)
  /\ flux' = flux @@ (ev.t :> NoCall)
  /\ osfail' = osfail @@ (ev.t :> <<FALSE, FALSE>>)
  /\ UNCHANGED <<live, arenas, cfg, aux>>

\* thread exit: its heaps disappear, its live blocks stay live (orphans, heap 0)
ThreadDone(ev) ==
  /\ step' = step + 1
  /\ ev.t \in DOMAIN flux /\ flux[ev.t] = NoCall /\ ev.t # 0
  /\ LET hs == {h \in DOMAIN heaps : heaps[h].t = ev.t} IN
       /\ live' = [b \in {x \in LiveIds : live[x].kind # "heapdesc" \/ live[x].h \notin hs} |->
                      IF live[b].h \in hs THEN [live[b] EXCEPT !.h = 0] ELSE live[b]]
       /\ heaps' = [h \in DOMAIN heaps \ hs |-> heaps[h]]
  /\ dflt' = [t \in DOMAIN dflt \ {ev.t} |-> dflt[t]]
  /\ backing' = [t \in DOMAIN backing \ {ev.t} |-> backing[t]]
  /\ flux' = [t \in DOMAIN flux \ {ev.t} |-> flux[t]]
  /\ osfail' = [t \in DOMAIN osfail \ {ev.t} |-> osfail[t]]
  /\ UNCHANGED <<arenas, cfg, aux>>

\* an OS request was refused while thread t was (possibly) inside a call
OsRefused == osfail' = [x \in DOMAIN osfail |-> <<TRUE, osfail[x][2]>>]
OsMapped(t) == osfail' = [x \in DOMAIN osfail |-> IF x = t THEN <<osfail[x][1], TRUE>> ELSE osfail[x]]

\* C08: a producer/consumer run with a bounded number of live blocks runs in bounded memory: the heap's page-area count
\* reached in the second half of the run does not exceed what the first half (after a warm-up eighth) already reached (+2 pages).
\* No implementation constant enters: a sawtooth between drains of the delayed list has the same maximum in both halves.
Round(ev) ==
  /\ step' = step + 1
  /\ LET first == ev.k * 8 > ev.n /\ ev.k * 2 <= ev.n
         second == ev.k * 2 > ev.n
         m1 == IF first THEN Max(aux.m[1], ev.areas) ELSE aux.m[1]
         m2 == IF second THEN Max(aux.m[2], ev.areas) ELSE aux.m[2]
     IN /\ aux' = [aux EXCEPT !.m = IF ev.k = 1 THEN <<0, 0>> ELSE <<m1, m2>>]
        /\ (ev.k = ev.n => GD("NoBlowUp", <<m1, m2>>, m2 <= m1 + 4 + (m1 \div 8)))     \* (bounded: the second half stays within an eighth of the first half's maximum, plus four page areas)
  /\ UNCHANGED <<live, heaps, dflt, backing, flux, arenas, osfail, cfg>>

\* C14: after everything has been freed (and collected) the arena can again be allocated completely: no arena block is still
\* reserved unless it holds a page area of an existing heap, and a refill with one-block objects obtains every other block.
SeqSet(q) == {q[i] : i \in 1..Len(q)}
Refill(ev) ==
  /\ step' = step + 1
  /\ GD("NothingReservedBehind", SeqSet(ev.inuse) \ SeqSet(ev.areas), SeqSet(ev.inuse) \subseteq SeqSet(ev.areas))
  /\ GD("RefillComplete", <<ev.got, ev.blocks, Len(ev.inuse)>>, ev.got = ev.blocks - Cardinality(SeqSet(ev.inuse)))
  /\ UNCHANGED <<live, heaps, dflt, backing, flux, arenas, osfail, cfg, aux>>

\* Refinement-level snapshots of the delayed-free machinery (C02 / C08): for every observed page the blocks (as indices) on the
\* free, local-free and thread-free lists, on the heap's delayed-free list, held by the program (live) and being released right now
\* (flight).  Whatever the protocol is, a block must never be in two places, no list may contain a block twice or leave the page,
\* and a block that is in no place must be in flight (or the owner is inside a call and may hold it in a local list).
SnapPageOK(pg, ownerBusy) ==
  LET idxs == 0..(pg.cap - 1)
      Cnt(q, i) == Cardinality({k \in 1..Len(q) : q[k] = i})
      places(i) == Cnt(pg.free, i) + Cnt(pg.lfree, i) + Cnt(pg.tfree, i) + Cnt(pg.live, i) + Cnt(pg.delayed, i)
      inlists == SeqSet(pg.free) \cup SeqSet(pg.lfree) \cup SeqSet(pg.tfree) \cup SeqSet(pg.delayed)
  IN /\ GD("ListsStayInPage", inlists \ idxs, inlists \subseteq idxs)
     /\ GD("BlockConservation.dup", {i \in idxs : places(i) > 1}, \A i \in idxs : places(i) <= 1)
     /\ GD("BlockConservation.lost", {i \in idxs : places(i) = 0}, \A i \in idxs : places(i) = 0 => (i \in SeqSet(pg.flight) \/ ownerBusy))
Snap(ev) ==
  /\ step' = step + 1
  /\ \A k \in 1..Len(ev.pages) : SnapPageOK(ev.pages[k], ev.owner_busy)
  /\ UNCHANGED <<live, heaps, dflt, backing, flux, arenas, osfail, cfg, aux>>

\* ---------------------------------------------------------------- state invariants (checked by TLC in MC and on every trace state)
LiveDisjoint == \A b1, b2 \in LiveIds : b1 # b2 => (DisjointR(live[b1].a, live[b1].e, live[b2].a, live[b2].e) /\ live[b1].a # live[b2].a)
LiveWellFormed == \A b \in LiveIds : live[b].us >= live[b].req /\ live[b].wr <= live[b].us /\ LeA(live[b].a, live[b].e)
HeapsOK == /\ \A t \in DOMAIN dflt : dflt[t] \in DOMAIN heaps /\ heaps[dflt[t]].t = t
           /\ \A t \in DOMAIN backing : backing[t] \in DOMAIN heaps /\ heaps[backing[t]].backing
BlocksHaveHeaps == \A b \in LiveIds : live[b].h = 0 \/ live[b].h \in DOMAIN heaps
=============================================================================
