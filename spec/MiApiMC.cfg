SPECIFICATION MCSpec
CONSTANTS
  Relaxed = FALSE
  Cells = 5
  Sizes = {8, 16}
  MaxBlocks = 3
  MaxHeaps = 1
  GenDepth = 99
VIEW MCView
INVARIANT MCInv
CHECK_DEADLOCK FALSE
