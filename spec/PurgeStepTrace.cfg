SPECIFICATION Spec
CONSTANT Relaxed = TRUE
VIEW TraceView
POSTCONDITION TraceAccepted
CHECK_DEADLOCK FALSE
