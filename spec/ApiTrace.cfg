SPECIFICATION TraceSpec
CONSTANTS
  Relaxed = TRUE
  RelaxedOs = TRUE
VIEW TraceView
INVARIANT Inv
POSTCONDITION TraceAccepted
CHECK_DEADLOCK FALSE
