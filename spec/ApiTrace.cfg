SPECIFICATION TraceSpec
CONSTANT Relaxed = TRUE
INVARIANT Inv
POSTCONDITION TraceAccepted
CHECK_DEADLOCK FALSE
