SPECIFICATION Spec
CONSTANT Relaxed = TRUE
POSTCONDITION TraceAccepted
CHECK_DEADLOCK FALSE
