SPECIFICATION MCSpec
CONSTANTS
  BuildDebug = FALSE
  MCOpts = {1, 10, 16, 24, 31, 32}
  MCEnvIds = {1, 2, 3, 4, 5, 6, 7, 8, 9, 10, 11, 12}
  MCVals = {0, 5, 7}
  MaxOps = 3
INVARIANT MCInv
PROPERTY InitMonotone
PROPERTY SetDefaultRespectsInitialized
PROPERTY OnlyGetReadsEnv
CHECK_DEADLOCK FALSE
