------------------------------ MODULE ArenaTrace ------------------------------
(* Trace specification for arena dumps: every `arenas` event (the bitmaps and purge expiries of all arenas at a quiescent point, see
   MiArenaValid; the schedule itself is modelled and model-checked in MiPurge) must satisfy ArenaValid, and between two dumps of the same
   process
       DirtyMonotone   no dirty bit of an arena is cleared (memory that was handed out once is never again assumed to be zero: C04 / C13)
       ArenasStay      arenas do not disappear and keep their size
   The guard name is Arena.<obligation>. *)
EXTENDS Integers, Sequences, FiniteSets, TLC, Json, IOUtils
CONSTANT Relaxed
Tr == ndJsonDeserialize(IOEnv.TRACE)
VARIABLES step, pid, prev      \* prev: arena id -> [blocks, dirty] of the previous dump of process `pid`
INSTANCE MiArenaValid
SetOf(q) == {q[i] : i \in 1..Len(q)}
Ranges(rs) == UNION {r[1]..r[2] : r \in SetOf(rs)}
Norm(ev) == [delay |-> ev.delay, gset |-> ev.gset, grem |-> ev.grem, after |-> ev.after,
             arenas |-> [i \in 1..Len(ev.arenas) |->
                 LET a == ev.arenas[i] IN
                 [blocks |-> a.blocks, bits |-> a.bits, pinned |-> a.pinned, zero |-> a.zero, set |-> a.set, rem |-> a.rem,
                  inuse |-> Ranges(a.inuse), purge |-> Ranges(a.purge), abandoned |-> Ranges(a.abandoned), dirty |-> Ranges(a.dirty)]]]
G(name, d, cond) == IF cond THEN TRUE ELSE (Relaxed /\ PrintT(<<"GUARDFAIL", "Arena." \o name, step + 1, d>>))
Init == step = 0 /\ pid = -1 /\ prev = [x \in {} |-> 0]
Next ==
  /\ step < Len(Tr) /\ step' = step + 1
  /\ LET ev == Tr[step + 1] IN
     IF ev.e = "arenas"
     THEN LET D == Norm(ev)
              f == ArenaFail(D)
              old == IF ev.pid = pid THEN prev ELSE [x \in {} |-> 0]
              ids == {ev.arenas[i].id : i \in 1..Len(ev.arenas)}
              cur == [x \in ids |-> LET i == CHOOSE j \in 1..Len(ev.arenas) : ev.arenas[j].id = x IN [blocks |-> D.arenas[i].blocks, dirty |-> D.arenas[i].dirty]]
          IN /\ G(f, ev.after, f = "")
             /\ G("ArenasStay", (DOMAIN old) \ ids, \A x \in DOMAIN old : x \in ids /\ cur[x].blocks = old[x].blocks)
             /\ G("DirtyMonotone", {x \in (DOMAIN old) \cap ids : ~(old[x].dirty \subseteq cur[x].dirty)}, \A x \in (DOMAIN old) \cap ids : old[x].dirty \subseteq cur[x].dirty)
             /\ pid' = ev.pid /\ prev' = cur
     ELSE UNCHANGED <<pid, prev>>
Spec == Init /\ [][Next]_<<step, pid, prev>>
TraceView == step
TraceAccepted == /\ PrintT(<<"TVDIAMETER", TLCGet("stats").diameter - 1>>) /\ TLCGet("stats").diameter - 1 = Len(Tr)
=============================================================================
