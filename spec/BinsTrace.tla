------------------------------ MODULE BinsTrace ------------------------------
(***************************************************************************
  C16: validates a conformance table dumped from the COMPILED allocator (harness/drv_bins.c,
  ndjson, env TRACE) row by row.  Two families of guards:

  * property guards (decisive, a failure is a violation of C16): they state what the property
    demands of the measured values themselves, with plain arithmetic, independent of how mimalloc
    computes them:  BinInRange, BlockSizeAtLeastRequest, BinMonotone, Fragmentation25, GoodAtLeast,
    GoodIdempotent, GoodEqualsUsable, UnalignRecoversStart, PtrPageRecovers, FastDivExact,
    AlignUpOK, AlignDownOK, DivideUpOK, MulOverflowOK, SliceBinInRange, SliceBinMonotone, NoCrash.
  * conformance guards (names end in "Matches"): the compiled function returns what the
    transcription in MiBins returns.  They bind the code to the model, so that the theorems TLC
    proved exhaustively over MiBins (MiBinsMC) transfer to the code; a failure alone is a model
    divergence (reported, not a violation: a refactoring may change the classes without breaking
    the property).

  All rows are evaluated in batches of K rows per step (one pass, failing guards are printed as
  <<"GUARDFAIL", name, line, kind>> under Relaxed = TRUE).  Row 1 must be the cfg row of the table.
 ***************************************************************************)
EXTENDS MiBins, Json, IOUtils

CONSTANT Relaxed

Rows == ndJsonDeserialize(IOEnv.TRACE)
N == Len(Rows)
K == 2000
NB == (N + K - 1) \div K

VARIABLE step

KindOf(r) == IF "k" \in DOMAIN r THEN r.k ELSE IF "e" \in DOMAIN r THEN r.e ELSE "?"
Cfg == Rows[1]
HasCfg == KindOf(Cfg) = "cfg"
Pad == IF HasCfg THEN Cfg.pad ELSE 0

G(name, line, kind, cond) == IF cond THEN TRUE ELSE (Relaxed /\ PrintT(<<"GUARDFAIL", name, line, kind>>))

\* ---------------------------------------------------------------- cfg
CfgOK(i, r) ==
  G("ConstMatches", i, "cfg",
    /\ r.intptr = WSize /\ r.maxalign = MaxAlignSize /\ r.slice = SliceSize /\ r.segslices = SlicesPerSegment
    /\ r.smallmax = SmallObjMax /\ r.medmax = MediumObjMax /\ r.largemax = LargeObjMax /\ r.binhuge = BinHuge
    /\ r.segbinmax = SegmentBinMax /\ r.ospage = OsPage /\ r.maxsliceoff = MaxSliceOffsetCount
    /\ r.alignmax = BlockAlignmentMax /\ r.alignguar = MaxAlignGuarantee /\ r.pad \in {0, 8})

BinSizeOK(i, r) == G("BinSizeMatches", i, "binsize", r.bin \in Bins /\ r.size = BinSize(r.bin))

\* ---------------------------------------------------------------- request sizes (really allocated)
PrevIs(i, kind) == i > 2 /\ KindOf(Rows[i - 1]) = kind
ReqOf(n) == IF Pad > 0 /\ n = 0 THEN WSize ELSE n        \* alloc.c: a padded build turns a request of 0 into sizeof(void*)

\* the same row is measured in several passes (field ph): "asc" first ascending sweep in a fresh heap, "asc2" second ascending
\* pass with live blocks of every class, "desc" descending, "rnd" seeded random order with interleaved frees, "late" after
\* the address-arithmetic section.  The demand per row is the same in every pass: which block serves a request must not
\* depend on the history of the heap (direct small-page table heap->pages_free_direct, queue heads).
BinKind(r) == IF "ph" \in DOMAIN r /\ r.ph # "asc" THEN "bin." \o r.ph ELSE "bin"
BinOK(i, r0) ==
  LET r == r0
      n == r.n
      med == n <= Cfg.medmax
      kd == BinKind(r)
  IN
  /\ G("AllocSucceededMatches", i, kd, r.us >= 0 /\ r.pbs >= 0)
  /\ G("BinInRange", i, kd, r.bin >= 1 /\ r.bin <= Cfg.binhuge)
  /\ G("BlockSizeAtLeastRequest", i, kd,
       /\ (med => r.bsz >= n)
       /\ (r.us >= 0 => (r.us >= n /\ r.pbs >= n + Pad)))
  /\ G("BinMonotone", i, kd,
       /\ r.bin <= r.bin1
       /\ (PrevIs(i, "bin") /\ Rows[i - 1].n < n => Rows[i - 1].bin <= r.bin))
  /\ G("Fragmentation25", i, kd, (n > 64 /\ med) => (r.bsz - n) * 4 <= n)
  \* ... and for the large sizes (served by a page of their own, rounded by _mi_os_good_alloc_size): the block that really serves the request
  /\ G("Fragmentation25", i, kd, (~med /\ r.pbs >= 0 /\ n + Pad <= LargeObjMax) => (r.pbs - (n + Pad)) * 4 <= n + Pad)
  /\ G("GoodAtLeast", i, kd, r.good >= n)
  \* padded (debug/secure) builds: mi_good_size includes MI_PADDING_SIZE, so the fixed point is taken modulo the padding
  /\ G("GoodIdempotent", i, kd, IF Pad = 0 THEN r.g2 = r.good ELSE (r.g2 = r.good \/ r.g2p = r.good))
  \* release: usable size = good size.  padded builds report the requested size as usable size; there the good size must be
  \* the size of the block that serves the request (with or without the padding), while request + padding is a medium size
  /\ G("GoodEqualsUsable", i, kd,
       (med /\ r.us >= 0) => IF Pad = 0 THEN r.good = r.us
                             ELSE (n + Pad <= Cfg.medmax => (r.good = r.pbs \/ r.good = r.pbs - Pad)))
  /\ G("BinMatches", i, kd, r.bin = Bin(n) /\ r.bin1 = Bin(n + 1))
  /\ G("BinSizeMatches", i, kd, r.bin \in Bins /\ r.bsz = BinSize(r.bin))
  /\ G("GoodSizeMatches", i, kd, r.good = GoodSizeP(n, Pad))
  /\ G("ChosenMatches", i, kd, (r.pbs >= 0 /\ n + Pad <= LargeObjMax) => r.pbs = ChosenBlockSize(ReqOf(n), Pad))
  /\ G("UsableMatches", i, kd, r.us >= 0 => IF Pad = 0 THEN r.us = r.pbs ELSE r.us = ReqOf(n))

\* sizes up to PTRDIFF_MAX by value (not allocated); numbers are 4 big-endian limbs of 20 bits
AlignUpPageBN(a) == LET t == BNAdd(a, BNFromInt(OsPage - 1)) IN BNSub(t, BNFromInt(BNModSmall(t, OsPage)))
BigBinOK(i, r) ==
  LET n == BNFromL20(r.n)
      good == BNFromL20(r.good)
  IN
  /\ G("BinInRange", i, "bigbin", r.bin >= 1 /\ r.bin <= Cfg.binhuge)
  /\ G("BinMonotone", i, "bigbin",
       /\ r.bin <= r.bin1
       /\ (PrevIs(i, "bigbin") /\ BNLt(BNFromL20(Rows[i - 1].n), n) => Rows[i - 1].bin <= r.bin))
  /\ G("GoodAtLeast", i, "bigbin", BNLe(n, good))
  /\ G("GoodIdempotent", i, "bigbin",
       IF Pad = 0 THEN BNEq(BNFromL20(r.g2), good) ELSE (BNEq(BNFromL20(r.g2), good) \/ BNEq(BNFromL20(r.g2p), good)))
  /\ G("BinMatches", i, "bigbin", r.bin = BinHuge /\ r.bin1 = BinHuge)
  /\ G("GoodSizeMatches", i, "bigbin", BNEq(good, AlignUpPageBN(BNAdd(n, BNFromInt(Pad)))))

\* ---------------------------------------------------------------- span bins
SliceBinOK(i, r) ==
  /\ G("SliceBinInRange", i, "slicebin", r.bin >= 0 /\ r.bin <= Cfg.segbinmax /\ (r.c >= 1 => r.bin >= 1))
  /\ G("SliceBinMonotone", i, "slicebin",
       /\ r.bin <= r.bin1
       /\ (PrevIs(i, "slicebin") /\ Rows[i - 1].c < r.c => Rows[i - 1].bin <= r.bin))
  /\ G("SliceBinMatches", i, "slicebin", r.bin = SliceBin(r.c) /\ (r.c < SlicesPerSegment => r.bin1 = SliceBin(r.c + 1)))

\* ---------------------------------------------------------------- interior pointer -> block start, page
\* all offsets are relative to the base of the segment of the block's page (found by range search over the heap's
\* page queues); po = page_start, off = pointer, res = _mi_page_ptr_unalign(page, p);
\* pseg/psl = segment and slice index of _mi_ptr_page(p)
UnalignOK(i, r) ==
  /\ G("UnalignRecoversStart", i, "unalign", r.off >= r.po /\ r.res = TrueBlockStart(r.po, r.bs, r.off))
  /\ G("PtrPageRecovers", i, "unalign", r.pseg = r.seg /\ r.psl = r.sl)
  /\ G("ShiftMatches", i, "unalign", r.sh = BlockShift(r.bs))
  /\ G("UnalignMatches", i, "unalign", r.res = Unalign(r.po, r.bs, r.sh, r.off))
  /\ G("PageStartMatches", i, "unalign", r.po = r.sl * SliceSize + StartOffset(r.bs, r.pm, r.sc * SliceSize))
  /\ G("PageOfMatches", i, "unalign", r.psl = PageSliceOf(r.sl, r.sc, r.off) /\ SegBaseOf(r.off) = 0)

\* ---------------------------------------------------------------- fast divide
FDivOK(i, r) ==
  /\ (r.dom = "walk" => G("FastDivExact", i, "fdiv", r.q = r.n \div r.d))
  /\ (r.dom # "walk" => G("FastDivAnyNMatches", i, "fdiv", r.q = r.n \div r.d))
  /\ G("FastDivMatches", i, "fdiv",
       FastDivSupported(r.d) =>
         /\ r.sh = FastDivShift(r.d)
         /\ BNEq(BNFromL20(r.mg), FastDivMagic(r.d))
         /\ r.q = FastDivWith(r.n, BNFromL20(r.mg), r.sh))

\* ---------------------------------------------------------------- helpers on 64-bit boundary classes
AlignRowOK(i, r) ==
  LET sz == BNFromL20(r.sz)
      res == BNFromL20(r.r)
      al == BNFromInt(r.al)
  IN
  /\ G("RowSupportedMatches", i, r.k, BNMultipleSupported(r.al))
  /\ CASE r.k = "alignup" ->
            G("AlignUpOK", i, r.k, BNLe(sz, res) /\ BNLt(BNSub(res, sz), al) /\ BNMultipleOf(res, r.al))
       [] r.k = "aligndown" ->
            G("AlignDownOK", i, r.k, BNLe(res, sz) /\ BNLt(BNSub(sz, res), al) /\ BNMultipleOf(res, r.al))
       [] r.k = "divup" ->
            LET p == BNMul(res, al) IN G("DivideUpOK", i, r.k, BNLe(sz, p) /\ BNLt(p, BNAdd(sz, al)))

BNSizeMax == BNSub(BN2p64, <<1>>)
MulRowOK(i, r) ==
  LET a == BNFromL20(r.a)
      b == BNFromL20(r.b)
      prod == BNMul(a, b)
      ovf == BNLe(BN2p64, prod)
      tot == BNFromL20(r.tot)
  IN
  /\ G("MulOverflowOK", i, r.k, (r.ovf = 1) = ovf /\ (~ovf => BNEq(tot, prod)))
  /\ (r.k = "cntov" => G("CountSizeMatches", i, r.k, ovf => BNEq(tot, BNSizeMax)))

\* ---------------------------------------------------------------- dispatch
RowOK(i) ==
  LET r == Rows[i]
      k == KindOf(r)
  IN
  CASE k = "cfg" -> CfgOK(i, r)
    [] k = "binsize" -> BinSizeOK(i, r)
    [] k = "bin" -> BinOK(i, r)
    [] k = "bigbin" -> BigBinOK(i, r)
    [] k = "slicebin" -> SliceBinOK(i, r)
    [] k = "unalign" -> UnalignOK(i, r)
    [] k = "fdiv" -> FDivOK(i, r)
    [] k \in {"alignup", "aligndown", "divup"} -> AlignRowOK(i, r)
    [] k \in {"mulov", "cntov"} -> MulRowOK(i, r)
    [] k = "end" -> TRUE
    [] k = "crash" -> G("NoCrash", i, "crash", FALSE)        \* the harness died inside the allocator (signal/assertion)
    [] OTHER -> G("KnownRowMatches", i, k, FALSE)

Init == step = 0 /\ G("TableHasCfgMatches", 1, "cfg", N >= 1 /\ HasCfg)
Next ==
  /\ step < NB
  /\ \A i \in (step * K + 1)..Min(N, (step + 1) * K) : RowOK(i)
  /\ step' = step + 1
TraceSpec == Init /\ [][Next]_step

\* acceptance: all batches evaluated; prints the number of rows consumed
TraceAccepted ==
  /\ PrintT(<<"TVDIAMETER", Min(N, (TLCGet("stats").diameter - 1) * K)>>)
  /\ TLCGet("stats").diameter - 1 = NB
=============================================================================
