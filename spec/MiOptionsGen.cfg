CONSTANTS
  BuildDebug = FALSE
  MCOpts = {1}
  MCEnvIds = {1}
  MCVals = {0}
  MaxOps = 0
INIT MCInit
NEXT GenNext
CHECK_DEADLOCK FALSE
