---------------------------- MODULE AbandonTrace ----------------------------
(***************************************************************************
  Step-level trace specification of the abandon / adopt protocol (refinement tier of C09; the protocol model is MiAbandon).

  The scheduler hooks log every atomic operation on the words of the protocol ("astep" events):
     tid    a segment's thread_id: 0 = abandoned, else the owner         (stores; with the segment number and whether it lives in an arena)
     ab     a word of an arena's abandoned bitmap: fetch-or (mark) / fetch-and (clear), with the segments whose bit actually
            changed ("hit") and those whose bit already had the target value ("miss")
     cnt    the sub-process's count of abandoned segments, oscnt the length of its list of abandoned OS segments (add / sub)
  Executions are sequentially consistent interleavings, so the log order is the order of the operations.  The specification
  keeps owner, bit and counts of every segment it has seen and demands:

    BitContinuity       a bit is found set exactly if the last logged operation left it set
    MarkWhenUnowned     a segment is marked abandoned only while nobody owns it (the owner stored 0 first)
    MarkNotTwice        a segment that is marked is not marked again (abandoned once)
    AbandonByOwner      only the owner (or the thread that has just won the segment) writes 0
    AdoptOwnId          a thread writes its own id as owner, never somebody else's
    AdoptAfterWinning   the owner id of an arena segment is written only by the thread that cleared its abandoned bit (the clear
                        that found the bit set is the linearisation point of adoption); fresh segments are exempt
    AdoptWhileOwned     an owner id is never written over another thread's id (no two owners)
    CountFollowsBit     every successful mark / clear is followed by exactly one increment / decrement of the abandoned count by
                        the same thread (OS segments: of the list count and of the abandoned count), and the counts observed are
                        the counts the log implies
    FreedNotAbandoned   arena blocks are not given back while their segment is marked abandoned
    WonSegmentsSettled  when the API call returns, every segment the thread won has an owner again or was marked again
    NoPurgeAfterAbandon a thread does not purge (madvise / decommit) memory of a segment after it has marked it abandoned: from that moment
                        another thread may adopt the segment and hand its free spans out (pending purges are done BEFORE the mark; C13)
 ***************************************************************************)
EXTENDS Integers, Sequences, FiniteSets, TLC, Json, IOUtils
CONSTANT Relaxed
Tr == ndJsonDeserialize(IOEnv.TRACE)
VARIABLES step, tid, bit, cnt, oscnt, won, pend, pendos, gone, cop
vars == <<step, tid, bit, cnt, oscnt, won, pend, pendos, gone, cop>>
G(name, d, cond) == IF cond THEN TRUE ELSE (Relaxed /\ PrintT(<<"GUARDFAIL", name, step + 1, d>>))
Put(f, k, v) == [x \in (DOMAIN f) \cup {k} |-> IF x = k THEN v ELSE f[x]]
Get(f, k, d) == IF k \in DOMAIN f THEN f[k] ELSE d
Empty == [x \in {} |-> 0]
SetOf(q) == {q[i] : i \in 1..Len(q)}
Unknown == -1

Init == step = 0 /\ tid = Empty /\ bit = {} /\ cnt = Unknown /\ oscnt = Unknown /\ won = Empty /\ pend = Empty /\ pendos = Empty /\ gone = Empty /\ cop = Empty

TidStep(ev) ==
  LET S == ev.seg  t == ev.t  me == t + 1  cur == Get(tid, S, Unknown)  w == Get(won, t, {}) IN
  IF ev.k # "st" \/ S = 0 THEN UNCHANGED <<tid, bit, cnt, oscnt, won, pend, pendos, gone>>
  ELSE IF ev.n = 0
  THEN /\ (ev.arena => G("AbandonByOwner", <<S, cur, me>>, cur \in {Unknown, me, 0}))
       /\ tid' = Put(tid, S, 0)
       /\ UNCHANGED <<bit, cnt, oscnt, won, pend, pendos, gone>>
  ELSE /\ G("AdoptOwnId", <<S, ev.n, me>>, ev.n = me)
       /\ (ev.arena => G("AdoptWhileOwned", <<S, cur, me>>, cur \in {Unknown, 0, me}))
       /\ (ev.arena => G("AdoptAfterWinning", <<S, me>>, S \in w \/ cur = me \/ (cur = Unknown /\ S \notin bit)))
       /\ tid' = Put(tid, S, me)
       /\ won' = Put(won, t, w \ {S})
       /\ gone' = [x \in DOMAIN gone |-> IF x = t THEN gone[x] \ SetOf(ev.key) ELSE gone[x]]      \* (also a fresh segment at an address the thread once gave up)
       /\ UNCHANGED <<bit, cnt, oscnt, pend, pendos>>

AbStep(ev) ==
  LET t == ev.t  hit == SetOf(ev.hit) \ {0}  miss == SetOf(ev.miss) \ {0}  w == Get(won, t, {}) IN
  IF ev.k = "or"
  THEN /\ G("MarkNotTwice", miss, miss = {})
       /\ G("BitContinuity", <<"mark", hit \cap bit>>, hit \cap bit = {})
       /\ G("MarkWhenUnowned", {S \in hit : Get(tid, S, 0) # 0}, \A S \in hit : Get(tid, S, 0) = 0)
       /\ bit' = bit \cup hit
       /\ won' = Put(won, t, w \ hit)
       /\ pend' = Put(pend, t, Get(pend, t, 0) + Cardinality(hit))
       /\ gone' = Put(gone, t, Get(gone, t, {}) \cup SetOf(ev.key))         \* from now on the segment may belong to somebody else
       /\ UNCHANGED <<tid, cnt, oscnt, pendos>>
  ELSE /\ G("BitContinuity", <<"clear", hit \ bit, miss \cap bit>>, hit \subseteq bit /\ miss \cap bit = {})
       /\ bit' = bit \ hit
       /\ won' = Put(won, t, w \cup hit)
       /\ pend' = Put(pend, t, Get(pend, t, 0) - Cardinality(hit))
       /\ gone' = [x \in DOMAIN gone \cup {t} |-> IF x = t THEN Get(gone, t, {}) \ SetOf(ev.key) ELSE gone[x]]      \* the winner owns it (again)
       /\ UNCHANGED <<tid, cnt, oscnt, pendos>>

\* OS segments are put on / taken off a list under a lock: the list count and the abandoned count move together (in either order);
\* pendos is their difference for the thread, it must be 0 again when the call returns
CntStep(ev) ==
  LET t == ev.t  d == IF ev.k = "add" THEN 1 ELSE -1  p == Get(pend, t, 0)  po == Get(pendos, t, 0) IN
  IF ev.w = "oscnt"
  THEN /\ G("CountContinuity", <<"oscnt", oscnt, ev.old>>, oscnt = Unknown \/ oscnt = ev.old)
       /\ oscnt' = ev.old + d
       /\ pendos' = Put(pendos, t, po + d)
       /\ UNCHANGED <<tid, bit, cnt, won, pend, gone>>
  ELSE /\ G("CountContinuity", <<"cnt", cnt, ev.old>>, cnt = Unknown \/ cnt = ev.old)
       /\ cnt' = ev.old + d
       /\ IF (d = 1 /\ p >= 1) \/ (d = -1 /\ p <= -1)
          THEN pend' = Put(pend, t, p - d) /\ UNCHANGED pendos
          ELSE pendos' = Put(pendos, t, po - d) /\ UNCHANGED pend
       /\ UNCHANGED <<tid, bit, oscnt, won, gone>>

\* arena blocks given back: the segment that lived there is gone (it must not be in the abandoned set any more)
FreeStep(ev) ==
  LET hit == SetOf(ev.hit) \ {0} IN
  /\ G("FreedNotAbandoned", hit \cap bit, hit \cap bit = {})
  /\ tid' = [S \in (DOMAIN tid) \ hit |-> tid[S]]
  /\ won' = [t \in DOMAIN won |-> won[t] \ hit]
  /\ gone' = [t \in DOMAIN gone |-> gone[t] \ SetOf(ev.key)]            \* the segment is gone: whatever lives at that address later is a new one
  /\ UNCHANGED <<bit, cnt, oscnt, pend, pendos>>

\* a purge (madvise DONTNEED / FREE, mprotect NONE) by a thread inside a segment it has marked abandoned and not won back
\* (a thread that frees or re-allocates a huge block of another thread resets that block's memory itself: exempt)
Releasing(op) == op \in {"free", "free_size", "free_aligned", "free_size_aligned", "cfree", "realloc", "reallocf", "reallocn", "reallocarray", "reallocarr", "rezalloc", "recalloc",
                         "realloc_aligned", "realloc_aligned_at", "heap_realloc", "heap_reallocf", "heap_reallocn", "heap_rezalloc", "heap_recalloc", "expand"}
OsStep(ev) ==
  /\ ((ev.call \in {"madvise", "mprotect"} /\ ev.arg \in {"DONTNEED", "FREE", "NONE"} /\ ~Releasing(Get(cop, ev.t, "none"))) =>
         G("NoPurgeAfterAbandon", <<ev.t, ev.call, ev.a>>, (ev.a[1] \div 32) \notin Get(gone, ev.t, {})))
  /\ UNCHANGED <<tid, bit, cnt, oscnt, won, pend, pendos, gone>>

Next ==
  /\ step < Len(Tr) /\ step' = step + 1
  /\ LET ev == Tr[step + 1] IN
     CASE ev.e = "astep" /\ ev.w = "tid" -> TidStep(ev) /\ UNCHANGED cop
       [] ev.e = "astep" /\ ev.w = "ab" -> AbStep(ev) /\ UNCHANGED cop
       [] ev.e = "astep" /\ ev.w \in {"cnt", "oscnt"} -> CntStep(ev) /\ UNCHANGED cop
       [] ev.e = "astep" /\ ev.w = "free" -> FreeStep(ev) /\ UNCHANGED cop
       [] ev.e = "os" -> OsStep(ev) /\ UNCHANGED cop
       [] ev.e = "call" -> cop' = Put(cop, ev.t, ev.op) /\ UNCHANGED <<tid, bit, cnt, oscnt, won, pend, pendos, gone>>
       [] ev.e = "ret" ->
            /\ G("WonSegmentsSettled", <<ev.t, ev.op, Get(won, ev.t, {})>>, Get(won, ev.t, {}) = {})
            /\ G("CountFollowsBit", <<"ret", ev.op, Get(pend, ev.t, 0), Get(pendos, ev.t, 0)>>, Get(pend, ev.t, 0) = 0 /\ Get(pendos, ev.t, 0) = 0)
            /\ won' = Put(won, ev.t, {}) /\ pend' = Put(pend, ev.t, 0) /\ pendos' = Put(pendos, ev.t, 0)
            /\ UNCHANGED <<tid, bit, cnt, oscnt, gone>> /\ cop' = Put(cop, ev.t, "none")
       [] ev.e \in {"reset", "cfg"} -> tid' = Empty /\ bit' = {} /\ cnt' = Unknown /\ oscnt' = Unknown /\ won' = Empty /\ pend' = Empty /\ pendos' = Empty /\ gone' = Empty /\ cop' = Empty
       [] OTHER -> UNCHANGED <<tid, bit, cnt, oscnt, won, pend, pendos, gone, cop>>
Spec == Init /\ [][Next]_vars
TraceView == step
TraceAccepted == /\ PrintT(<<"TVDIAMETER", TLCGet("stats").diameter - 1>>) /\ TLCGet("stats").diameter - 1 = Len(Tr)
=============================================================================
