---------------------------- MODULE OverrideTrace ----------------------------
(***************************************************************************
  Trace specification for C19: validates an ndjson trace recorded by the override drivers
  (harness/ovr/: ovr_c, ovr_cpp, smoke_c, smoke_cpp; trace files `ovr_*.ndjson`) against MiOverride
  (and through it MiApi).  One trace line = one action.  Acceptance = every line consumed
  (POSTCONDITION) and no guard failed.
 ***************************************************************************)
EXTENDS MiOverride, Json, IOUtils

Tr == ndJsonDeserialize(IOEnv.TRACE)

vars == ovVars

TraceInit == OvInit

Consume == step' = step + 1
ObsIds(obs) == {obs[i][1] : i \in 1..Len(obs)}

TraceNext ==
  /\ step < Len(Tr)
  /\ LET ev == Tr[step + 1] IN
     CASE ev.e = "call" -> /\ GD("ObsComplete", ev.op, ObsIds(ev.obs) = LiveIds)     \* ContentsKept is checked on EVERY live block
                           /\ OvCall(ev)
       [] ev.e = "ret" -> /\ OvRet(ev)
                          /\ GD("ObsComplete", ev.op, (DOMAIN live' \ foreign') \subseteq ObsIds(ev.obs) /\ ObsIds(ev.obs) \subseteq DOMAIN live')
       [] ev.e = "skip" -> OvSkip(ev)
       [] ev.e = "abandon" -> OvAbandon(ev)
       [] ev.e = "seen" -> OvSeen(ev)
       [] ev.e = "pair" -> OvPair(ev)
       [] ev.e = "cfg" -> OvCfg(ev)
       [] ev.e = "crash" -> /\ Consume
                            /\ GD("NoCrash", ev.sig, FALSE)
                            /\ UNCHANGED <<live, heaps, dflt, backing, flux, arenas, osfail, cfg, aux, origin, foreign, ocfg>>
       [] ev.e = "reset" -> /\ Consume
                            /\ live' = <<>> /\ heaps' = (1 :> [t |-> 0, backing |-> TRUE, arena |-> 0, desc |-> 0])
                            /\ dflt' = (0 :> 1) /\ backing' = (0 :> 1) /\ flux' = (0 :> NoCall) /\ arenas' = <<>>
                            /\ osfail' = (0 :> <<FALSE, FALSE>>) /\ aux' = [m |-> <<0, 0>>, groups |-> <<>>] /\ origin' = <<>> /\ foreign' = {}
                            /\ UNCHANGED <<cfg, ocfg>>
       [] ev.e = "end" -> Consume /\ UNCHANGED <<live, heaps, dflt, backing, flux, arenas, osfail, cfg, aux, origin, foreign, ocfg>>
       [] OTHER -> FALSE

TraceSpec == TraceInit /\ [][TraceNext]_vars

\* acceptance: the whole trace was consumed
TraceAccepted ==
  /\ PrintT(<<"TVDIAMETER", TLCGet("stats").diameter - 1>>)
  /\ TLCGet("stats").diameter - 1 = Len(Tr)

Inv == LiveWellFormed /\ HeapsOK /\ BlocksHaveHeaps
=============================================================================
