SPECIFICATION MCSpec
CONSTANTS
  Relaxed = FALSE
  HasCfree = FALSE
  Cells = 4
  Sizes = {24, 20000}
  Aligns = {64}
  Page = 4096
INVARIANT MCInv
INVARIANT DoneClean
INVARIANT GenEmit
CHECK_DEADLOCK TRUE
