------------------------------ MODULE SegTrace ------------------------------
(* Trace specification for slice-table dumps: every `seg` event (one segment as the allocator holds it at a quiescent point
   of the program: kind, counters, the cnt / off / use arrays of all slice entries, commit and purge masks as index ranges, the
   slice ranges of the blocks the program holds in it) must satisfy MiSegment!SegValid.  The guard name is Seg.<obligation>. *)
EXTENDS Integers, Sequences, FiniteSets, TLC, Json, IOUtils
CONSTANT Relaxed
Tr == ndJsonDeserialize(IOEnv.TRACE)
VARIABLE step
INSTANCE MiSegValid
G(name, d, cond) == IF cond THEN TRUE ELSE (Relaxed /\ PrintT(<<"GUARDFAIL", name, step + 1, d>>))
Ranges(rs) == UNION {rs[k][1]..rs[k][2] : k \in 1..Len(rs)}
SegRec(ev) == [kind |-> ev.kind, entries |-> ev.entries, info |-> ev.info, used |-> ev.used, abandoned |-> ev.abandoned, owned |-> ev.owned,
               cnt |-> ev.cnt, off |-> ev.off, use |-> ev.use, commit |-> Ranges(ev.commit), purge |-> Ranges(ev.purge),
               live |-> {<<ev.live[k][1], ev.live[k][2]>> : k \in 1..Len(ev.live)}]
Init == step = 0
Next ==
  /\ step < Len(Tr) /\ step' = step + 1
  /\ LET ev == Tr[step + 1] IN
     IF ev.e = "seg"
     THEN LET f == SegFail(SegRec(ev)) IN
          IF f = "" THEN TRUE ELSE (Relaxed /\ PrintT(<<"GUARDFAIL", "Seg." \o f, step + 1, ev.sid>>))
     ELSE TRUE
Spec == Init /\ [][Next]_step
TraceAccepted == /\ PrintT(<<"TVDIAMETER", TLCGet("stats").diameter - 1>>) /\ TLCGet("stats").diameter - 1 = Len(Tr)
=============================================================================
