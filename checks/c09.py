from checks import concfam, osfam
GUARDS = {"NoOverlap", "ContentsKept.gen", "ContentsKept.bytes", "ObsOfLiveBlock", "FreeOfLiveBlock", "CheckAllComplete", "QuiesceNoLive",
          "DirtyAllReleased", "AllReleased", "DestructiveAvoidsLive", "LiveAccessible", "Invariant.Inv", "ZeroOK", "OwnershipQuery"}
def run(tier, seed):
    rof = {"MIMALLOC_ABANDONED_RECLAIM_ON_FREE": "1"}
    noarena = {"MIMALLOC_DISALLOW_ARENA_ALLOC": "1"}
    both = dict(rof); both.update(noarena)
    purge = {"MIMALLOC_ABANDONED_PAGE_PURGE": "1", "MIMALLOC_PURGE_DELAY": "0"}
    jobs = []
    for env, tag in [(None, "default"), (rof, "rof"), (noarena, "os"), (both, "rof+os"), (purge, "purge")]:
        jobs.append({"prog": "exit", "strategy": "random", "runs": (120, 1500), "args": ["--spurious", "1", "--rate", "3"], "env": env})
        jobs.append({"prog": "exit", "strategy": "pct", "runs": (60, 800), "args": [], "env": env})
    jobs.append({"prog": "exit", "strategy": "random", "runs": (80, 1000), "args": ["--park", "6", "--rate", "3"], "env": None})      # a remote free stalled between its two CAS while the owner exits
    jobs.append({"prog": "exit", "strategy": "pct", "runs": (40, 600), "args": ["--park", "6"], "env": rof})
    # pinned schedule: a thread stalled inside _mi_arena_segment_mark_abandoned (after the bit is set) while another thread adopts and
    # frees the segment (debug builds aborted on a racy assertion before /repo 34edd07)
    jobs.append({"prog": "exit", "strategy": "pct", "runs": (1, 1), "args": [], "env": None, "seed": 1003437, "builds": ["dbg"]})
    # walks over the abandoned memory (mi_abandoned_visit_blocks takes every abandoned segment off the bitmap / list while it looks at it, also
    # when the visitor stops the walk): every segment must be abandoned again when the call returns (AbandonTrace.WonSegmentsSettled), and released at the end
    jobs.append({"prog": "abvisit", "strategy": "random", "runs": (30, 400), "args": ["--rate", "3"], "env": {"MIMALLOC_VISIT_ABANDONED": "1"}})
    jobs.append({"prog": "abvisit", "strategy": "pct", "runs": (20, 300), "args": [], "env": {"MIMALLOC_VISIT_ABANDONED": "1", "MIMALLOC_DISALLOW_ARENA_ALLOC": "1"}})
    jobs.append({"prog": "exit-heap", "strategy": "random", "runs": (30, 400), "args": ["--rate", "3"], "env": None})
    jobs.append({"prog": "exit-heap", "strategy": "random", "runs": (30, 400), "args": ["--rate", "3"], "env": rof})
    jobs.append({"prog": "exit", "strategy": "random", "runs": (60, 800), "args": ["--size", "60000", "65536"], "env": rof})
    jobs.append({"prog": "exit", "strategy": "random", "runs": (60, 800), "args": ["--size", "40", "200"], "env": rof})
    jobs.append({"prog": "exit", "strategy": "random", "runs": (40, 600), "args": ["--size", "600000", "1048576"], "env": None})
    # release of abandoned memory when nobody who touched it is alive any more (producer and consumer threads both exit), also with
    # forced abandonment (MIMALLOC_TARGET_SEGMENTS_PER_THREAD) and OS-allocated segments: OS-level accounting at quiescence
    q = tier == "quick"
    oruns = []
    for tag, env in (("relay", {}), ("relay.rof", rof), ("relay.tspt", {"MIMALLOC_TARGET_SEGMENTS_PER_THREAD": "2"}),
                     ("relay.tspt.os", {"MIMALLOC_TARGET_SEGMENTS_PER_THREAD": "2", "MIMALLOC_DISALLOW_ARENA_ALLOC": "1"}), ("relay.os", noarena)):
        oruns.append({"args": ["--workload", "relay", "--rounds", "3" if q else "6"], "env": dict(env), "tag": tag, "build": "rel"})
        oruns.append({"args": ["--workload", "mt", "--rounds", "3" if q else "6"], "env": dict(env), "tag": tag.replace("relay", "mt"), "build": "rel" if q else "dbg"})
    for tag, env in (("subproc", {}), ("subproc.rof", rof)):      # two sub-processes: abandoned memory is only touched within its own
        oruns.append({"args": ["--workload", "subproc", "--rounds", "3" if q else "6"], "env": dict(env), "tag": tag, "build": "rel"})
        oruns.append({"args": ["--workload", "subproc", "--rounds", "3"], "env": dict(env), "tag": tag, "build": "dbg"})
    V, ocov = osfam.run_os("C09", tier, seed, oruns, builds=["rel", "dbg"], own_guards={"AllReleased", "DirtyAllReleased", "NoCreepMapped", "QuiesceNoLive", "NoOverlap", "ContentsKept.gen", "ContentsKept.bytes", "OwnershipQuery",
                           "DestructiveAvoidsLive", "LiveAccessible", "Invariant.Inv"}, crash_decisive=True, group=2, finish=False, outname="C09os")
    return concfam.run_conc("C09", tier, seed, jobs, GUARDS, step_guards=concfam.STEP_GUARDS, V=V,
                            extra_cov={"release_at_quiescence": {k: ocov[k] for k in ("traces_validated_against_impl", "trace_events_validated", "os_events", "runs_sample")}}, mc=("MiAbandonMC", ("MiAbandon_mc.cfg", "MiAbandon_mc_thorough.cfg")), guided_progs=(),
                            assumptions=["the abandonment model has 3 threads in 2 sub-processes and 2 segments; reclaim-on-free on (a second configuration with it off is part of the thorough run)",
                                         "at the end every non-main thread is done, everything is freed and the main thread force-collects: every unit written through a block must have been purged or unmapped"])
