import os, shutil, time
import vlib
from checks import apifam
GUARDS = {"DetectsDoubleFree", "DetectsOverflow", "DetectsForgedLink", "NoOverlap", "ContentsKept.gen", "ContentsKept.bytes", "ObsOfLiveBlock",
          "AreasCoverAll", "CheckAllComplete", "FreeOfLiveBlock", "Invariant.Inv"}
def run(tier, seed):
    q = 0 if tier == "quick" else 1
    V = vlib.Verdict("C17", tier, seed)
    od = vlib.outdir("C17")
    for f in os.listdir(od):
        os.remove(os.path.join(od, f))
    import threading
    mc_res = {}
    def do_mc():
        try:
            mc_res["r"] = vlib.tlc_mc("MiApiMC", ("MiApiMC.cfg", "MiApiMC_thorough.cfg")[q], workers=6, timeout=3000, coverage=False)
        except Exception as e:
            mc_res["err"] = e
    th = threading.Thread(target=do_mc); th.start()
    traces, jobs = [], []
    nruns = (8, 60)[q]
    for b in ("sec", "dbg"):
        exe = vlib.build_harness("drv_sec", "drv_sec.c", cfg=b)
        for i in range(nruns):
            out = os.path.join(od, "t_%s_%d.ndjson" % (b, i))
            traces.append((out, b))
            jobs.append((lambda exe=exe, out=out, i=i: vlib.sh([exe, "--out", out, "--seed", str(seed * 100003 + i), "--ops", str((2500, 5000)[q]), "--maxlive", "150"], timeout=600)))
    dres = vlib.parallel(jobs, nproc=14)
    vlib.check_complete(V, "C17", dres, traces, what=lambda t: "drv_sec@" + t[1])
    groups = [traces[i:i + 2] for i in range(0, len(traces), 2)]
    tvjobs = []
    for gi, g in enumerate(groups):
        cat = os.path.join(od, "cat_%d.ndjson" % gi)
        apifam.concat([t[0] for t in g], cat)
        tvjobs.append((lambda cat=cat: vlib.tlc_tv(cat, timeout=2400, xmx="3g")))
    res = vlib.parallel(tvjobs, nproc=12)
    consumed, other, misuses = 0, {}, {}
    for g, r in zip(groups, res):
        if r["status"] in ("error", "timeout"):
            raise vlib.InfraError("TLC trace validation %s: %s" % (r["status"], r["out"][-3000:]))
        consumed += r["consumed"] or 0
        members = [t[0] for t in g]
        seen = set()
        fails = list(r["guardfails"]) or ([("Unexplained", (r["consumed"] or 0) + 1, "")] if r["status"] == "rejected" else [])
        for name, line, detail in fails:
            tpath, lline = apifam.locate(members, line)
            op, ev = apifam.op_at(tpath, lline)
            b = next(t[1] for t in g if t[0] == tpath)
            sig = "%s:%s@%s" % (name, ev.get("kind", op), b)
            if (sig, tpath) in seen:
                continue
            seen.add((sig, tpath))
            if name in GUARDS or name == "Unexplained" or (name == "NoCrash" and b == "sec"):
                keep = os.path.join(vlib.keepdir("C17"), os.path.basename(tpath))
                shutil.copyfile(tpath, keep)
                V.violation(sig, "%s:%d" % (keep, lline), "guard %s failed (%s)" % (name, detail))
            else:
                other[sig] = other.get(sig, 0) + 1
    for sig, n in sorted(other.items()):
        V.note("not decisive for C17: %s (%d)" % (sig, n))
    for t, b in traces:
        for l in open(t):
            if l.startswith('{"e":"misuse"'):
                import json
                ev = json.loads(l)
                k = "%s/%s/%s" % (b, ev["kind"], ev["cls"])
                misuses[k] = misuses.get(k, 0) + 1
    th.join()
    if "err" in mc_res:
        raise mc_res["err"]
    mcr = mc_res["r"]
    events, opcount = apifam.summarize_traces([t[0] for t in traces])
    cov = {"states": mcr["distinct"], "transitions": mcr["generated"], "mc_module": "MiApiMC (the contract against which StaysConsistent is judged)",
           "traces_validated_against_impl": len(traces), "trace_events_validated": consumed, "trace_events_total": events,
           "misuses_by_build_kind_class": dict(sorted(misuses.items())), "builds": ["sec", "dbg"], "decisive_guards": sorted(GUARDS),
           "samples": [l.strip() for l in open(traces[0][0]) if l.startswith('{"e":"misuse"')][:4], "exhaustive": False}
    return V.finish("model_checking", cov, assumptions=[
        "the error callback is registered with mi_register_error; debug builds are not given forged links (internal assertions after a detected error are outside the claim); a crash in the secure build is a violation",
        "double free: second free issued right after the first while another block of the same page is live; overflow: one foreign byte within the fill bytes / canary, at most 16 bytes past the requested size; forged link: demanded only when the forged value decodes outside the page",
        "heap walks are not compared after a detected forged link (the list is cut there and the blocks behind it stay counted as used)"])
