"""C20 -- options, environment parsing and diagnostic output are total and memory-safe.

   MC   : exhaustive TLC run of the bounded option model (spec/MiOptions.tla, MiOptions_mc*.cfg)
   GEN  : TLC enumerates the value forms of the grammar (spec/MiOptionsGen.tla); this file only turns them into
          environments / scripts (spellings of the variable names, padding to long values, seeded sampling)
   RUN  : harness/drv_opts.c, one process per environment (rel, dbg, asan builds), plus the output modes
          (json / print / fmt) whose buffers end at a PROT_NONE page
   TV   : every recorded row is validated by TLC against spec/OptsTrace.tla (which re-parses the recorded environment
          with MiOptions!Parse); a failing guard = violation.  Nothing is judged in Python.
"""
import json, os, random, re, shutil, subprocess, threading, time
import vlib
from vlib import log
from checks import c20_fmts

PROP = "C20"
INFRA_GUARDS = {"Harness", "SpecTable"}
NOTE_GUARDS = {"SpecDefault"}
PROC_TIMEOUT = 120
NC = max(2, int(os.environ.get("VERIF_CORES", "10")))      # processes / TLC instances run in parallel


# ------------------------------------------------------------------------------------------------ build
def build_all():
    gen = os.path.join(vlib.BUILD, "gen", PROP)
    path, h, meta = c20_fmts.generate(vlib.REPO, gen)
    exes = {}

    def one(cfg):
        defs = ["-I" + gen, "-DVF_FMT_HASH=" + h]
        if cfg == "asan":
            # only memory errors are in scope: arithmetic UB in consumers of extreme option values
            # (e.g. purge_delay * arena_purge_mult in arena.c) is not what C20 states
            defs += ["-fno-sanitize=signed-integer-overflow,shift"]
        exes[cfg] = vlib.build_harness("drv_opts", "drv_opts.c", cfg=cfg, defs=defs)
    errs = []

    def guarded(cfg):
        try:
            one(cfg)
        except Exception as e:      # re-raised in the caller's thread
            errs.append(e)
    ths = [threading.Thread(target=guarded, args=(c,)) for c in ("rel", "dbg", "asan")]
    [t.start() for t in ths]
    [t.join() for t in ths]
    if errs:
        raise errs[0]
    return exes, meta


# ------------------------------------------------------------------------------------------------ forms from the spec
_re_form = re.compile(r'<<\s*"FORM",\s*(<<[\d,\s]*>>),\s*"(\w+)",\s*"(\w+)",\s*(TRUE|FALSE),\s*(TRUE|FALSE)\s*>>')


def gen_forms():
    r = vlib.tlc_run("MiOptionsGen", "MiOptionsGen.cfg", workers=2, timeout=300, xmx="2g", xss="256m", tag="c20gen")
    forms = []
    for m in _re_form.finditer(r["out"]):
        codes = bytes(int(x) for x in re.findall(r"\d+", m.group(1)))
        forms.append({"v": codes, "kn": m.group(2), "kk": m.group(3), "small": m.group(4) == "TRUE", "quick": m.group(5) == "TRUE"})
    if len(forms) < 100:
        raise vlib.InfraError("TLC produced no value forms:\n" + r["out"][-3000:])
    forms.sort(key=lambda f: f["v"])
    return forms


def option_table(exe, od):
    """names / legacy names / size flag as the BINARY reports them (dflt rows of a run with an empty environment)"""
    out = os.path.join(od, "probe.ndjson")
    subprocess.run([exe, "--out", out, "--mode", "env", "--src", "base"], env={}, stdout=subprocess.DEVNULL, stderr=subprocess.DEVNULL, timeout=PROC_TIMEOUT)
    opts = []
    for l in open(out):
        r = json.loads(l)
        if r["k"] == "dflt":
            opts.append({"i": r["i"] - 1, "name": r["opt"], "legacy": r["legacy"], "kib": r["kib"]})
    if not opts:
        raise vlib.InfraError("driver produced no option table")
    return opts


def spell(opt, variant):
    n = opt["name"]
    if variant % 4 == 2 and opt["legacy"]:
        return ("MIMALLOC_" + opt["legacy"].upper()).encode()
    if variant % 4 == 1:
        return ("mimalloc_" + n).encode()
    if variant % 4 == 0:
        return ("MIMALLOC_" + n.upper()).encode()
    return ("MiMalloc_" + n.title()).encode()


# ------------------------------------------------------------------------------------------------ running processes
class Runner:
    def __init__(self, od, exes):
        self.od, self.exes = od, exes
        self.procs = []       # dicts: build, kind, path, desc
        self.n = 0
        self.lock = threading.Lock()

    def job(self, build, kind, args, env=None, desc="", script=None):
        with self.lock:
            k = self.n
            self.n += 1
        path = os.path.join(self.od, "p_%s_%s_%d.ndjson" % (build, kind, k))
        p = {"build": build, "kind": kind, "path": path, "desc": desc, "k": k}
        self.procs.append(p)
        sp = None
        if script is not None:
            sp = os.path.join(self.od, "s_%s_%d.txt" % (build, k))
            with open(sp, "w") as f:
                f.write("\n".join(script) + "\n")
            args = list(args) + ["--script", sp]

        def run():
            e = {b"ASAN_OPTIONS": b"detect_leaks=0:exitcode=23:allocator_may_return_null=1", b"UBSAN_OPTIONS": b"print_stacktrace=1"}
            if env:
                e.update(env)
            cmd = [self.exes[build], "--out", path] + list(args)
            t0 = time.time()
            try:
                cp = subprocess.run(cmd, env=e, stdout=subprocess.DEVNULL, stderr=subprocess.PIPE, timeout=PROC_TIMEOUT)
                rc, err = cp.returncode, cp.stderr[-3000:].decode("utf8", "replace")
            except subprocess.TimeoutExpired:
                raise vlib.InfraError("driver timed out after %ds: %s %s" % (PROC_TIMEOUT, " ".join(cmd), desc))
            p["rc"], p["wall"] = rc, time.time() - t0
            if rc != 0:
                p["stderr"] = err
            # the exit status is a measurement; the trace specification decides what it means
            data = open(path, "rb").read() if os.path.exists(path) else b""
            if data and not data.endswith(b"\n"):
                data = data[:data.rfind(b"\n") + 1]        # a row cut short by a kill
            with open(path, "wb") as f:
                f.write(data)
                f.write((json.dumps({"k": "end", "rc": rc if rc >= 0 else 1000 - rc}) + "\n").encode())
            return p
        return run


def hexs(b):
    return b.hex() if b else "-"


def make_script(rng, opts, forms, nops, with_alloc=False):
    """a seeded Set/SetDefault/Enable/Disable/Get sequence, then a re-initialisation from a changed environment"""
    vals = [0, 1, -1, 2, 5, 1023, 1024, 4096, 2**31 - 1, 2**31, 2**40, 2**62, 2**63 - 1, -2**63, 2**63 - 2, -2**31, 1073741824, 1073741825]
    n = len(opts)
    gmin = next(o["i"] for o in opts if o["name"] == "guarded_min")
    gmax = next(o["i"] for o in opts if o["name"] == "guarded_max")

    def pick():
        r = rng.random()
        return gmin if r < 0.15 else gmax if r < 0.3 else rng.randrange(n)

    def ops(k):
        out = []
        for _ in range(k):
            i, r = pick(), rng.random()
            if r < 0.25:
                out.append("set %d %d" % (i, rng.choice(vals)))
            elif r < 0.45:
                out.append("setdef %d %d" % (i, rng.choice(vals)))
            elif r < 0.52:
                out.append("enable %d" % i)
            elif r < 0.59:
                out.append("disable %d" % i)
            elif r < 0.64:
                out.append("seten %d %d" % (i, rng.randrange(2)))
            elif r < 0.70:
                out.append("setendef %d %d" % (i, rng.randrange(2)))
            elif r < 0.90:
                out.append("get %d" % i)
            else:
                lo, hi = rng.choice(vals), rng.choice(vals)
                out.append("clamp %d %d %d" % (i, lo, hi))
                if rng.random() < 0.5:      # an option index outside the table (the first one behind it, far behind, in front)
                    out.append("badidx %d %d" % (rng.choice([n, n, n + 1, n + 5, 1000, -1, -7]), rng.choice(vals[:8])))
        return out
    s = ["dump"] + ops(nops) + ["dump"]
    if with_alloc:
        s.append("alloc")
    for _ in range(2):
        s.append("reset")
        for _ in range(rng.randrange(1, 4)):
            o = opts[pick()]
            f = rng.choice(forms)
            s.append("setenv %s %s" % (spell(o, rng.randrange(4)).decode(), hexs(f["v"])))
        s += ops(max(4, nops // 2))
        s += ["getall", "dump"]
    return s


def long_values(rng):
    d = lambda n: bytes(rng.choice(b"123456789") for _ in range(n))
    return [b"9" * 8192, b"9" * 64, b"9" * 65, d(63) + b"K", d(64) + b"K", d(70) + b"x", b"x" * 8192, b"true" + b"x" * 8000,
            b"\xff" * 4096, b"12" + b"\x01" * 100, b" " * 100, b"0" * 8191 + b"1", b"-" + b"9" * 8000, b"1" + b"0" * 62 + b"G",
            b"4" * 19 + b"KiB" + b"z" * 5000, bytes(rng.randrange(1, 256) for _ in range(8192)), b"%n%s" * 2048, b"5K" + b"=" * 700]


# ------------------------------------------------------------------------------------------------ trace validation
def read_rows(path):
    with open(path, "rb") as f:
        return f.read()


def validate(V, od, groups, timeout):
    """groups: list of (tag, baseline_proc or None, [procs]).  Returns (rows consumed, rows total)."""
    jobs, metas = [], []
    for gi, (tag, basep, members) in enumerate(groups):
        cat = os.path.join(od, "opts_%s_%d.ndjson" % (tag, gi))
        index, line = [], 0
        with open(cat, "wb") as w:
            for p in ([basep] if basep else []) + members:
                data = read_rows(p["path"])
                n = data.count(b"\n")
                index.append((line + 1, line + n, p))
                line += n
                w.write(data)
        metas.append((cat, index, basep, line))
        jobs.append(lambda cat=cat, line=line: vlib.tlc_tv(cat, module="OptsTrace", cfg="OptsTrace.cfg", timeout=timeout, xmx="3g", nlines=line))
    t0 = time.time()
    res = vlib.parallel(jobs, nproc=max(2, NC - 2))
    consumed = total = 0
    for (cat, index, basep, nlines), r in zip(metas, res):
        total += nlines
        if r["status"] in ("error", "timeout"):
            raise vlib.InfraError("TLC trace validation of %s: %s\n%s" % (cat, r["status"], r["out"][-3000:]))
        consumed += r["consumed"] or 0
        fails = list(r["guardfails"])
        if r["status"] == "rejected" and not fails:
            fails.append(("Unexplained", (r["consumed"] or 0) + 1, "no action of the specification explains this row"))
        seen = set()
        for name, line, detail in fails:
            detail = detail.strip().strip('"')
            hit = next(((a, b, p) for a, b, p in index if a <= line <= b), None)
            if name in INFRA_GUARDS:
                raise vlib.InfraError("guard %s failed (%s) at %s:%d -- the specification's option table does not match this source tree" % (name, detail, cat, line))
            if name in NOTE_GUARDS:
                V.note("default of option %s differs from the table transcribed in MiOptions.tla (not part of the property)" % detail)
                continue
            ident = detail.split("/")[0] if name == "FmtBounded" else detail
            if name in ("JsonInBuffer", "JsonOwned"):
                ident = "size"
            if name == "Total" and detail.startswith("exit status"):
                ident = "exit"
            sig = "%s:%s" % (name, ident)
            if hit is None:
                V.violation(sig, "%s:%d" % (cat, line), detail)
                continue
            a, b, p = hit
            if (sig, p["path"]) in seen:
                continue
            seen.add((sig, p["path"]))
            keep = os.path.join(vlib.keepdir(PROP), "opts_%s_%s_%d.ndjson" % (p["build"], p["kind"], p["k"]))
            off = 0
            with open(keep, "wb") as w:
                if basep and basep is not p:
                    bd = read_rows(basep["path"])
                    w.write(bd)
                    off = bd.count(b"\n")
                w.write(read_rows(p["path"]))
            row = ""
            try:
                row = open(cat, "rb").read().split(b"\n")[line - 1][:300].decode("utf8", "replace")
            except Exception:
                pass
            V.violation(sig, "%s:%d" % (keep, line - a + 1 + off),
                        "guard %s failed (%s) [%s build, %s] row: %s%s" % (name, detail, p["build"], p["desc"][:200], row,
                                                                          (" stderr: " + p["stderr"][-600:].replace("\n", " | ")) if p.get("stderr") else ""))
    log("  TLC validated %d row files (%d rows) in %.1fs" % (len(groups), total, time.time() - t0))
    return consumed, total


def chunked(lst, rows_per_group, rowcount):
    out, cur, n = [], [], 0
    for p in lst:
        c = rowcount(p)
        if cur and n + c > rows_per_group:
            out.append(cur)
            cur, n = [], 0
        cur.append(p)
        n += c
    if cur:
        out.append(cur)
    return out


# ------------------------------------------------------------------------------------------------ the check
def run(tier, seed):
    q = tier == "quick"
    V = vlib.Verdict(PROP, tier, seed)
    od = vlib.outdir(PROP)
    for f in os.listdir(od):
        fp = os.path.join(od, f)
        if os.path.isfile(fp):
            os.remove(fp)
    shutil.rmtree(vlib.keepdir(PROP), ignore_errors=True)      # replay artefacts of earlier runs
    rng = random.Random(seed)
    t0 = time.time()
    exes, fmt_meta = build_all()
    log("  %d format strings extracted from the sources; drivers built in %.1fs" % (len(fmt_meta), time.time() - t0))

    # ---- MC in the background
    mc_cfg = "MiOptions_mc.cfg" if q else "MiOptions_mc_thorough.cfg"
    mc_res = {}

    def do_mc():
        try:
            mc_res["r"] = vlib.tlc_run("MiOptions", mc_cfg, workers=max(2, NC // 2), timeout=(300 if q else 1500), xmx="6g", xss="256m")
        except Exception as e:
            mc_res["err"] = e
    th = threading.Thread(target=do_mc)
    th.start()

    # ---- GEN
    forms = gen_forms()
    opts = option_table(exes["rel"], od)
    usable = [f for f in forms if f["kn"] != "undemanded" and f["kk"] != "undemanded"]
    log("  GEN: %d value forms enumerated by TLC from MiOptions (%d usable), %d options" % (len(forms), len(usable), len(opts)))
    bools = [f for f in usable if f["kn"] == "bool"]
    junk = [f for f in usable if f["kk"] == "malformed"]
    nums = [f for f in usable if f["kk"] == "num"]
    if q:
        always = [f for f in usable if f["quick"]]
        rest = [f for f in usable if not f["quick"]]
        sel = {"rel": always + rng.sample(rest, 100), "asan": rng.sample(always, 140) + rng.sample(rest, 30),
               "dbg": rng.sample(always, 40) + rng.sample(rest, 10)}
    else:
        sel = {"rel": usable, "asan": usable, "dbg": bools + junk + rng.sample(nums, 400)}

    R = Runner(od, exes)
    jobs = []
    base = {}
    for b in ("rel", "dbg", "asan"):
        # empty-environment baseline (+ a scripted sequence on default options, with real allocations)
        sc = make_script(rng, opts, usable, 30, with_alloc=(b != "asan"))
        jobs.append(R.job(b, "base", ["--mode", "env", "--src", "base"], env={}, desc="empty environment", script=sc))
        base[b] = R.procs[-1]
    pairs = set()
    for b in ("rel", "dbg", "asan"):
        # (a) every option set to the same form, spellings of the variable names rotate
        for k, f in enumerate(sel[b]):
            env = {}
            for o in opts:
                if b == "asan" and o["name"] == "reserve_os_memory" and not f["small"]:
                    continue      # ASan would shadow-poison a multi-GiB reservation made at load (minutes, tens of GiB)
                env[spell(o, o["i"] + k)] = f["v"]
                pairs.add((o["i"], f["v"]))
            jobs.append(R.job(b, "all", ["--mode", "env"], env=env, desc="all options = %r" % f["v"]))
        # (b) one option per process: all option indices, seeded forms, incl. old and new name with different values
        reps = 1 if q else 4
        for rep in range(reps):
            for o in opts:
                f = rng.choice(usable)
                if b == "asan" and o["name"] == "reserve_os_memory" and not f["small"]:
                    f = rng.choice(bools)
                env = {spell(o, rep + o["i"]): f["v"]}
                if o["legacy"] and rng.random() < 0.5:
                    g = rng.choice(bools + nums[:200])
                    if not (b == "asan" and o["name"] == "reserve_os_memory"):
                        env[("MIMALLOC_" + o["legacy"].upper()).encode()] = g["v"]
                pairs.add((o["i"], f["v"]))
                jobs.append(R.job(b, "one", ["--mode", "env"], env=env, desc="%s" % env))
        # (b2) two variables of which one name is a prefix of the other (eager_commit / eager_commit_delay, ...), in both orders and with
        #      different values: the lookup must match the whole name
        for o1 in opts:
            for o2 in opts:
                if o1 is not o2 and o2["name"].startswith(o1["name"]):
                    for v1, v2 in ((b"0", b"4"), (b"1", b"7"), (b"on", b"12")):
                        for order in (0, 1):
                            n1, n2 = ("MIMALLOC_" + o1["name"].upper()).encode(), ("MIMALLOC_" + o2["name"].upper()).encode()
                            env = {n2: v2, n1: v1} if order == 0 else {n1: v1, n2: v2}
                            jobs.append(R.job(b, "one", ["--mode", "env"], env=env, desc="%s" % env))
        # (c) long / hostile values (few variables per process: the environment is part of the validated state)
        if b != "dbg" or not q:
            for k, lv in enumerate(long_values(rng)):
                picks = rng.sample([o for o in opts if o["name"] != "reserve_os_memory"], 3) + [o for o in opts if o["name"] == "arena_reserve"]
                env = {spell(o, k): lv for o in picks}
                for o in picks:
                    pairs.add((o["i"], lv))
                jobs.append(R.job(b, "long", ["--mode", "env"], env=env, desc="%d-byte value %r... for %s" % (len(lv), lv[:24], [o["name"] for o in picks])))
        # (d) scripted sequences on top of a seeded environment
        for k in range(4 if q else 40):
            env = {}
            for _ in range(rng.randrange(0, 4)):
                o, f = rng.choice(opts), rng.choice(usable)
                if b == "asan" and o["name"] == "reserve_os_memory" and not f["small"]:
                    continue
                env[spell(o, rng.randrange(4))] = f["v"]
            jobs.append(R.job(b, "script", ["--mode", "env"], env=env, desc="script on %s" % env, script=make_script(rng, opts, usable, 40)))
    # ---- output half
    outjobs = []
    for b in ("rel", "dbg", "asan"):
        for poke in ((1,) if q and b != "dbg" else (0,) if q else (0, 1)):
            outjobs.append(R.job(b, "json", ["--mode", "json", "--lo", "0", "--hi", "4096", "--poke", str(poke)], desc="mi_stats_get_json sizes 0..4096 poke=%d" % poke))
        for poke in (0, 1):
            outjobs.append(R.job(b, "print", ["--mode", "print", "--poke", str(poke)], desc="stats/options/arena printing poke=%d" % poke))
            outjobs.append(R.job(b, "print", ["--mode", "print", "--poke", str(poke)], env={b"MIMALLOC_VERBOSE": b"2", b"MIMALLOC_SHOW_STATS": b"1"},
                                 desc="printing with verbose=2 show_stats=1 poke=%d" % poke))
        if not (q and b == "dbg"):
            outjobs.append(R.job(b, "fmt", ["--mode", "fmt", "--maxsize", "140" if q else "700"], desc="formatter x %d formats" % len(fmt_meta)))
    t0 = time.time()
    vlib.parallel(jobs + outjobs, nproc=NC)
    nproc_env = len(jobs)
    log("  ran %d processes (%d environments/scripts, %d output runs) in %.1fs" % (len(R.procs), nproc_env, len(outjobs), time.time() - t0))

    # ---- TV
    counts = {}

    def rowcount(p):
        if p["path"] not in counts:
            counts[p["path"]] = read_rows(p["path"]).count(b"\n")
        return counts[p["path"]]
    groups = []
    for b in ("rel", "dbg", "asan"):
        envp = [p for p in R.procs if p["build"] == b and p["kind"] in ("all", "one", "long", "script")]
        for g in chunked(envp, 9000 if q else 30000, rowcount):
            groups.append(("env_" + b, base[b], g))
        groups.append(("base_" + b, None, [base[b]]))
        outp = [p for p in R.procs if p["build"] == b and p["kind"] in ("json", "print", "fmt")]
        for g in chunked(outp, 4500, rowcount):
            groups.append(("out_" + b, None, g))
    consumed, total = validate(V, od, groups, timeout=(600 if q else 2400))

    th.join()
    if "err" in mc_res:
        raise mc_res["err"]
    mc = mc_res["r"]
    if mc["timeout"] or mc["error"]:
        raise vlib.InfraError("TLC model check of MiOptions (%s) failed: rc=%s\n%s" % (mc_cfg, mc["rc"], mc["out"][-3000:]))
    if mc["violation"]:
        raise vlib.InfraError("the bounded MiOptions model violates its own invariants (specification error):\n" + mc["out"][-3000:])
    log("  MC: MiOptions/%s: %d distinct states, %d transitions, depth %d in %.1fs" % (mc_cfg, mc["distinct"], mc["generated"], mc["depth"], mc["wall"]))

    kinds = {}
    for p in R.procs:
        kinds[p["build"] + "/" + p["kind"]] = kinds.get(p["build"] + "/" + p["kind"], 0) + 1
    nonzero = [p for p in R.procs if p.get("rc", 0) != 0]
    def rows_of(p, want, n):
        out = []
        for l in open(p["path"]):
            if any(w in l for w in want):
                out.append(l.strip()[:260])
                if len(out) >= n:
                    break
        return out
    samples = []
    for kind, want, n in (("all", ('"opt":"purge_delay","src"', '"opt":"arena_reserve","src"', '"k":"start"'), 3), ("long", ('"opt":"arena_reserve","src"',), 1), ("script", ('"k":"op"', '"k":"clamp"'), 4),
                          ("json", ('"size":100,', '"size":0,'), 3), ("print", ('"k":"chunk"',), 3), ("fmt", ('"k":"fmt"', '"k":"bufout"'), 1)):
        cands = [p for p in R.procs if p["kind"] == kind and p["build"] == "rel"]
        if cands:
            p = cands[len(cands) // 2]
            samples.append({"process": "%s build, %s" % (p["build"], p["desc"][:160]), "exit_status": p.get("rc"), "rows": rows_of(p, want, n)})
    sp = [f for f in sorted(os.listdir(od)) if f.startswith("s_rel_")]
    if sp:
        samples.append({"script": open(os.path.join(od, sp[-1])).read().split("\n")[:14]})
    samples.append({"formats": ["%s  (%s; args %s)" % (f, w, ",".join(ty)) for f, w, ty in fmt_meta[10:14]]})
    cov = {
        "states": mc["distinct"], "transitions": mc["generated"], "mc_depth": mc["depth"], "mc_config": mc_cfg,
        "traces_validated_against_impl": len(R.procs), "rows_validated": consumed, "rows_total": total,
        "processes_by_build_and_kind": dict(sorted(kinds.items())),
        "value_forms_enumerated_by_tlc": len(forms), "value_forms_used": len({f["v"] for b in sel for f in sel[b]}),
        "evaluations": len(R.procs), "distinct_nontrivial": len(pairs),
        "rule": "a case is one (option index, environment value) pair given to a real process; values are the grammar forms enumerated by TLC "
                "from MiOptions (booleans in all spellings, signed decimals incl. LONG_MAX/2^64 boundaries, sizes with every suffix, junk) "
                "plus long/hostile paddings up to 8 KiB; distinct_nontrivial counts distinct (option, value) pairs actually run",
        "formats_extracted_from_sources": len(fmt_meta), "json_buffer_sizes": "0..4096 and NULL", "formatter_buffer_sizes": "0..%d" % (140 if q else 700),
        "nonzero_exit_processes": len(nonzero),
        "exhaustive": not q,
        "samples": samples,
    }
    return V.finish("model_checking", cov, assumptions=[
        "TLC 1.8.0 and the CommunityModules Json/IOUtils are trusted",
        "option half: bounded exhaustive MC of MiOptions (%s) + every row of every process validated by TLC against OptsTrace/MiOptions!Parse; "
        "quick = seeded sample of the TLC-enumerated forms, thorough = all of them" % mc_cfg,
        "buffer-safety half: a TLA+ model adds only the enumeration and the postconditions (terminated, strlen < size, ret = strlen); writes outside a buffer "
        "are OBSERVED: buffers end at a PROT_NONE page (fault -> crash row) and the same inputs run under AddressSanitizer (report -> non-zero exit -> Total guard)",
        "harness measurements (strlen, first NUL, table snapshot before load, exit status) are trusted; values are compared exactly as base-1024 limb lists",
        "not demanded (upstream behaviour, DESIGN 8.4): substring matches of the boolean keywords, suffix-only size values, bare 'IB', leading white space; "
        "mi_option_get_size is not demanded where value*1024 wraps size_t; arithmetic UB in consumers of extreme option values is out of scope (UBSan's integer checks are off)",
        "LP64 Linux: long and size_t are 64 bit; environment values are cut to 64 characters by _mi_getenv's buffer (modelled)",
    ])
