from checks import apifam
GUARDS = {"ReallocKeepsPrefix", "FailedReallocKeepsOld", "MovedDisjointFromOld", "ExpandSucceedsUpToUsable", "ExpandNeverMoves",
          "ExpandWithinUsable", "UsableAtLeastRequested", "NoOverlap", "ReallocOfLiveBlock", "FreeOfLiveBlock", "ContentsKept.gen", "ContentsKept.bytes",
          "WalkCount", "WalkOnlyLive", "WalkEveryLiveOnce", "OutParamUnchanged",
          "MalformedFailsCleanly@re"}       # a re-allocation whose new size (count * size) cannot be represented must fail: a block "of at least the new size" does not exist
def run(tier, seed):
    return apifam.run_api("C05", tier, seed, profiles=["c05"], builds=["rel", "dbg", "sec"], own_guards=GUARDS, crash_decisive=True, gen=(16, 150))
