from checks import apifam
GUARDS = {"ReallocKeepsPrefix", "FailedReallocKeepsOld", "MovedDisjointFromOld", "ExpandSucceedsUpToUsable", "ExpandNeverMoves",
          "ExpandWithinUsable", "UsableAtLeastRequested", "NoOverlap", "ReallocOfLiveBlock", "FreeOfLiveBlock", "ContentsKept.gen", "ContentsKept.bytes",
          "WalkCount", "WalkOnlyLive", "WalkEveryLiveOnce", "OutParamUnchanged"}
def run(tier, seed):
    return apifam.run_api("C05", tier, seed, profiles=["c05"], builds=["rel", "dbg", "sec"], own_guards=GUARDS, crash_decisive=True, gen=(16, 150))
