"""C19 -- drop-in override: every standard entry point is served by one allocator.

   MC   : TLC enumerates the complete (allocating entry point x releasing/resizing/querying entry point) relation of
          spec/MiOverride.tla over the configured sizes/alignments against an abstract allocator (MiOverrideMC), checks the
          invariants, the absence of stuck states (every variant runs to completion) and EMITS one program per variant.
   RUN  : the programs are executed by harness/ovr/ovr_c.c / ovr_cpp.cpp -- no mi_ allocation call, standard entry points
          only -- (a) under LD_PRELOAD of libmimalloc.so, (b) linked with the static override object first; both are built
          by /repo's own CMakeLists.txt from the CURRENT working tree (cached by tree hash under build/ovr-<hash>/).
          Two ordinary whole programs (smoke_c.c, smoke_cpp.cpp) run in both modes as well.
   TV   : every recorded trace is validated by TLC against spec/OverrideTrace.tla (MiOverride + MiApi); TLC decides.
"""
import hashlib, json, os, random, re, shutil, threading, time
import vlib
from vlib import log

PROP = "C19"
# guards that only say "the driver / the generated program is inconsistent": never a verdict about mimalloc
HARNESS_GUARDS = {"ObsComplete", "CallWellFormed", "KnownEntryPoint", "PairStartsClean", "PairInMatrix", "SkipOnlyForeign", "LeftoverBlock"}
CFLAGS = ["-O1", "-g", "-fno-builtin", "-w"]
CXXFLAGS = ["-std=c++17", "-O1", "-g", "-fno-builtin", "-fno-allocation-dce", "-w"]
OVR = os.path.join(vlib.HARNESS, "ovr")


# ------------------------------------------------------------------------------------------------ platform
def probe_cfree(od):
    """Does the platform libc still provide cfree to newly linked programs (glibc < 2.26)?"""
    src = os.path.join(od, "probe_cfree.c")
    with open(src, "w") as f:
        f.write("extern void cfree(void*);\nint main(void){ cfree((void*)0); return 0; }\n")
    rc, _ = vlib.sh(["gcc", "-w", src, "-o", os.path.join(od, "probe_cfree")], timeout=60)
    return rc == 0


# ------------------------------------------------------------------------------------------------ builds
def build_key():
    """Cache key = exactly the inputs of the two builds (vlib.tree_hash over the allocator sources, the CMake files and the
    C19 drivers); vlib.repo_hash() covers the same allocator sources but also every other property's harness."""
    paths = [os.path.join(vlib.REPO, "src"), os.path.join(vlib.REPO, "include"), os.path.join(vlib.REPO, "CMakeLists.txt"),
             os.path.join(vlib.REPO, "cmake"), OVR, os.path.join(vlib.HARNESS, "vf_rt.h")]
    return vlib.tree_hash([p for p in paths if os.path.exists(p)])


def prune_old(keep):
    ds = sorted((d for d in os.listdir(vlib.BUILD) if d.startswith("ovr-") and d != os.path.basename(keep)),
                key=lambda d: os.path.getmtime(os.path.join(vlib.BUILD, d)))
    for d in ds[:-2]:
        shutil.rmtree(os.path.join(vlib.BUILD, d), ignore_errors=True)


def build_lib(root, name, btype, extra=()):
    """libmimalloc.so + the override object, by /repo's CMakeLists.txt (MI_OVERRIDE=ON)."""
    d = os.path.join(root, name)
    stamp = os.path.join(d, "ok.stamp")
    so, obj = os.path.join(d, "libmimalloc.so" if btype != "Debug" else "libmimalloc-debug.so"), None
    if os.path.exists(stamp):
        so, obj = open(stamp).read().split("\n")[:2]
        if os.path.exists(so) and os.path.exists(obj):
            return so, obj
    shutil.rmtree(d, ignore_errors=True)
    os.makedirs(d)
    t0 = time.time()
    vlib.sh(["cmake", "-S", vlib.REPO, "-B", d, "-G", "Ninja", "-DCMAKE_BUILD_TYPE=" + btype, "-DMI_BUILD_TESTS=OFF",
             "-DMI_BUILD_STATIC=OFF", "-DMI_BUILD_SHARED=ON", "-DMI_BUILD_OBJECT=ON", "-DMI_OVERRIDE=ON"] + list(extra), timeout=300, check=True)
    rc, out = vlib.sh(["ninja", "-C", d, "-j4", "mimalloc", "mimalloc-obj-target"], timeout=900)
    if rc != 0:
        raise vlib.InfraError("build of the override library failed (%s):\n%s" % (name, out[-5000:]))
    sos = [f for f in os.listdir(d) if re.fullmatch(r"libmimalloc[-\w]*\.so", f)]
    objs = [f for f in os.listdir(d) if re.fullmatch(r"mimalloc[-\w]*\.o", f)]
    if not sos or not objs:
        raise vlib.InfraError("override library / object not produced in %s: %s" % (d, os.listdir(d)))
    so, obj = os.path.join(d, sos[0]), os.path.join(d, objs[0])
    open(stamp, "w").write(so + "\n" + obj + "\n")
    log("  built %s and %s [%s] in %.1fs" % (os.path.basename(so), os.path.basename(obj), btype, time.time() - t0))
    return so, obj


def build_programs(root, name, obj, has_cfree=False):
    """The drivers: dynamic (for LD_PRELOAD; mimalloc is not linked) and static (override object FIRST on the link line)."""
    d = os.path.join(root, name, "prog")
    stamp = os.path.join(d, "ok.stamp")
    exes = {}
    for base, lang in (("ovr_c", "c"), ("ovr_cpp", "cpp"), ("smoke_c", "c"), ("smoke_cpp", "cpp")):
        exes[(base, "preload")] = os.path.join(d, base)
        exes[(base, "static")] = os.path.join(d, base + "_static")
    if os.path.exists(stamp) and all(os.path.exists(e) for e in exes.values()):
        return exes
    os.makedirs(d, exist_ok=True)
    jobs = []
    for (base, mode), exe in exes.items():
        cpp = base.endswith("cpp")
        src = os.path.join(OVR, base + (".cpp" if cpp else ".c"))
        cmd = (["g++"] + CXXFLAGS if cpp else ["gcc"] + CFLAGS) + ["-I" + vlib.HARNESS] + (["-DOVR_HAS_CFREE=1"] if has_cfree else [])
        cmd += ([obj] if mode == "static" else []) + [src, "-o", exe, "-lpthread", "-ldl"]
        if mode == "static" and name == "cxx" and not cpp:
            cmd.append("-lstdc++")       # a C program linked with the C++-compiled override object needs the C++ runtime
        jobs.append(lambda cmd=cmd: vlib.sh(cmd, timeout=300))
    t0 = time.time()
    for rc, out in vlib.parallel(jobs, nproc=6):
        if rc != 0:
            raise vlib.InfraError("build of an override driver failed:\n" + out[-4000:])
    open(stamp, "w").write("ok")
    log("  built %d driver programs [%s] in %.1fs" % (len(jobs), name, time.time() - t0))
    return exes


# ------------------------------------------------------------------------------------------------ MC + program generation
def write_cfgs(od, has_cfree, q):
    """The configurations of spec/ with the platform's HasCfree."""
    sub = lambda s: re.sub(r"HasCfree\s*=\s*\w+", "HasCfree = %s" % ("TRUE" if has_cfree else "FALSE"), s)
    mc = os.path.join(od, "MiOverride_mc.cfg")
    open(mc, "w").write(sub(open(os.path.join(vlib.SPEC, ("MiOverride_mc.cfg", "MiOverride_mc_thorough.cfg")[q])).read()))
    tv = os.path.join(od, "OverrideTrace.cfg")
    open(tv, "w").write(sub(open(os.path.join(vlib.SPEC, "OverrideTrace.cfg")).read()))
    return mc, tv


def enumerate_matrix(mc_cfg, q):
    r = vlib.tlc_run("MiOverrideMC", mc_cfg, workers=6, timeout=(600 if q == 0 else 2400), xmx="8g", tag="ovr_mc")
    if r["timeout"]:
        raise vlib.InfraError("TLC enumeration of the override matrix timed out")
    if r["error"] or r["violation"]:
        raise vlib.InfraError("the bounded MiOverride model violates its own invariants or has a stuck state (specification error):\n"
                              + "\n".join(l for l in r["out"].splitlines() if "PROGRAM" not in l)[-4000:])
    progs, seen = [], set()
    for m in re.finditer(r'<<"PROGRAM", "(.*)">>', r["out"]):
        s = m.group(1).replace('\\"', '"')
        if s not in seen:
            seen.add(s)
            progs.append(json.loads(s))
    m = re.search(r"Finished computing initial states: (\d+) distinct state", r["out"])
    nvariants = int(m.group(1)) if m else -1
    if nvariants != len(progs):
        raise vlib.InfraError("TLC emitted %d programs for %d variants of the matrix (specification error)" % (len(progs), nvariants))
    progs.sort(key=lambda p: json.dumps(p, sort_keys=True))
    return progs, r


def write_prog(progs, path):
    with open(path, "w") as f:
        for p in progs:
            f.write("P %s %s %s %s\n" % (p["ae"], p["re"], p["flavour"], "true" if p["std"] else "false"))
            for c in p["calls"]:
                f.write("C %s %d %d %d\n" % (c["op"], c["id"], c["n"], c["al"]))


# ------------------------------------------------------------------------------------------------ analysis helpers
class TraceIndex:
    """A recorded trace with, for every line, the pair marker that precedes it."""

    def __init__(self, path):
        self.lines = open(path).read().splitlines()
        self.pair_of, cur = [], None
        for l in self.lines:
            if l.startswith('{"e":"pair"'):
                cur = l
            self.pair_of.append(cur)

    def ev(self, line):
        try:
            return json.loads(self.lines[line - 1]) if 1 <= line <= len(self.lines) else {}
        except ValueError:
            return {}

    def pair(self, line):
        p = self.pair_of[line - 1] if 1 <= line <= len(self.lines) else None
        return json.loads(p) if p else None

    def role(self, line):
        """(entry point, is it one of the two witness blocks?) of the step at `line` (a crash belongs to the call before it)."""
        ev = self.ev(line)
        if ev.get("e") == "crash":
            line -= 1
            ev = self.ev(line)
        op = ev.get("op", ev.get("e", "?"))
        bid = ev.get("id", 0)
        if ev.get("e") == "ret" and not bid:
            bid = self.ev(line - 1).get("id", 0)
        return op, (bid % 16) in (1, 2)


def run(tier, seed):
    q = 0 if tier == "quick" else 1
    V = vlib.Verdict(PROP, tier, seed)
    od = vlib.outdir(PROP)
    for f in os.listdir(od):
        p = os.path.join(od, f)
        if os.path.isfile(p):
            os.remove(p)
    os.makedirs(vlib.BUILD, exist_ok=True)
    has_cfree = probe_cfree(od)
    mc_cfg, tv_cfg = write_cfgs(od, has_cfree, q)

    # ---- builds (background) while TLC enumerates the matrix
    root = os.path.join(vlib.BUILD, "ovr-" + build_key())
    os.makedirs(root, exist_ok=True)
    os.utime(root)
    prune_old(root)
    # rel: the default build (library compiled as C); cxx: MI_USE_CXX=ON, the library compiled as C++ (operator new can throw);
    # dbg: MI_DEBUG assertions (thorough)
    cfgs = [("rel", "Release", ()), ("cxx", "Release", ("-DMI_USE_CXX=ON",))] + ([("dbg", "Debug", ())] if q == 1 else [])
    built, berr = {}, []

    def do_build(name, btype, extra):
        try:
            so, obj = build_lib(root, name, btype, extra)
            built[name] = (so, obj, build_programs(root, name, obj, has_cfree))
        except Exception as e:
            berr.append(e)
    ths = [threading.Thread(target=do_build, args=c) for c in cfgs]
    for th in ths:
        th.start()
    t0 = time.time()
    try:
        progs, mc = enumerate_matrix(mc_cfg, q)
    finally:
        for th in ths:
            th.join()
    built = {c[0]: built[c[0]] for c in cfgs if c[0] in built}      # fixed order
    if berr:
        raise berr[0]
    pairs = sorted(set((p["ae"], p["re"]) for p in progs if p["re"] != "none"))
    aes = sorted(set(a for a, _ in pairs))
    res_ = sorted(set(r for _, r in pairs))
    log("  MC: %d states, %d transitions; %d programs = %d pairs (%d allocating x %d releasing entry points) x sizes/alignments + %d malformed / unsatisfiable requests (posix_memalign, reallocarray, every operator new form); %.1fs"
        % (mc["distinct"], mc["generated"], len(progs), len(pairs), len(aes), len(res_), sum(1 for p in progs if p["re"] == "none"), time.time() - t0))
    if len(pairs) != len(aes) * len(res_):
        raise vlib.InfraError("the emitted pairs are not the full product")

    # ---- program files: shuffled per seed (pairs meet the allocator in different states), sharded for parallel runs
    rng = random.Random(seed)
    runs = []      # (trace path, cfg name, mode, lang, nprogs)
    jobs = []
    nshard = (4, 10)[q]
    for name, (so, obj, exes) in built.items():
        lib = "cxx" if name == "cxx" else "c"
        for lang in ("c", "cpp"):
            # the failing-operator-new programs are specific to how the library was compiled; the C++-compiled library runs
            # them (and the smoke programs) always, the whole matrix in the thorough tier
            sel = [p for p in progs if (lang == "cpp" or p["flavour"] == "c") and p["lib"] in ("any", lib)
                   and (name != "cxx" or q == 1 or p["lib"] == "cxx")]
            if not sel:
                continue
            for rep in range((1, 2)[q]):
                order = list(sel)
                rng.shuffle(order)
                k = max(50, (len(order) + nshard - 1) // nshard)
                for si in range(0, len(order), k):
                    pf = os.path.join(od, "prog_%s_%s_%d_%d.txt" % (name, lang, rep, si // k))
                    write_prog(order[si:si + k], pf)
                    for mode in ("preload", "static"):
                        tr = os.path.join(od, "ovr_%s_%s_%s_%d_%d.ndjson" % (name, lang, mode, rep, si // k))
                        exe = exes[("ovr_" + lang, mode)]
                        cmd = ["env", "-i"] + (["LD_PRELOAD=" + so] if mode == "preload" else []) + [exe, "--out", tr, "--prog", pf, "--mode", mode, "--dir", od, "--watchdog", str((40, 200)[q]), "--lib", lib]
                        runs.append((tr, name, mode, lang, len(order[si:si + k])))
                        jobs.append(lambda cmd=cmd: vlib.sh(cmd, timeout=420))
        for lang in ("c", "cpp"):
            for mode in ("preload", "static"):
                tr = os.path.join(od, "ovr_smoke_%s_%s_%s.ndjson" % (name, lang, mode))
                exe = exes[("smoke_" + lang, mode)]
                cmd = ["env", "-i"] + (["LD_PRELOAD=" + so] if mode == "preload" else []) + [exe, "--out", tr, "--mode", mode, "--dir", od, "--lib", lib]
                runs.append((tr, name, mode, lang, 0))
                jobs.append(lambda cmd=cmd: vlib.sh(cmd, timeout=300))
    t0 = time.time()
    res = vlib.parallel(jobs, nproc=6)
    for (rc, o), rn in zip(res, runs):
        if not os.path.exists(rn[0]) or os.path.getsize(rn[0]) == 0:
            raise vlib.InfraError("override driver produced no trace (rc=%d): %s\n%s" % (rc, rn[0], o[-2000:]))
    log("  ran %d executions (%s; LD_PRELOAD and static override; C and C++) in %.1fs" % (len(jobs), "+".join(built), time.time() - t0))

    # ---- TV
    t0 = time.time()
    tvres = vlib.parallel([(lambda tr=rn[0]: vlib.tlc_tv(tr, module="OverrideTrace", cfg=tv_cfg, timeout=(600, 2400)[q], xmx="3g")) for rn in runs], nproc=6)
    log("  TLC validated %d traces in %.1fs" % (len(runs), time.time() - t0))

    consumed = total = 0
    viol = {}          # (guard, ae, re, op) -> (replay, detail)
    harness_fail = []
    pairs_ok = {}
    for rn, r in zip(runs, tvres):
        tr = rn[0]
        if r["status"] in ("error", "timeout"):
            raise vlib.InfraError("TLC trace validation %s on %s: %s" % (r["status"], tr, r["out"][-3000:]))
        consumed += r["consumed"] or 0
        total += r["total"]
        fails = list(r["guardfails"])
        if (r["consumed"] or 0) < r["total"] and not any(g[0].startswith("Invariant.") for g in fails):
            fails.append(("Unexplained", (r["consumed"] or 0) + 1, "no action of the specification explains this event"))
        keep = None
        ti = TraceIndex(tr) if fails else None
        for name, line, detail in fails:
            op, witness = ti.role(line)
            pair = ti.pair(line)
            if name in HARNESS_GUARDS:
                harness_fail.append((name, tr, line, op))
                continue
            if keep is None:
                keep = os.path.join(vlib.keepdir(PROP), os.path.basename(tr))
                shutil.copyfile(tr, keep)
            if pair is None:
                key = (name, "program", rn[3], op)
            elif witness:
                key = (name, "witness", "", op)
            else:
                key = (name, pair["ae"], pair["re"], op)
            viol.setdefault(key, ("%s:%d" % (keep, line), "%s [%s build, %s, %s driver] %s" % (op, rn[1], rn[2], rn[3], str(detail).strip('"'))))
    if harness_fail and not viol:
        raise vlib.InfraError("driver/program inconsistency reported by the trace spec: %s" % (harness_fail[:5],))
    for h in harness_fail[:5]:
        V.note("driver-consistency guard %s failed at %s:%d (%s), secondary to the violations" % h)

    # signatures: guard + entry-point pair; a failure of the allocating step does not depend on the releasing entry point,
    # one of a releasing entry point that occurs for every allocating entry point is reported once
    sigs = {}
    for (name, ae, re_, op), (rp, det) in sorted(viol.items()):
        if ae == "program":
            sig = "%s:%s(whole-program %s)" % (name, op, re_)
        elif ae == "witness":
            sig = "%s:%s(witness block)" % (name, op)
        elif op == ae:
            sig = "%s:%s->*" % (name, ae)
        else:
            sig = "%s:%s->%s" % (name, ae, re_) + ("" if op == re_ else "(%s)" % op)
        sigs.setdefault(sig, (rp, det, name, ae, re_, op))
    byrel, byfin = {}, {}
    plain = lambda ae: ae not in ("program", "witness")
    for sig, (rp, det, name, ae, re_, op) in sigs.items():
        if plain(ae) and op == re_:
            byrel.setdefault((name, re_), set()).add(ae)
        elif plain(ae) and op != ae:
            byfin.setdefault((name, op), set()).add((ae, re_))
    done = set()
    for sig, (rp, det, name, ae, re_, op) in sorted(sigs.items()):
        if plain(ae) and op == re_ and len(byrel[(name, re_)]) >= 3:
            if ("rel", name, re_) not in done:
                done.add(("rel", name, re_))
                V.violation("%s:*->%s" % (name, re_), rp, det + " (with blocks of %d of the %d allocating entry points)" % (len(byrel[(name, re_)]), len(aes)))
        elif plain(ae) and op != re_ and op != ae and len(byfin[(name, op)]) >= 3:
            if ("fin", name, op) not in done:
                done.add(("fin", name, op))
                V.violation("%s:*->*(%s)" % (name, op), rp, det + " (closing step of %d pairs)" % len(byfin[(name, op)]))
        else:
            V.violation(sig, rp, det)

    # ---- evidence
    nstd = sum(1 for p in progs if p["std"] and p["re"] != "none")
    sample_prog = next((p for p in progs if p["ae"] == "pvalloc" and p["re"] == "delete_arr_sz_al"), progs[0])
    samples = [json.dumps(sample_prog)[:700]] + vlib.sample_lines(runs[0][0], 6, 420)[1:]
    cov = {
        "states": mc["distinct"], "transitions": mc["generated"], "mc_depth": mc["depth"],
        "mc_config": os.path.basename(("MiOverride_mc.cfg", "MiOverride_mc_thorough.cfg")[q]),
        "traces_validated_against_impl": len(runs), "trace_events_validated": consumed, "trace_events_total": total,
        "exhaustive": True,
        "exhaustive_over": "the full product (allocating entry point x releasing/resizing/querying entry point) x configured sizes x alignments, "
                           "plus the malformed and unsatisfiable requests (every operator new form with an unsatisfiable size, against a C- and a C++-compiled library); every variant emitted by TLC was executed in every configuration",
        "pairs": len(pairs), "allocating_entry_points": aes, "releasing_entry_points": res_,
        "programs_generated_by_tlc": len(progs), "programs_std_defined": nstd, "programs_defined_by_C19_only": len(progs) - nstd - sum(1 for p in progs if p["re"] == "none"),
        "executions": len(runs), "pair_executions": sum(rn[4] for rn in runs),
        "configurations": sorted(set("%s/%s/%s" % (rn[1], rn[2], rn[3]) for rn in runs)),
        "whole_program_runs": sum(1 for rn in runs if rn[4] == 0),
        "platform": {"cfree_provided_by_libc": has_cfree},
        "samples": samples,
    }
    return V.finish("model_checking", cov, assumptions=[
        "TLC 1.8.0 and the CommunityModules Json/IOUtils are trusted",
        "driver measurements are trusted: addresses, mi_is_in_heap_region / mi_usable_size / mi_heap_visit_blocks resolved with dlsym (weak reference in the static link), decoded content patterns, zero runs; blocks > 256 KiB are written/compared sparsely",
        "inheap is meaningful because requests stay < 16 MiB and default options are used (arena memory is always covered by mi_is_in_heap_region; OS-allocated segments only below 48 TiB)",
        "entry points = what glibc provides to newly linked programs on this platform (cfree: %s); realpath is not overridden by upstream on Linux (glibc's realpath calls the overridden malloc), only its result is demanded to be mimalloc's" % ("yes" if has_cfree else "no, removed in glibc 2.26"),
        "request sizes and alignments are the finite sets of " + ("MiOverride_mc.cfg", "MiOverride_mc_thorough.cfg")[q] + "; single-threaded programs",
    ])
