from checks import apifam
GUARDS = {"NoOverlap", "ContentsKept.gen", "ContentsKept.bytes", "ObsOfLiveBlock", "CheckAllComplete", "FreeOfLiveBlock",
          "ReallocOfLiveBlock", "QueryOfLiveBlock", "WriteOfLiveBlock", "UsableStable", "MovedDisjointFromOld", "BatchSortedDisjoint",
          "UsableAtLeastRequested", "Invariant.Inv", "LiveAccessible"}     # (a block smaller than what the entry point has to provide is not fully usable: e.g. a string copy without room for its terminator)
def run(tier, seed):
    return apifam.run_api("C01", tier, seed, profiles=["c01", "bulk", "c05", "c10", "bulk", "c01"], builds=["rel", "dbg", "sec"], own_guards=GUARDS,
                          crash_decisive=True)
