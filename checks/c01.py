from checks import apifam
GUARDS = {"NoOverlap", "ContentsKept.gen", "ContentsKept.bytes", "ObsOfLiveBlock", "CheckAllComplete", "FreeOfLiveBlock",
          "ReallocOfLiveBlock", "QueryOfLiveBlock", "WriteOfLiveBlock", "UsableStable", "MovedDisjointFromOld", "BatchSortedDisjoint",
          "UsableAtLeastRequested", "Invariant.Inv", "LiveAccessible"}     # (a block smaller than what the entry point has to provide is not fully usable: e.g. a string copy without room for its terminator)
def run(tier, seed):
    # arenas of more than one bitmap field: multi-block objects claimed next to / across the field boundary must not overlap
    extra = [{"MIMALLOC_ARENA_RESERVE": "4GiB", "_args": ["--workload", "fieldfill", "--rounds", "2"], "_tag": "fieldfill", "_builds": ["rel", "dbg"] if tier == "quick" else None},
             {"MIMALLOC_ARENA_RESERVE": "2GiB", "MIMALLOC_PURGE_DELAY": "0", "_args": ["--workload", "fieldfill", "--rounds", "2"], "_tag": "fieldfill.2g", "_builds": ["rel"] if tier == "quick" else None}]
    extra.append({"_args": ["--scenario", "span16"], "_tag": "span16", "_builds": ["rel", "dbg"] if tier == "quick" else None})      # largest pages on spans with pending purges
    extra.append({"MIMALLOC_PURGE_DELAY": "1", "MIMALLOC_PURGE_DECOMMITS": "0", "_args": ["--scenario", "span16"], "_tag": "span16.reset", "_builds": ["rel"] if tier == "quick" else None})
    return apifam.run_api("C01", tier, seed, profiles=["c01", "bulk", "c05", "c10", "bulk", "c01"], builds=["rel", "dbg", "sec"], own_guards=GUARDS,
                          crash_decisive=True, extra_runs=extra)
