from checks import apifam
GUARDS = {"NoOverlap", "ContentsKept.gen", "ContentsKept.bytes", "ObsOfLiveBlock", "CheckAllComplete", "FreeOfLiveBlock",
          "ReallocOfLiveBlock", "QueryOfLiveBlock", "WriteOfLiveBlock", "UsableStable", "MovedDisjointFromOld"}
def run(tier, seed):
    return apifam.run_api("C01", tier, seed, profiles=["c01", "c01", "c05", "c10"], builds=["rel", "dbg", "sec"], own_guards=GUARDS,
                          crash_decisive=True)
