from checks import apifam, concfam
GUARDS = {"BoundHeapInsideArena", "ExclusiveStaysPrivate", "FullGivesNull", "ManagedBounds", "NoOverlap", "ContentsKept.gen", "ContentsKept.bytes",
          "LiveAccessible", "DestructiveAvoidsLive", "Invariant.Inv"}
def run(tier, seed):
    envs = [None, {"MIMALLOC_PURGE_DELAY": "0"}, {"MIMALLOC_ARENA_RESERVE": "65536"}, {"MIMALLOC_DISALLOW_ARENA_ALLOC": "1"}]
    # targeted histories: the only heap of an exclusive arena is deleted (its pages are abandoned, the arena stays private); an arena of exactly 64 blocks filled to its end
    extra = [{"_args": ["--scenario", "excldel"], "_tag": "excldel"}, {"MIMALLOC_ABANDONED_RECLAIM_ON_FREE": "1", "_args": ["--scenario", "excldel"], "_tag": "excldel.rof", "_builds": ["rel", "dbg"]},
             {"_args": ["--scenario", "arena64"], "_tag": "arena64", "_builds": ["rel", "dbg"]}]
    V, cov = apifam.run_api("C15", tier, seed, profiles=["c15"], builds=["rel", "dbg", "sec"], own_guards=GUARDS, crash_decisive=True,
                          gen=(0, 0), ops=(2500, 6000), maxlive=(250, 600), shim=True, envs=envs, extra_args=["--clock", "30"], finish=False, extra_runs=extra)
    # adoption of abandoned memory: segments left behind in the exclusive arena / in ordinary memory are visited again and again by a
    # thread whose heap does not fit them; shared-arena program with bound heaps on several threads
    rof = {"MIMALLOC_ABANDONED_RECLAIM_ON_FREE": "1"}
    jobs = [
        {"prog": "adopt", "strategy": "random", "runs": (40, 500), "args": ["--rate", "3"]},
        {"prog": "adopt", "strategy": "random", "runs": (30, 400), "args": ["--rate", "3"], "env": rof},
        {"prog": "adopt", "strategy": "pct", "runs": (20, 300), "args": [], "env": {"MIMALLOC_MAX_SEGMENT_RECLAIM": "100"}},
        {"prog": "arena", "strategy": "random", "runs": (40, 500), "args": ["--rate", "3"]},
    ]
    V, cov2 = concfam.run_conc("C15", tier, seed, jobs, GUARDS, mc=("MiAbandonMC", ("MiAbandon_mc.cfg", "MiAbandon_mc_thorough.cfg")), guided_progs=(), V=V, finish=False)
    cov["adoption"] = {k: cov2[k] for k in ("traces_validated_against_impl", "trace_events_validated", "program_names", "strategies")}
    cov["traces_validated_against_impl"] += cov2["traces_validated_against_impl"]
    cov["samples"] = cov["samples"] + cov2["samples"][:2]
    return V.finish("model_checking", cov, assumptions=[
        "arenas are regions mapped by the harness and handed to mi_manage_os_memory_ex at non-segment-aligned addresses with odd sizes",
        "adoption: abandoned segments are revisited 8-12 times by an unsuitable heap (fresh-segment requests) before the size classes left behind are allocated from",
        "TLC and harness measurements trusted; bounded MiApiMC constants; scheduled executions are SC interleavings"])
