from checks import apifam
GUARDS = {"BoundHeapInsideArena", "ExclusiveStaysPrivate", "FullGivesNull", "ManagedBounds", "NoOverlap", "ContentsKept.gen", "ContentsKept.bytes",
          "LiveAccessible", "DestructiveAvoidsLive", "Invariant.Inv"}
def run(tier, seed):
    envs = [None, {"MIMALLOC_PURGE_DELAY": "0"}, {"MIMALLOC_ARENA_RESERVE": "65536"}, {"MIMALLOC_DISALLOW_ARENA_ALLOC": "1"}]
    return apifam.run_api("C15", tier, seed, profiles=["c15"], builds=["rel", "dbg", "sec"], own_guards=GUARDS, crash_decisive=True,
                          gen=(0, 0), ops=(2500, 6000), maxlive=(250, 600), shim=True, envs=envs, extra_args=["--clock", "30"],
                          assumptions=["arenas are regions mapped by the harness and handed to mi_manage_os_memory_ex at non-segment-aligned addresses with odd sizes; "
                                       "the sequential part of C15 is covered here, adoption across thread exit by the C09 check"])
