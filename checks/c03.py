from checks import apifam, concfam
GUARDS = {"UsableAtLeastRequested", "AlignOK", "AlignKeptByRealloc", "ExpandSucceedsUpToUsable", "ExpandNeverMoves", "ExpandWithinUsable",
          "UsableStable", "QueryOfLiveBlock", "FreeOfLiveBlock", "ReallocOfLiveBlock", "GoodSizeAtLeast"}
ALL = GUARDS | {"ContentsKept.gen", "ContentsKept.bytes", "NoOverlap", "ObsOfLiveBlock", "CheckAllComplete"}
def run(tier, seed):
    # interior (aligned) pointers go through free/usable_size/expand/realloc like any other pointer; neighbours are watched by ContentsKept
    V, cov = apifam.run_api("C03", tier, seed, profiles=["c03", "c03", "bulk"], builds=["rel", "dbg", "sec"], own_guards=ALL, crash_decisive=True,
                            gen=(0, 0), finish=False)
    # ... also after the allocating thread is gone (its pages are abandoned, adopted by other threads, reused)
    rof = {"MIMALLOC_ABANDONED_RECLAIM_ON_FREE": "1"}
    jobs = [
        {"prog": "exit-aligned", "strategy": "random", "runs": (120, 1500), "args": ["--rate", "3"]},
        {"prog": "exit-aligned", "strategy": "random", "runs": (120, 1500), "args": ["--rate", "3"], "env": rof},
        {"prog": "exit-aligned", "strategy": "pct", "runs": (60, 800), "args": [], "env": rof},
    ]
    V, cov2 = concfam.run_conc("C03", tier, seed, jobs, ALL, mc=("MiAbandonMC", ("MiAbandon_mc.cfg", "MiAbandon_mc_thorough.cfg")), guided_progs=(), V=V, finish=False)
    cov["after_thread_exit"] = {k: cov2[k] for k in ("traces_validated_against_impl", "trace_events_validated", "program_names", "strategies")}
    cov["traces_validated_against_impl"] += cov2["traces_validated_against_impl"]
    cov["samples"] = cov["samples"] + cov2["samples"][:2]
    return V.finish("model_checking", cov, assumptions=[
        "alignments 1 .. 2^28 (offset 0 above 16 MiB); debug builds only with offsets that keep the pointer word-aligned (their pointer validation rejects others)",
        "TLC and harness measurements trusted; bounded MiApiMC constants; scheduled executions are SC interleavings"])
