from checks import apifam
GUARDS = {"UsableAtLeastRequested", "AlignOK", "AlignKeptByRealloc", "ExpandSucceedsUpToUsable", "ExpandNeverMoves", "ExpandWithinUsable",
          "UsableStable", "QueryOfLiveBlock", "FreeOfLiveBlock", "ReallocOfLiveBlock", "GoodSizeAtLeast"}
def run(tier, seed):
    # interior (aligned) pointers go through free/usable_size/expand/realloc like any other pointer; neighbours are watched by ContentsKept
    return apifam.run_api("C03", tier, seed, profiles=["c03"], builds=["rel", "dbg", "sec"],
                          own_guards=GUARDS | {"ContentsKept.gen", "ContentsKept.bytes", "NoOverlap"}, crash_decisive=True,
                          gen=(0, 0))
