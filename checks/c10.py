from checks import apifam
GUARDS = {"OwnershipQuery", "DefaultFallsBack", "SetDefaultReturnsOld", "BackingHeap", "DestroyOfLiveHeap", "DeleteOfLiveHeap",
          "ContentsKept.gen", "ContentsKept.bytes", "ObsOfLiveBlock", "NoOverlap", "FreeOfLiveBlock", "CheckAllComplete"}
def run(tier, seed):
    return apifam.run_api("C10", tier, seed, profiles=["c10"], builds=["rel", "dbg", "sec"], own_guards=GUARDS, crash_decisive=True, gen=(24, 200))
