from checks import apifam, concfam
GUARDS = {"BlockConservation.dup", "BlockConservation.lost", "ListsStayInPage", "OwnershipQuery", "DefaultFallsBack", "SetDefaultReturnsOld", "BackingHeap", "DestroyOfLiveHeap", "DeleteOfLiveHeap",
          "ContentsKept.gen", "ContentsKept.bytes", "ObsOfLiveBlock", "NoOverlap", "FreeOfLiveBlock", "CheckAllComplete", "QuiescentClean",
          "WalkCount", "WalkEveryLiveOnce", "WalkOnlyLive", "DestructiveAvoidsLive", "LiveAccessible"}
def run(tier, seed):
    # sequential part: heap programs (native + TLC-generated) against MiApi
    # (extra: the heap of a managed arena is deleted while the backing heap has pages in the same segment -- known finding, scenario `arenadel`)
    extra = [{"_args": ["--scenario", "arenadel"], "_tag": "arenadel", "_builds": ["rel", "dbg"]}]
    V, cov = apifam.run_api("C10", tier, seed, profiles=["c10"], builds=["rel", "dbg", "sec"], own_guards=GUARDS, crash_decisive=True, gen=(24, 200), finish=False, extra_runs=extra)
    # concurrent part: mi_heap_delete / mi_heap_collect racing with remote frees into that heap, under the deterministic scheduler
    jobs = [
        {"prog": "page-delete", "strategy": "random", "runs": (250, 3000), "args": ["--snap", "3", "--spurious", "2", "--rate", "3"]},
        {"prog": "page-delete", "strategy": "pct", "runs": (150, 2000), "args": ["--snap", "3", "--spurious", "1"]},
        {"prog": "page-collect", "strategy": "random", "runs": (150, 2000), "args": ["--snap", "3", "--spurious", "2", "--rate", "2"]},
        {"prog": "page-delete", "strategy": "random", "runs": (100, 1500), "args": ["--snap", "3", "--size", "60000", "65536", "--spurious", "1"]},
        {"prog": "page-delete", "strategy": "random", "runs": (80, 1000), "args": ["--snap", "3", "--park", "6", "--rate", "3"]},      # heap delete waits for a stalled remote free
        # a first-class heap at work next to memory left behind by exited threads, then destroyed / deleted: exactly its own blocks
        {"prog": "exit-heap", "strategy": "random", "runs": (30, 400), "args": ["--rate", "3"]},
        {"prog": "exit-heap", "strategy": "pct", "runs": (20, 300), "args": [], "env": {"MIMALLOC_ABANDONED_RECLAIM_ON_FREE": "1"}},
    ]
    V, cov2 = concfam.run_conc("C10", tier, seed, jobs, GUARDS, step_guards=concfam.STEP_GUARDS, mc=("MiPage", ("MiPage_mc.cfg", "MiPage_mc_thorough.cfg")), guided_progs=("page-delete",),
                               V=V, finish=False)
    cov["concurrent"] = {k: cov2[k] for k in ("states", "transitions", "mc_module", "mc_config", "traces_validated_against_impl", "trace_events_validated",
                                              "schedules_generated_by_tlc", "program_names", "strategies")}
    cov["traces_validated_against_impl"] += cov2["traces_validated_against_impl"]
    cov["samples"] = cov["samples"] + cov2["samples"][:2]
    return V.finish("model_checking", cov, assumptions=[
        "sequential part: bounded MiApiMC + native/TLC-generated heap programs; concurrent part: MiPage protocol model (heap delete itself is exercised in the implementation runs; the model covers the delayed-free handshake it relies on)",
        "SC interleavings at mi_atomic-macro granularity; TLC and harness measurements trusted"])
