from checks import apifam
GUARDS = {"ZeroOK", "ZeroGrowOK"}
def run(tier, seed):
    return apifam.run_api("C04", tier, seed, profiles=["c04"], builds=["rel", "dbg", "sec"], own_guards=GUARDS, gen=(12, 100))
