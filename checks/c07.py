import os, re
import vlib
from checks import osfam
GUARDS = {"WellFormedSucceeds", "LiveAccessible", "NoOverlap", "ContentsKept.gen", "ContentsKept.bytes", "ObsOfLiveBlock", "CheckAllComplete",
          "DestructiveAvoidsLive", "AllReleased", "DirtyAllReleased", "QuiesceNoLive", "FailedReallocKeepsOld", "Invariant.Inv", "MmapFresh",
          "ZeroOK", "UsableAtLeastRequested", "AlignOK", "OutParamUnchanged"}
SETTINGS = [("default", {}), ("tiny", {"MIMALLOC_ARENA_RESERVE": "32768"}),
            ("lazy", {"MIMALLOC_EAGER_COMMIT": "0", "MIMALLOC_ARENA_EAGER_COMMIT": "0"}), ("noarena", {"MIMALLOC_DISALLOW_ARENA_ALLOC": "1"}),
            ("largepages", {"MIMALLOC_ALLOW_LARGE_OS_PAGES": "1"})]      # (no huge pages are configured: the OS refuses the large-page mapping and ordinary pages are used)
KINDS = {0: "any", 1: "map", 2: "unmap", 3: "protect", 4: "advise"}

def count_os(exe, wl, env, kind):
    rc, out = vlib.sh([exe, "--out", os.path.join(vlib.outdir("C07"), "dry.ndjson"), "--seed", "1", "--workload", wl, "--rounds", "1", "--scale", "4",
                       "--countos", "--kind", str(kind)], env=env, timeout=120)
    m = re.search(r"OSCALLS (\d+) (\d+)", out)
    if not m:
        raise vlib.InfraError("dry run failed: " + out[-1000:])
    return int(m.group(2))

def run(tier, seed):
    q = tier == "quick"
    builds = ["rel", "dbg"]
    exes = {b: vlib.build_harness("drv_api", "drv_api.c", cfg=b, shim=True) for b in builds}
    runs, positions = [], 0
    wls = ["small", "large", "huge", "mt"]
    for wi, wl in enumerate(wls):
        for si, (sn, env) in enumerate(SETTINGS):
            if q and (wi + si) % 2 == 1 and sn not in ("default",):
                continue
            for b in builds:
                if q and b == "dbg" and sn not in ("default", "lazy"):
                    continue
                n = count_os(exes[b], wl, env, 0)
                positions += n
                stride = 1 if (not q or n <= 24) else (n + 23) // 24
                for k in range(1, n + 1):
                    if (k - 1) % stride != (seed % stride):
                        continue
                    base = ["--workload", wl, "--rounds", "2", "--scale", "4", "--recover", "1", "--fault", str(k)]
                    runs.append({"args": base, "env": env, "tag": "%s.%s.single" % (wl, sn), "build": b})
                    if (not q) or k % 3 == 1:
                        runs.append({"args": base + ["--persist"], "env": env, "tag": "%s.%s.persist" % (wl, sn), "build": b})
                if not q:       # per call kind (map / unmap / protect / advise), persistent from the k-th call of that kind
                    for kind in (1, 2, 3, 4):
                        nk = count_os(exes[b], wl, env, kind)
                        for k in range(1, nk + 1, max(1, nk // 12)):
                            runs.append({"args": ["--workload", wl, "--rounds", "2", "--scale", "4", "--recover", "1", "--fault", str(k), "--kind", str(kind), "--persist"],
                                         "env": env, "tag": "%s.%s.%s" % (wl, sn, KINDS[kind]), "build": b})
    if q:     # a thin sample of the per-kind persistent refusals (thorough enumerates them): commits / mappings refused for good from early on
        for wl in ("mt", "large"):
            for sn, env in (("noarena", SETTINGS[3][1]), ("lazy", SETTINGS[2][1])):
                for kind in (1, 3):
                    for k in (1, 3, 6):
                        runs.append({"args": ["--workload", wl, "--rounds", "2", "--scale", "4", "--recover", "1", "--fault", str(k), "--kind", str(kind), "--persist"],
                                     "env": env, "tag": "%s.%s.%s" % (wl, sn, KINDS[kind]), "build": "dbg" if (k + kind) % 2 == 0 else "rel"})
    # the scenario in which commits refused for good made one mi_malloc map segments without end (fixed in /repo d8d5e17), pinned
    for sd in (101444, 101445, 101446):
        runs.append({"args": ["--workload", "mt", "--rounds", "2", "--scale", "4", "--recover", "1", "--fault", "3", "--kind", "3", "--persist"],
                     "env": SETTINGS[3][1], "tag": "mt.noarena.protect", "build": "dbg", "seed": sd})
    # the scenario in which the first page of a fresh segment could not be committed and the empty segment was kept for good (fixed in /repo a0a66cd), pinned
    for k in (4, 5):
        runs.append({"args": ["--workload", "mt", "--rounds", "2", "--scale", "4", "--recover", "1", "--fault", str(k), "--persist"],
                     "env": SETTINGS[3][1], "tag": "mt.noarena.persist", "build": "rel", "seed": 201290})
    vlib.log("  %d fault runs (%d OS-call positions in the dry runs)" % (len(runs), positions))
    return osfam.run_os("C07", tier, seed, runs, builds=builds, own_guards=GUARDS, crash_decisive=True, group=(24 if q else 40),
                        level="fault_enumeration",
                        extra_cov={"evaluations": len(runs), "distinct_nontrivial": len({(r["tag"], r["build"], tuple(r["args"])) for r in runs}),
                                   "rule": "one execution per (workload, option setting, build, fault position k, single|persistent[, call kind]); k ranges over the OS calls counted in a dry run; "
                                           "distinct = distinct argument tuples; every execution refuses at least one OS call (k <= N) and then recovers and repeats the workload",
                                   "os_call_positions": positions, "workloads": wls, "settings": [s for s, _ in SETTINGS]},
                        assumptions=["a refused munmap/purge is exempt from the give-back obligations (the OS said no; no retry is demanded)",
                                     "fault positions are those of the dry run; the faulty run may take a different path after the first refusal"])
