from checks import apifam
GUARDS = {"MalformedFailsCleanly", "WellFormedSucceeds", "ErrCode", "OutParamUnchanged", "FailedReallocKeepsOld",
          "ContentsKept.gen", "ContentsKept.bytes", "ObsOfLiveBlock", "CheckAllComplete", "WalkCount", "WalkEveryLiveOnce", "WalkOnlyLive"}
def run(tier, seed):
    # "no other effect on the heap": contents of all live blocks and the heap walk are checked after the failing calls
    return apifam.run_api("C06", tier, seed, profiles=["c06"], builds=["rel", "dbg", "sec"], own_guards=GUARDS, crash_decisive=True,
                          gen=(0, 0), ops=(3000, 8000))
