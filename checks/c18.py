import itertools
from checks import osfam, concfam
import vlib
GUARDS = {"TimelyPurge", "ImmediateWhenZero", "NeverPurgesWhenDisabled", "Invariant.Inv"}
def run(tier, seed):
    q = tier == "quick"
    runs = []
    arenas = [("default", {}), ("tiny", {"MIMALLOC_ARENA_RESERVE": "65536"}), ("noarena", {"MIMALLOC_DISALLOW_ARENA_ALLOC": "1"}),
              ("lazy", {"MIMALLOC_EAGER_COMMIT": "0", "MIMALLOC_ARENA_EAGER_COMMIT": "0"})]
    k = 0
    for delay, dec, mult, pat in itertools.product([-1, 0, 5, 10], [1, 0], [1, 10], ["pages", "segments", "all", "huge", "holes"]):
        if pat == "holes" and (mult == 10 or delay < 0):
            continue
        if delay <= 0 and mult == 10:
            continue
        for an, aenv in arenas:
            k += 1
            if q and an != "default" and (k % 4) != 0:
                continue
            env = {"MIMALLOC_PURGE_DELAY": str(delay), "MIMALLOC_PURGE_DECOMMITS": str(dec), "MIMALLOC_ARENA_PURGE_MULT": str(mult)}
            env.update(aenv)
            step = 2 * (max(delay, 0) * mult + 1) + 2
            runs.append({"args": ["--c18", pat, "--step", str(step)], "env": env,
                         "tag": "d%d.dec%d.m%d.%s.%s" % (delay, dec, mult, pat, an)})
            if delay > 0 and (not q or an == "default"):
                runs.append({"args": ["--c18", pat, "--step", str(step), "--midclock"], "env": env,
                             "tag": "d%d.dec%d.m%d.%s.%s.mid" % (delay, dec, mult, pat, an)})
                if pat == "pages":    # the segment stays: nothing may be left pending when the free phase ended with expired purges
                    runs.append({"args": ["--c18", pat, "--step", str(step), "--gentle"], "env": env,
                                 "tag": "d%d.dec%d.m%d.%s.%s.gentle" % (delay, dec, mult, pat, an)})
                    if mult == 1:     # ... also when the thread that freed the pages has exited (abandoned segment, visited by non-forced collects)
                        runs.append({"args": ["--c18", pat, "--step", str(step), "--abandoned"], "env": env,
                                     "tag": "d%d.dec%d.m%d.%s.%s.abandoned" % (delay, dec, mult, pat, an)})
                        # ... and when the thread exited with everything live and the pages are freed afterwards by the main thread (they are released,
                        # and scheduled for purging, when a non-forced collect looks at the abandoned segment)
                        runs.append({"args": ["--c18", pat, "--step", str(step), "--abandoned2"], "env": env,
                                     "tag": "d%d.dec%d.m%d.%s.%s.abandoned2" % (delay, dec, mult, pat, an)})
    if q:     # several small arenas whose purges expire at different times (pinned: the global schedule must not forget the later ones; /repo 1362dd2)
        for delay, dec, pat, extra in ((5, 1, "all", []), (10, 0, "all", []), (10, 1, "huge", ["--midclock"]), (10, 0, "huge", ["--midclock"])):
            step = 2 * (delay + 1) + 2
            runs.append({"args": ["--c18", pat, "--step", str(step)] + extra, "env": {"MIMALLOC_PURGE_DELAY": str(delay), "MIMALLOC_PURGE_DECOMMITS": str(dec), "MIMALLOC_ARENA_PURGE_MULT": "1", "MIMALLOC_ARENA_RESERVE": "65536"},
                         "tag": "d%d.dec%d.m1.%s.tiny%s" % (delay, dec, pat, ".mid" if extra else ""), "build": "rel" if not extra else "dbg"})
    # more arenas than the visit budget of the purge schedule, the arenas of low index have a due purge at every visit (the liveness
    # counterexample TLC found in MiPurge with Variant "no_rotation"; /repo 8ff5922)
    for delay, dec, mult in itertools.product((5, 10), (1, 0), (1,) if q else (1, 10)):
        step = 2 * (delay * mult + 1) + 2
        runs.append({"args": ["--c18", "starve", "--step", str(step)], "env": {"MIMALLOC_PURGE_DELAY": str(delay), "MIMALLOC_PURGE_DECOMMITS": str(dec), "MIMALLOC_ARENA_PURGE_MULT": str(mult), "MIMALLOC_ARENA_RESERVE": "65536"},
                     "tag": "d%d.dec%d.m%d.starve.tiny" % (delay, dec, mult), "build": "rel" if dec else "dbg"})
    assumptions = ["time is the virtual clock of the shim; the ordinary activity after T0 is 12 rounds of allocate / free / non-forced mi_collect of size classes "
                   "not used before, with the clock advanced by 2*(delay*mult+purge_extend_delay) between calls; units freed by the activity itself and units inside page areas are exempt",
                   "the purge schedule of the arenas is modelled in MiPurge (arenas x blocks x relative expiries; TLC: every reachable table satisfies MiArenaValid, and under "
                   "ordinary activity every scheduled block is eventually purged); the arena tables of the running allocator are dumped at quiescent points and validated with the same MiArenaValid (ArenaTrace)",
                   "the concurrent part (scheduled SC interleavings of threads that allocate, free and collect in shared arenas; thread exit) checks the schedule invariants at quiescent points only"]
    V, cov = osfam.run_os("C18", tier, seed, runs, builds=["rel", "dbg"], own_guards=GUARDS, crash_decisive=True,
                          group=6, finish=False,
                          extra_cov={"purge_delay": [-1, 0, 5, 10], "purge_decommits": [0, 1], "arena_purge_mult": [1, 10],
                                     "patterns": ["pages", "segments", "all", "huge", "holes", "starve"], "arena_configs": [a for a, _ in arenas], "configs_run": len(runs)})
    # the schedule under concurrency: a purge scheduled while another thread visits the arenas must not be forgotten (/repo 7a0ea3c, 95404ba);
    # arena dumps at the quiescent points of scheduled executions (Arena.GlobalCoversArenas, Arena.PurgeScheduled)
    jobs = [{"prog": "arena", "strategy": "random", "runs": (150, 1500), "args": ["--rate", "3"]},
            {"prog": "arena", "strategy": "random", "runs": (300, 300), "args": ["--rate", "3"], "seed": 11, "builds": ["rel"]},     # pinned: schedules in which the pre-7a0ea3c code lost the global expiry
            {"prog": "arena", "strategy": "random", "runs": (300, 300), "args": ["--rate", "3"], "seed": 12, "builds": ["rel"]},
            {"prog": "arena", "strategy": "pct", "runs": (60, 800), "args": []},
            {"prog": "exit", "strategy": "random", "runs": (60, 800), "args": ["--rate", "3"]},
            {"prog": "exit", "strategy": "random", "runs": (40, 600), "args": ["--size", "600000", "1048576"]}]
    V, cov2 = concfam.run_conc("C18", tier, seed, jobs, set(), mc=("MiPurge", ("MiPurge_mc.cfg", "MiPurge_mc.cfg")), guided_progs=(), V=V, finish=False, crash_decisive=False)
    cov["purge_schedule_model"] = {"module": "MiPurge", "safety_states": cov2.get("states"), "safety_config": "MiPurge_mc.cfg"}
    for cfgname in (("MiPurge_live.cfg",) if q else ("MiPurge_live.cfg", "MiPurge_live4.cfg")):
        r = vlib.tlc_mc("MiPurge", cfgname, workers=8, timeout=1700, coverage=False)
        if r["violation"]:
            raise vlib.InfraError("MiPurge/%s: the model of the purge schedule violates EventuallyPurged (specification error or the code changed):\n%s" % (cfgname, r["out"][-3000:]))
        cov["purge_schedule_model"][cfgname] = {"distinct_states": r["distinct"], "property": "EventuallyPurged under WF(Tick), WF(non-forced collect)"}
    r = vlib.tlc_mc("MiPurgeConc", "MiPurgeConc_mc.cfg" if q else "MiPurgeConc_mc_thorough.cfg", workers=8, timeout=3000, coverage=False)
    if r["violation"]:
        raise vlib.InfraError("MiPurgeConc: the model of the concurrent purge schedule violates its invariants (specification error or the code changed):\n%s" % r["out"][-3000:])
    cov["purge_schedule_model"]["MiPurgeConc"] = {"distinct_states": r["distinct"], "invariants": ["Quiescent", "NeverPurgeInUse"], "config": "MiPurgeConc_mc.cfg" if q else "MiPurgeConc_mc_thorough.cfg"}
    cov["concurrent_part"] = {k: cov2[k] for k in ("traces_validated_against_impl", "trace_events_validated", "program_names", "strategies") if k in cov2}
    cov["arena_dumps_validated"] = cov.get("arena_dumps_validated", 0) + cov2.get("arena_dumps_validated", 0)
    return V.finish("model_checking", cov, assumptions=assumptions + [
        "TLC 1.8.0 and CommunityModules trusted; the OS shim reports each mmap/munmap/mprotect/madvise call faithfully (it performs the real call unless the fault plan refuses it)",
        "MADV_HUGEPAGE is answered without reaching the kernel; the clock is virtual"])
