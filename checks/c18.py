import itertools
from checks import osfam
GUARDS = {"TimelyPurge", "ImmediateWhenZero", "NeverPurgesWhenDisabled", "Invariant.Inv"}
def run(tier, seed):
    q = tier == "quick"
    runs = []
    arenas = [("default", {}), ("tiny", {"MIMALLOC_ARENA_RESERVE": "65536"}), ("noarena", {"MIMALLOC_DISALLOW_ARENA_ALLOC": "1"}),
              ("lazy", {"MIMALLOC_EAGER_COMMIT": "0", "MIMALLOC_ARENA_EAGER_COMMIT": "0"})]
    k = 0
    for delay, dec, mult, pat in itertools.product([-1, 0, 5, 10], [1, 0], [1, 10], ["pages", "segments", "all", "huge"]):
        if delay <= 0 and mult == 10:
            continue
        for an, aenv in arenas:
            k += 1
            if q and an != "default" and (k % 4) != 0:
                continue
            env = {"MIMALLOC_PURGE_DELAY": str(delay), "MIMALLOC_PURGE_DECOMMITS": str(dec), "MIMALLOC_ARENA_PURGE_MULT": str(mult)}
            env.update(aenv)
            step = 2 * (max(delay, 0) * mult + 1) + 2
            runs.append({"args": ["--c18", pat, "--step", str(step)], "env": env,
                         "tag": "d%d.dec%d.m%d.%s.%s" % (delay, dec, mult, pat, an)})
            if delay > 0 and (not q or an == "default"):
                runs.append({"args": ["--c18", pat, "--step", str(step), "--midclock"], "env": env,
                             "tag": "d%d.dec%d.m%d.%s.%s.mid" % (delay, dec, mult, pat, an)})
                if pat == "pages":    # the segment stays: nothing may be left pending when the free phase ended with expired purges
                    runs.append({"args": ["--c18", pat, "--step", str(step), "--gentle"], "env": env,
                                 "tag": "d%d.dec%d.m%d.%s.%s.gentle" % (delay, dec, mult, pat, an)})
                    if mult == 1:     # ... also when the thread that freed the pages has exited (abandoned segment, visited by non-forced collects)
                        runs.append({"args": ["--c18", pat, "--step", str(step), "--abandoned"], "env": env,
                                     "tag": "d%d.dec%d.m%d.%s.%s.abandoned" % (delay, dec, mult, pat, an)})
    if q:     # several small arenas whose purges expire at different times (pinned: the global schedule must not forget the later ones; /repo 1362dd2)
        for delay, dec, pat, extra in ((5, 1, "all", []), (10, 0, "all", []), (10, 1, "huge", ["--midclock"]), (10, 0, "huge", ["--midclock"])):
            step = 2 * (delay + 1) + 2
            runs.append({"args": ["--c18", pat, "--step", str(step)] + extra, "env": {"MIMALLOC_PURGE_DELAY": str(delay), "MIMALLOC_PURGE_DECOMMITS": str(dec), "MIMALLOC_ARENA_PURGE_MULT": "1", "MIMALLOC_ARENA_RESERVE": "65536"},
                         "tag": "d%d.dec%d.m1.%s.tiny%s" % (delay, dec, pat, ".mid" if extra else ""), "build": "rel" if not extra else "dbg"})
    return osfam.run_os("C18", tier, seed, runs, builds=["rel", "dbg"], own_guards=GUARDS, crash_decisive=False,
                        group=6,
                        extra_cov={"purge_delay": [-1, 0, 5, 10], "purge_decommits": [0, 1], "arena_purge_mult": [1, 10],
                                   "patterns": ["pages", "segments", "all", "huge"], "arena_configs": [a for a, _ in arenas], "configs_run": len(runs)},
                        assumptions=["time is the virtual clock of the shim; the ordinary activity after T0 is 12 rounds of allocate / free / non-forced mi_collect of size classes "
                                     "not used before, with the clock advanced by 2*(delay*mult+purge_extend_delay) between calls; units freed by the activity itself and units inside page areas are exempt"])
