from checks import apifam, concfam
GUARDS = {"WalkCount", "WalkEveryLiveOnce", "WalkOnlyLive", "WalkRangesDisjoint", "AreaUsedCount", "AreasCoverAll", "StopsWhenFalse"}
def run(tier, seed):
    # heap walking over histories with hole patterns, full pages (bulk groups), huge blocks, several heaps
    V, cov = apifam.run_api("C12", tier, seed, profiles=["c12", "bulk", "c12"], builds=["rel", "dbg", "sec"], own_guards=GUARDS, gen=(12, 100), finish=False,
                          extra_runs=[{"_args": ["--scenario", "walkholes"], "_tag": "walkholes"}])      # pages of many small blocks with holes in every pattern of the 64-block groups
    # abandoned blocks: threads exit leaving blocks behind; mi_abandoned_visit_blocks must report exactly them, stop on false, and stay complete afterwards
    va = {"MIMALLOC_VISIT_ABANDONED": "1"}
    va_os = {"MIMALLOC_VISIT_ABANDONED": "1", "MIMALLOC_DISALLOW_ARENA_ALLOC": "1"}
    jobs = [
        {"prog": "abvisit", "strategy": "random", "runs": (60, 800), "args": ["--rate", "3"], "env": va},
        {"prog": "abvisit", "strategy": "pct", "runs": (40, 500), "args": [], "env": va},
        {"prog": "abvisit", "strategy": "random", "runs": (40, 500), "args": ["--rate", "2"], "env": va_os},
    ]
    V, cov2 = concfam.run_conc("C12", tier, seed, jobs, GUARDS, mc=("MiAbandonMC", ("MiAbandon_mc.cfg", "MiAbandon_mc_thorough.cfg")), guided_progs=(), V=V, finish=False,
                               crash_decisive=False)
    cov["abandoned_visit"] = {k: cov2[k] for k in ("traces_validated_against_impl", "trace_events_validated", "program_names", "strategies")}
    cov["traces_validated_against_impl"] += cov2["traces_validated_against_impl"]
    cov["samples"] = cov["samples"] + cov2["samples"][:2]
    return V.finish("model_checking", cov, assumptions=[
        "walks are made in states without pending cross-thread frees (the driver collects first); per-area used counts are compared when no bulk group lives in the heap",
        "abandoned walks: MIMALLOC_VISIT_ABANDONED=1, arena and OS-allocated segments; the main thread does not allocate between thread exit and the walks (no adoption in between)",
        "TLC and harness measurements trusted; bounded MiApiMC constants"])
