from checks import apifam
GUARDS = {"WalkCount", "WalkEveryLiveOnce", "WalkOnlyLive", "WalkRangesDisjoint", "AreaUsedCount", "AreasCoverAll", "StopsWhenFalse"}
def run(tier, seed):
    return apifam.run_api("C12", tier, seed, profiles=["c12"], builds=["rel", "dbg", "sec"], own_guards=GUARDS, gen=(12, 100))
