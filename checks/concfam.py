"""Runner for the concurrent properties (C02 C08 C09 C10-conc): exhaustive TLC check of the protocol model, TLC-generated
schedules replayed (guided) in the real allocator under the deterministic scheduler, seeded random / PCT schedules with
spurious weak-CAS failures, and TLC trace validation (Tier P, ApiTrace) of every execution."""
import json, os, re, shutil, time
import vlib
from vlib import log
from checks import apifam

def gen_schedules(n, seed, od, cfg="MiPageGen.cfg", module="MiPageGen", depth=80):
    r = vlib.tlc_run(module, cfg, workers=4, timeout=180, xmx="4g",
                     extra=["-simulate", "num=%d" % max(1, n // 4 + 1), "-depth", str(depth), "-seed", str(seed)], tag="sgen_%d" % seed)
    scheds, seen = [], set()
    for m in re.finditer(r'<<"SCHEDULE", "(.*)">>', r["out"]):
        s = m.group(1).replace('\\"', '"')
        if s in seen:
            continue
        seen.add(s)
        try:
            h = json.loads(s)
        except ValueError:
            continue
        ids = [0 if x == "o" else int(re.sub(r"\D", "", x) or "1") for x in h]
        rl = []
        for t in ids:
            if rl and rl[-1][0] == t:
                rl[-1][1] += 1
            else:
                rl.append([t, 1])
        scheds.append(" ".join("%d:%d" % (t, c) for t, c in rl))
    return scheds[:n], r

# guards of the step-level trace specification (StepTrace.tla); decisive for the properties that are about the delayed-free protocol
STEP_GUARDS = {"StepContinuity", "RemoteSequence", "RemoteCas1", "DelayedPushOwn", "RemoteCas3", "CollectTakesAll", "UseDelayedShape",
               "NeverOnlyOnAdoption", "HeapPublishedBeforeFlag", "NoHeapResetWhileFreeing", "WriteShape", "StoreNotStale", "RepushTaken", "RearmAfterDrain"}
ABANDON_GUARDS = {"BitContinuity", "MarkWhenUnowned", "MarkNotTwice", "AbandonByOwner", "AdoptOwnId", "AdoptAfterWinning", "AdoptWhileOwned",
                  "CountFollowsBit", "CountContinuity", "FreedNotAbandoned", "WonSegmentsSettled"}
NO_STEPS = {"pc"}        # programs whose executions are too long to log every atomic step


def split_steps(path):
    """Move the step events of a trace into steps_<name> (together with the cfg / reset / ret / crash / end lines StepTrace needs);
    the trace itself keeps everything else.  Returns the path of the step trace and the number of step events."""
    d, b = os.path.split(path)
    sp = os.path.join(d, "steps_" + b)
    ap = os.path.join(d, "asteps_" + b)       # the words of the abandon / adopt protocol (AbandonTrace.tla)
    pp = os.path.join(d, "psteps_" + b)       # the words of the arena purge schedule (PurgeStepTrace.tla)
    n = na = npp = 0
    with open(path) as f, open(path + ".api", "w") as fa, open(sp, "w") as fs, open(ap, "w") as fb, open(pp, "w") as fp:
        for l in f:
            if l.startswith('{"e":"step"'):
                fs.write(l); n += 1
            elif l.startswith('{"e":"astep"'):
                fb.write(l); na += 1
            elif l.startswith('{"e":"pstep"'):
                fp.write(l); npp += 1
            else:
                fa.write(l)
                if l.startswith(('{"e":"ret"', '{"e":"cfg"', '{"e":"reset"', '{"e":"crash"', '{"e":"end"')):
                    fs.write(l); fb.write(l); fp.write(l)
                elif l.startswith(('{"e":"os"', '{"e":"call"')):
                    fb.write(l)          # (AbandonTrace relates purges to the segments a thread has given up, and to the call they happen in)
    os.replace(path + ".api", path)
    if na == 0:
        os.remove(ap)
    if npp == 0:
        os.remove(pp)
    return sp, n


def split_pieces(path, tr, limit=6000):
    pieces = []
    with open(path) as f:
        lines = f.readlines()
    chunk, n, part = [], 0, 0
    for l in lines:
        if l.startswith('{"e":"reset"}') and n >= limit:
            p = path.replace(".ndjson", "_p%d.ndjson" % part)
            open(p, "w").writelines(chunk)
            pieces.append((p, tr))
            chunk, n, part = [], 0, part + 1
            continue
        chunk.append(l); n += 1
    if chunk:
        p = path.replace(".ndjson", "_p%d.ndjson" % part)
        open(p, "w").writelines(chunk)
        pieces.append((p, tr))
    return pieces


def run_conc(prop, tier, seed, jobs_spec, own_guards, mc, builds=("rel", "dbg"), guided_progs=("page",), nsched=(40, 400),
             assumptions=(), extra_cov=None, crash_decisive=True, V=None, finish=True, step_guards=()):
    """jobs_spec: list of dicts {prog, strategy, runs:(quick,thorough), args:[...], env}"""
    q = 0 if tier == "quick" else 1
    V = V or vlib.Verdict(prop, tier, seed)
    od = vlib.outdir(prop + "conc")
    for f in os.listdir(od):
        try:
            os.remove(os.path.join(od, f))
        except OSError:
            pass
    exes = {b: vlib.build_harness("drv_conc", "drv_conc.c", cfg=b, shim=True, hooks=True) for b in builds}
    import threading
    mc_res = {}
    def do_mc():
        try:
            mc_res["r"] = vlib.tlc_mc(mc[0], mc[1][q], workers=(8 if q == 0 else 16), timeout=(900 if q == 0 else 3400), coverage=False)
        except Exception as e:
            mc_res["err"] = e
    th = threading.Thread(target=do_mc)
    th.start()

    scheds, _ = gen_schedules(nsched[q], seed, od) if guided_progs else ([], None)
    log("  GEN: %d distinct schedules from TLC -simulate on MiPage" % len(scheds))
    sched_file = os.path.join(od, "schedules.txt")
    with open(sched_file, "w") as f:
        f.write("\n".join(scheds) + ("\n" if scheds else ""))

    jobs, traces = [], []
    k = 0
    for js in jobs_spec:
        for b in builds:
            if js.get("builds") and b not in js["builds"]:
                continue
            out = os.path.join(od, "t_%s_%s_%s_%d.ndjson" % (js["prog"], js["strategy"], b, k))
            cmd = [exes[b], "--out", out, "--prog", js["prog"], "--seed", str(js.get("seed", seed * 1000003 + k * 1009)), "--runs", str(js["runs"][q]),
                   "--strategy", js["strategy"]] + list(js.get("args", [])) + ([] if js["prog"] in NO_STEPS else ["--steps", "1"]) + ["--segs", "1"]
            traces.append((out, b, js, "%s.%s%s" % (js["prog"], js["strategy"], ("." + js["tag"]) if js.get("tag") else "")))
            jobs.append((lambda cmd=cmd, env=js.get("env"): vlib.sh(cmd, timeout=1500, env=env)))
            k += 1
    if scheds:
        for prog in guided_progs:
            for b in builds:
                out = os.path.join(od, "t_%s_guided_%s_%d.ndjson" % (prog, b, k))
                cmd = [exes[b], "--out", out, "--prog", prog, "--seed", str(seed * 7919 + k), "--runs", str(len(scheds)), "--strategy", "guided",
                       "--sched", sched_file, "--spurious", "1", "--steps", "1"]
                traces.append((out, b, {"prog": prog, "strategy": "guided", "runs": (len(scheds), len(scheds))}, "%s.guided" % prog))
                jobs.append((lambda cmd=cmd: vlib.sh(cmd, timeout=1500)))
                k += 1
    t0 = time.time()
    res = vlib.parallel(jobs, nproc=14)
    nexec = 0
    for (rc, o), tr in zip(res, traces):
        if not os.path.exists(tr[0]):
            raise vlib.InfraError("driver failed rc=%d: %s" % (rc, o[-2000:]))
        with open(tr[0]) as f:
            nexec += sum(1 for l in f if l.startswith('{"e":"cfg"'))
    vlib.check_complete(V, prop, res, traces, what=lambda t: t[3])
    log("  ran %d scheduled executions (%d driver processes) in %.1fs" % (nexec, len(jobs), time.time() - t0))

    segcov = vlib.seg_pass(V, prop, [t[0] for t in traces], tag=prop + "conc")
    # the step events go to their own trace (StepTrace.tla), everything else to ApiTrace; long traces are split at reset lines so
    # that the TLC jobs stay balanced
    pieces, spieces, apieces, ppieces, nstep_events = [], [], [], [], 0
    for tr in traces:
        sp, ns = split_steps(tr[0])
        nstep_events += ns
        if ns > 0:
            spieces += split_pieces(sp, tr, limit=20000)
        ap = os.path.join(os.path.dirname(tr[0]), "asteps_" + os.path.basename(tr[0]))
        if os.path.exists(ap):
            apieces += split_pieces(ap, tr, limit=20000)
        pp = os.path.join(os.path.dirname(tr[0]), "psteps_" + os.path.basename(tr[0]))
        if os.path.exists(pp):
            ppieces += split_pieces(pp, tr, limit=20000)
        pieces += split_pieces(tr[0], tr)
    # an execution that logs an absurd number of atomic steps is spinning (a live-lock ended by the driver's alarm): reported as such, not fed to TLC
    def _longest_execution(path):
        n = best = 0
        with open(path) as f:
            for l in f:
                if l.startswith('{"e":"reset"'):
                    best = max(best, n); n = 0
                else:
                    n += 1
        return max(best, n)
    kept = []
    for p, tr in spieces:
        m = _longest_execution(p)
        if m > 400000:
            keep = os.path.join(vlib.keepdir(prop), os.path.basename(p) + ".head")
            with open(p) as f, open(keep, "w") as g:
                for i, l in enumerate(f):
                    if i >= 20000:
                        break
                    g.write(l)
            V.violation("NoHang:steps@%s" % tr[3], "%s:1" % keep, "one execution logged %d atomic steps on the delayed-free words: a thread is spinning (live-lock)" % m)
        else:
            kept.append((p, tr))
    spieces = kept
    t0 = time.time()
    stres = vlib.parallel([(lambda p=p: vlib.tlc_tv(p, module="StepTrace", cfg="StepTrace.cfg", timeout=2400, xmx="3g")) for p, _ in spieces], nproc=12)
    log("  TLC validated %d step-trace pieces (%d atomic steps) in %.1fs" % (len(spieces), nstep_events, time.time() - t0))
    sother = {}
    for (p, tr), r in zip(spieces, stres):
        if r["status"] in ("error", "timeout"):
            raise vlib.InfraError("TLC step-trace validation %s: %s" % (r["status"], r["out"][-3000:]))
        seen = set()
        fails = list(r["guardfails"])
        if r["status"] == "rejected" and not fails:
            fails = [("Unexplained", (r["consumed"] or 0) + 1, "no action explains this event")]
        for name, line, detail in fails:
            sig = "%s:step@%s" % (name, tr[3])
            if sig in seen:
                continue
            seen.add(sig)
            if name in step_guards or name in ("Unexplained", "TraceIntact"):
                keep = os.path.join(vlib.keepdir(prop), os.path.basename(p))
                shutil.copyfile(p, keep)
                V.violation(sig, "%s:%d" % (keep, line), "step-level guard %s failed (%s)" % (name, detail))
            else:
                sother[sig] = sother.get(sig, 0) + 1
    for sig, n in sorted(sother.items()):
        V.note("step-level guard (decisive for C02/C08/C09/C10) failed %d time(s): %s" % (n, sig))
    # the abandon / adopt protocol at the level of its atomic operations (decisive for C09)
    t0 = time.time()
    abres = vlib.parallel([(lambda p=p: vlib.tlc_tv(p, module="AbandonTrace", cfg="AbandonTrace.cfg", timeout=2400, xmx="3g")) for p, _ in apieces], nproc=12)
    nab = 0
    for (p, tr), r in zip(apieces, abres):
        if r["status"] in ("error", "timeout"):
            raise vlib.InfraError("TLC abandonment-trace validation %s: %s" % (r["status"], r["out"][-3000:]))
        with open(p) as f:
            nab += sum(1 for l in f if l.startswith('{"e":"astep"'))
        seen = set()
        fails = list(r["guardfails"])
        if r["status"] == "rejected" and not fails:
            fails = [("Unexplained", (r["consumed"] or 0) + 1, "no action explains this event")]
        for name, line, detail in fails:
            sig = "%s:astep@%s" % (name, tr[3])
            if sig in seen:
                continue
            seen.add(sig)
            if prop == "C09" or name == "TraceIntact" or (prop == "C13" and name in ("NoPurgeAfterAbandon", "WonSegmentsSettled", "MarkNotTwice", "FreedNotAbandoned")):
                keep = os.path.join(vlib.keepdir(prop), os.path.basename(p))
                shutil.copyfile(p, keep)
                V.violation(sig, "%s:%d" % (keep, line), "abandonment protocol guard %s failed (%s)" % (name, detail))
            else:
                V.note("abandonment protocol guard (decisive for C09) failed: %s" % sig)
    if apieces:
        log("  TLC validated %d abandonment-trace pieces (%d atomic steps) in %.1fs" % (len(apieces), nab, time.time() - t0))
    # the purge schedule of the arenas at the level of its atomic operations (decisive for C18)
    t0 = time.time()
    pures = vlib.parallel([(lambda p=p: vlib.tlc_tv(p, module="PurgeStepTrace", cfg="PurgeStepTrace.cfg", timeout=2400, xmx="3g")) for p, _ in ppieces], nproc=12)
    npu = 0
    for (p, tr), r in zip(ppieces, pures):
        if r["status"] in ("error", "timeout"):
            raise vlib.InfraError("TLC purge-step validation %s: %s" % (r["status"], r["out"][-3000:]))
        with open(p) as f:
            npu += sum(1 for l in f if l.startswith('{"e":"pstep"'))
        seen = set()
        fails = list(r["guardfails"])
        if r["status"] == "rejected" and not fails:
            fails = [("Unexplained", (r["consumed"] or 0) + 1, "no action explains this event")]
        for name, line, detail in fails:
            sig = "%s:pstep@%s" % (name, tr[3])
            if sig in seen:
                continue
            seen.add(sig)
            if prop == "C18" or name == "TraceIntact":
                keep = os.path.join(vlib.keepdir(prop), os.path.basename(p))
                shutil.copyfile(p, keep)
                V.violation(sig, "%s:%d" % (keep, line), "purge schedule guard %s failed (%s)" % (name, detail))
            else:
                V.note("purge schedule guard (decisive for C18) failed: %s" % sig)
    if ppieces:
        log("  TLC validated %d purge-step pieces (%d atomic steps) in %.1fs" % (len(ppieces), npu, time.time() - t0))
    t0 = time.time()
    tvres = vlib.parallel([(lambda p=p: vlib.tlc_tv(p, timeout=2400, xmx="3g")) for p, _ in pieces], nproc=12)
    log("  TLC validated %d trace pieces in %.1fs" % (len(pieces), time.time() - t0))
    consumed, other = 0, {}
    for (p, tr), r in zip(pieces, tvres):
        if r["status"] in ("error", "timeout"):
            raise vlib.InfraError("TLC trace validation %s: %s" % (r["status"], r["out"][-3000:]))
        consumed += r["consumed"] or 0
        seen = set()
        fails = list(r["guardfails"])
        if r["status"] == "rejected" and not fails:
            fails = [("Unexplained", (r["consumed"] or 0) + 1, "no action explains this event")]
        for name, line, detail in fails:
            op, ev = apifam.op_at(p, line)
            sig = "%s:%s@%s" % (name, op, tr[3])
            if sig in seen:
                continue
            seen.add(sig)
            if name in own_guards or name in ("Unexplained", "TraceIntact") or (crash_decisive and name == "NoCrash"):
                keep = os.path.join(vlib.keepdir(prop), os.path.basename(p))
                shutil.copyfile(p, keep)
                V.violation(sig, "%s:%d" % (keep, line), "guard %s failed (%s)" % (name, detail))
            else:
                other[sig] = other.get(sig, 0) + 1
    for sig, n in sorted(other.items()):
        V.note("guard of another property failed %d time(s): %s" % (n, sig))
    th.join()
    if "err" in mc_res:
        raise mc_res["err"]
    mcr = mc_res["r"]
    if mcr["violation"]:
        # the protocol model itself violates an invariant: a specification-level finding, reported as violation of the property
        V.violation("ModelInvariant:" + mc[0], os.path.join(vlib.SPEC, mc[0] + ".tla"), "TLC found an invariant violation in the bounded protocol model:\n" + mcr["out"][-1500:])
    events, opcount = apifam.summarize_traces([t[0] for t in traces])
    steps = []
    for t in traces[:3]:
        steps += [l.strip() for l in open(t[0]) if l.startswith('{"e":"end"')][:2]
    cov = {"states": mcr["distinct"], "transitions": mcr["generated"], "mc_depth": mcr["depth"], "mc_module": mc[0], "mc_config": mc[1][q],
           "traces_validated_against_impl": nexec, "trace_events_validated": consumed, "trace_events_total": events,
           "schedules_generated_by_tlc": len(scheds), "driver_processes": len(jobs), "builds": list(builds),
           "programs": len({t[2]["prog"] for t in traces}), "program_names": sorted({t[2]["prog"] for t in traces}), "strategies": sorted({t[2]["strategy"] for t in traces}),
           "decisive_guards": sorted(own_guards), "atomic_steps_validated": nstep_events, "abandonment_steps_validated": nab, "step_guards": sorted(step_guards), "samples": (scheds[:2] + vlib.sample_lines(traces[0][0], 3) + steps[:2]), "exhaustive": False}
    cov.update(segcov)
    if extra_cov:
        cov.update(extra_cov)
    if not finish:
        return V, cov
    return V.finish("model_checking", cov, assumptions=list(assumptions) + [
        "one virtual thread runs at a time: only sequentially consistent interleavings, scheduling points at the granularity of the mi_atomic_* macros on allocator memory (plus yields, locks, API boundaries)",
        "weak CAS may fail spuriously (bounded per run); executions are deterministic per seed (fork per execution)",
        "TLC 1.8.0 trusted; bounded constants of the protocol model as in the cfg",
    ])
