"""Common runner for the properties decided by MiApi/ApiTrace (Tier P): C01 C03 C04 C05 C06 C10 C12 C13 C15.

   MC   : exhaustive TLC run of the bounded MiApi instance (MiApiMC) -- the contract implies the invariants
   GEN  : TLC -simulate on MiApiMC emits API programs, replayed against the real allocator (drv_api --prog)
   TV   : traces of the seeded native driver and of the replayed programs are validated by TLC against ApiTrace
"""
import json, os, re, shutil, subprocess, sys, time
import vlib
from vlib import log

CRASH = "NoCrash"


def gen_programs(n, depth, seed, outdir, timeout=120):
    """TLC -simulate over MiApiMC: emit up to n distinct programs (JSON lists of abstract calls)."""
    cfgp = os.path.join(outdir, "MiApiGen.cfg")
    with open(cfgp, "w") as f:
        f.write("SPECIFICATION MCSpec\nCONSTANTS\n  Relaxed = FALSE\n  Cells = 48\n  Sizes = {8, 16, 24}\n  MaxBlocks = 40\n"
                "  MaxHeaps = 3\n  GenDepth = %d\nINVARIANT GenEmit\nCHECK_DEADLOCK FALSE\n" % depth)
    # a cfg outside spec/ is fine: TLC is run with cwd=spec and an absolute -config path
    r = vlib.tlc_run("MiApiMC", cfgp, workers=4, timeout=timeout, xmx="4g",
                     extra=["-simulate", "num=%d" % max(1, n // 4 + 1), "-depth", str(2 * depth + 4), "-seed", str(seed)],
                     tag="gen_%d" % seed)
    progs, seen = [], set()
    for m in re.finditer(r'<<"PROGRAM", "(.*)">>', r["out"]):
        s = m.group(1).replace('\\"', '"')
        if s in seen:
            continue
        seen.add(s)
        try:
            progs.append(json.loads(s))
        except ValueError:
            pass
    return progs[:n], r


def write_prog(prog, path):
    with open(path, "w") as f:
        for c in prog:
            f.write("%s %d %d %d\n" % (c["op"], c["h"], c["id"], c["n"]))


def run_driver(exe, out, seed, profile, ops, maxlive, extra=(), env=None, timeout=300):
    cmd = [exe, "--out", out, "--seed", str(seed), "--profile", profile, "--ops", str(ops), "--maxlive", str(maxlive), "--segs", "1"] + list(extra)
    rc, o = vlib.sh(cmd, timeout=timeout, env=env)
    return rc, o


def concat(traces, out):
    with open(out, "w") as w:
        for i, t in enumerate(traces):
            if i > 0:
                w.write('{"e":"reset"}\n')
            with open(t) as f:
                shutil.copyfileobj(f, w)


def locate(traces, line):
    """Map a line number of a concatenated trace back to (member trace, local line)."""
    off = 0
    for i, t in enumerate(traces):
        n = sum(1 for _ in open(t))
        if line <= off + n:
            return t, line - off
        off += n + 1
    return traces[-1], line


def op_at(path, line):
    try:
        with open(path) as f:
            for i, l in enumerate(f, 1):
                if i == line:
                    ev = json.loads(l)
                    return ev.get("op", ev.get("e", "?")), ev
    except Exception:
        pass
    return "?", {}


def summarize_traces(traces):
    ops, events = {}, 0
    for t in traces:
        with open(t) as f:
            for l in f:
                events += 1
                m = re.search(r'"e":"call".*?"op":"(\w+)"', l)
                if m:
                    ops[m.group(1)] = ops.get(m.group(1), 0) + 1
    return events, ops


def run_api(prop, tier, seed, profiles, builds, own_guards, crash_decisive=False, nruns=(6, 40), ops=(2500, 6000),
            maxlive=(150, 600), gen=(24, 200), gen_depth=30, mc_cfg=("MiApiMC.cfg", "MiApiMC_thorough.cfg"),
            driver="drv_api", driver_src="drv_api.c", extra_args=(), envs=(None,), shim=False, assumptions=(), level_extra=None,
            group=3, finish=True, extra_runs=()):
    """extra_runs: env dicts (with "_args", "_tag", optional "_builds") that are executed once on every build in addition to the
    rotating (profile, env) runs"""
    q = 0 if tier == "quick" else 1
    V = vlib.Verdict(prop, tier, seed)
    od = vlib.outdir(prop)
    for f in os.listdir(od):
        try:
            os.remove(os.path.join(od, f))
        except OSError:
            pass
    exes = {b: vlib.build_harness(driver, driver_src, cfg=b, shim=shim) for b in builds}

    # ---- MC (in the background while traces are produced)
    import threading
    mc_res = {}

    def do_mc():
        try:
            mc_res["r"] = vlib.tlc_mc("MiApiMC", mc_cfg[q], workers=(6 if q == 0 else 16), timeout=(600 if q == 0 else 3000), coverage=False)
        except Exception as e:
            mc_res["err"] = e
    th = threading.Thread(target=do_mc)
    th.start()

    # ---- GEN: programs from the specification
    progs, genr = gen_programs(gen[q], gen_depth, seed, od)
    log("  GEN: %d distinct programs of %d calls from TLC -simulate" % (len(progs), gen_depth))

    # ---- implementation runs
    jobs, traces = [], []
    k = 0
    for i in range(nruns[q]):
        for bi, b in enumerate(builds):
            prof = profiles[(i + bi) % len(profiles)]      # every build sees every profile
            env = envs[k % len(envs)]
            out = os.path.join(od, "t_%s_%s_%d.ndjson" % (b, prof, k))
            s = seed * 100003 + k
            tag = (env or {}).get("_tag", "")
            xargs = list(extra_args) + list((env or {}).get("_args", []))
            penv = {k: v for k, v in (env or {}).items() if not k.startswith("_")} or None
            traces.append((out, b, prof, s, env, None, tag))
            jobs.append((lambda exe=exes[b], out=out, s=s, prof=prof, penv=penv, xargs=xargs: run_driver(exe, out, s, prof, ops[q], maxlive[q], xargs, penv)))
            k += 1
    for env in extra_runs:
        for b in (env.get("_builds") or builds):
            prof = profiles[0]
            out = os.path.join(od, "t_%s_%s_%d.ndjson" % (b, env.get("_tag", "x").replace(".", "_"), k))
            s = seed * 100003 + k
            xargs = list(extra_args) + list(env.get("_args", []))
            penv = {kk: v for kk, v in env.items() if not kk.startswith("_")} or None
            traces.append((out, b, prof, s, env, None, env.get("_tag", "")))
            jobs.append((lambda exe=exes[b], out=out, s=s, prof=prof, penv=penv, xargs=xargs: run_driver(exe, out, s, prof, ops[q], maxlive[q], xargs, penv)))
            k += 1
    for j, pg in enumerate(progs):
        b = builds[j % len(builds)]
        pp = os.path.join(od, "prog_%d.txt" % j)
        write_prog(pg, pp)
        out = os.path.join(od, "g_%s_%d.ndjson" % (b, j))
        s = seed * 7919 + j
        traces.append((out, b, "gen", s, None, pp, ""))
        jobs.append((lambda exe=exes[b], out=out, s=s, pp=pp: run_driver(exe, out, s, "c01", 0, 64, ["--prog", pp] + list(extra_args))))
    t0 = time.time()
    res = vlib.parallel(jobs, nproc=14)
    for (rc, o), tr in zip(res, traces):
        if rc != 0 and not os.path.exists(tr[0]):
            raise vlib.InfraError("driver failed rc=%d: %s" % (rc, o[-2000:]))
    vlib.check_complete(V, prop, res, traces, what=lambda t: "%s.%s" % (t[2], t[1]))
    log("  ran %d implementation executions in %.1fs" % (len(jobs), time.time() - t0))
    segcov = vlib.seg_pass(V, prop, [t[0] for t in traces])

    # ---- TV: group traces so one JVM validates several executions
    nat = [t for t in traces if t[5] is None]
    gens = [t for t in traces if t[5] is not None]
    groups = [nat[i:i + group] for i in range(0, len(nat), group)] + [gens[i:i + 40] for i in range(0, len(gens), 40)]
    tvjobs = []
    for gi, g in enumerate(groups):
        cat = os.path.join(od, "cat_%d.ndjson" % gi)
        concat([t[0] for t in g], cat)
        tvjobs.append((lambda cat=cat: vlib.tlc_tv(cat, timeout=(900 if q == 0 else 3000), xmx="3g")))
    t0 = time.time()
    tvres = vlib.parallel(tvjobs, nproc=12)
    log("  TLC validated %d trace groups in %.1fs" % (len(groups), time.time() - t0))

    consumed = 0
    other = {}
    for g, r in zip(groups, tvres):
        if r["status"] in ("error", "timeout"):
            raise vlib.InfraError("TLC trace validation %s: %s" % (r["status"], r["out"][-3000:]))
        consumed += r["consumed"] or 0
        members = [t[0] for t in g]
        seen = set()
        for name, line, detail in r["guardfails"]:
            tpath, lline = locate(members, line)
            op, ev = op_at(tpath, lline)
            tag = next((t[6] for t in g if t[0] == tpath), "")
            sig = "%s:%s%s" % (name, op, ("@" + tag) if tag else "")
            if (sig, tpath) in seen:
                continue
            seen.add((sig, tpath))
            decisive = name in own_guards or name == "TraceIntact" or (crash_decisive and name == CRASH)
            # "Guard@re" in own_guards: the guard is decisive for this property only on calls of the re-allocation family
            if not decisive and (name + "@re") in own_guards and ("realloc" in op or "recalloc" in op or "rezalloc" in op or "expand" in op):
                decisive = True
            if decisive:
                keep = os.path.join(vlib.keepdir(prop), os.path.basename(tpath))
                shutil.copyfile(tpath, keep)
                V.violation(sig, "%s:%d" % (keep, lline), "guard %s failed (%s)" % (name, detail))
            else:
                other[sig] = other.get(sig, 0) + 1
        if r["status"] == "rejected" and not r["guardfails"]:
            # TLC stopped consuming: an event no action explains
            line = (r["consumed"] or 0) + 1
            tpath, lline = locate(members, line)
            op, ev = op_at(tpath, lline)
            keep = os.path.join(vlib.keepdir(prop), os.path.basename(tpath))
            shutil.copyfile(tpath, keep)
            V.violation("Unexplained:%s" % op, "%s:%d" % (keep, lline), "no action of the specification explains this event")
    for sig, n in sorted(other.items()):
        V.note("guard of another property failed %d time(s) in this workload: %s (see that property's check)" % (n, sig))

    th.join()
    if "err" in mc_res:
        raise mc_res["err"]
    mc = mc_res["r"]
    if mc["violation"]:
        raise vlib.InfraError("the bounded MiApi model violates its own invariants (specification error):\n" + mc["out"][-3000:])
    events, opcount = summarize_traces([t[0] for t in traces])
    cov = dict(segcov)
    cov.update({
        "states": mc["distinct"], "transitions": mc["generated"], "mc_depth": mc["depth"], "mc_config": mc_cfg[q],
        "traces_validated_against_impl": len(traces), "trace_events_validated": consumed, "trace_events_total": events,
        "programs_generated_by_tlc": len(progs), "native_runs": len(nat), "builds": list(builds), "profiles": list(profiles),
        "api_calls_by_entry_point": dict(sorted(opcount.items())), "distinct_entry_points": len(opcount),
        "decisive_guards": sorted(own_guards) + ([CRASH] if crash_decisive else []),
        "samples": vlib.sample_lines(traces[0][0], 4) + ([json.dumps(progs[0])[:600]] if progs else []),
        "exhaustive": False,
    })
    if level_extra:
        cov.update(level_extra)
    if not finish:
        return V, cov
    return V.finish("model_checking", cov, assumptions=list(assumptions) + [
        "TLC 1.8.0 and the CommunityModules Json/IOUtils are trusted",
        "harness measurements (addresses, usable sizes, decoded patterns, zero runs) are trusted; blocks > 256 KiB are written/compared sparsely (first and last 4 KiB, 64 bytes every 4 KiB)",
        "bounded MC constants as in " + mc_cfg[q] + "; implementation side is a seeded sample",
    ])
