"""C16 -- size-class and address arithmetic is sound for every size and address.

   MC : TLC evaluates the theorems of C16 over the transcribed arithmetic (spec/MiBins.tla, driver spec/MiBinsMC.tla):
        every request size 0..2*MI_MEDIUM_OBJ_SIZE_MAX+1, every slice count 0..512, every bin's block size with every
        page-position residue (thorough: every address of the page, every block offset of the heap walk).
   TV : harness/drv_bins.c dumps conformance tables from the COMPILED allocator of the working tree (rel, dbg, sec builds);
        TLC validates every row against spec/BinsTrace.tla: property guards (decisive) state the property on the measured
        values with plain arithmetic; conformance guards (names ending in "Matches") bind the code to the transcription
        so that the MC result transfers.  No judgement is made in C or Python.
"""
import json, os, re, shutil, threading, time
import vlib
from vlib import log

PROP = "C16"
BUILDS = ["rel", "dbg", "sec"]
CHUNK = 40000            # rows per TLC process
NPROC = 6

# guards whose failure is a violation of the property (everything else ends in "Matches": model divergence only)
DECISIVE = {"BinInRange", "BlockSizeAtLeastRequest", "BinMonotone", "Fragmentation25", "GoodAtLeast", "GoodIdempotent",
            "GoodEqualsUsable", "UnalignRecoversStart", "PtrPageRecovers", "FastDivExact", "AlignUpOK", "AlignDownOK",
            "DivideUpOK", "MulOverflowOK", "SliceBinInRange", "SliceBinMonotone", "NoCrash"}

_re_guard = re.compile(r'<<\s*"GUARDFAIL",\s*"([^"]+)",\s*(\d+)(?:,\s*"([^"]*)")?\s*>>')
_re_diam = re.compile(r'"TVDIAMETER", (\d+)')
_re_states = re.compile(r"(\d+) states generated, (\d+) distinct states found")


def run_tlc(module, cfg, tag, env=None, timeout=900, xmx="3g"):
    """One single-worker TLC process (serial GC: these runs are evaluation-bound, the parallel collector only costs system time)."""
    md = os.path.join(vlib.OUT, "tlc", "%s_%d" % (tag, os.getpid()))
    shutil.rmtree(md, ignore_errors=True)
    os.makedirs(md, exist_ok=True)
    cmd = ["java", "-XX:+UseSerialGC", "-Xmx" + xmx, "-Xss512m", "-cp", vlib.TLA_CP, "tlc2.TLC", "-nowarning", "-workers", "1",
           "-metadir", md, "-config", cfg, "-noGenerateSpecTE", module + ".tla"]
    t0 = time.time()
    rc, out = vlib.sh(cmd, timeout=timeout, env=env, cwd=vlib.SPEC)
    shutil.rmtree(md, ignore_errors=True)
    if rc == 124:
        raise vlib.InfraError("TLC %s timed out after %ds" % (tag, timeout))
    return rc, out, time.time() - t0


# ------------------------------------------------------------------------------------------------ theorem check (MC)
def mc_jobs(tier, od):
    jobs = []

    def job(mode, lo, hi, full):
        cfg = os.path.join(od, "mc_%s_%d_%d.cfg" % (mode, lo, hi))
        with open(cfg, "w") as f:
            f.write('SPECIFICATION Spec\nCONSTANTS\n  Mode = "%s"\n  Lo = %d\n  Hi = %d\n  Full = %s\nINVARIANT Theorems\nCHECK_DEADLOCK FALSE\n'
                    % (mode, lo, hi, "TRUE" if full else "FALSE"))
        return lambda: (mode, lo, hi, full) + run_tlc("MiBinsMC", cfg, "mc_%s_%d" % (mode, lo), timeout=1500, xmx="2g")

    total = 2 * 65536 + 2                                # sizes 0 .. 2*MI_MEDIUM_OBJ_SIZE_MAX+1 (ConstMatches ties the constant to the build)
    nch = 4
    for i in range(nch):
        jobs.append(job("size", i * total // nch, (i + 1) * total // nch - 1, False))
    jobs.append(job("slice", 0, 512, False))
    if tier == "quick":
        jobs.append(job("addr", 1, 72, False))
    else:
        # every address of the page of every bin: chunks of roughly equal work
        for lo, hi in [(1, 24), (25, 40), (41, 46), (47, 48), (49, 62), (63, 67), (68, 70), (71, 72)]:
            jobs.append(job("addr", lo, hi, True))
    return jobs


# ------------------------------------------------------------------------------------------------ tables (TV)
def split_table(path, od, build):
    """Chunk files of at most CHUNK rows; every chunk starts with the cfg row and (from the second on) repeats the
    last row of its predecessor so that the row-to-row monotonicity guards have no gap.  Returns [(file, base)]:
    chunk line i >= 2 is table line base + i - 2."""
    with open(path) as f:
        lines = f.readlines()
    chunks = []
    if len(lines) <= CHUNK:
        return [(path, 2)], lines
    j = 0
    while j * CHUNK < len(lines):
        cp = os.path.join(od, "bins_%s_part%d.ndjson" % (build, j))
        with open(cp, "w") as w:
            if j == 0:
                w.writelines(lines[:CHUNK])
                base = 2
            else:
                w.write(lines[0])
                w.writelines(lines[j * CHUNK - 1:(j + 1) * CHUNK])
                base = j * CHUNK
        chunks.append((cp, base))
        j += 1
    return chunks, lines


def validate_chunk(cp):
    rc, out, wall = run_tlc("BinsTrace", "BinsTrace.cfg", "tv_" + os.path.basename(cp), env={"TRACE": os.path.abspath(cp)}, timeout=1500)
    gf = [(m.group(1), int(m.group(2)), m.group(3) or "?") for m in _re_guard.finditer(vlib._unwrap_prints(out))]
    m = _re_diam.search(out)
    consumed = int(m.group(1)) if m else 0
    with open(cp) as f:
        total = sum(1 for _ in f)
    if not gf and (rc != 0 or consumed != total):
        raise vlib.InfraError("TLC did not evaluate the whole table %s (%d of %d rows, rc=%d):\n%s" % (cp, consumed, total, rc, out[-3000:]))
    return gf, consumed, total, wall


def run(tier, seed):
    # the block arithmetic of the heap walk (pages of many small blocks with scattered holes are walked and compared with the live blocks)
    from checks import apifam
    V, wcov = apifam.run_api(PROP, tier, seed, profiles=["c16w"], builds=["rel", "dbg"], own_guards={"WalkCount", "WalkEveryLiveOnce", "WalkOnlyLive", "AreasCoverAll", "AreaUsedCount"},
                             crash_decisive=True, gen=(0, 0), nruns=(2, 6), ops=(2500, 8000), maxlive=(1200, 3000), finish=False,
                             extra_runs=[{"_args": ["--scenario", "walkholes"], "_tag": "walkholes"}])
    thorough = (tier != "quick")
    od = vlib.outdir(PROP)
    for f in os.listdir(od):
        fp = os.path.join(od, f)
        if os.path.isfile(fp):
            os.remove(fp)
    exes = {b: vlib.build_harness("drv_bins", "drv_bins.c", cfg=b) for b in BUILDS}

    # ---- MC in the background (2 processes), tables and their validation in the foreground (4 processes)
    mc_out = {}

    def do_mc():
        try:
            mc_out["res"] = vlib.parallel(mc_jobs(tier, od), nproc=2)
        except Exception as e:          # noqa
            mc_out["err"] = e
    th = threading.Thread(target=do_mc)
    t_mc = time.time()
    th.start()

    # ---- dump the tables from the compiled code
    tables = {}
    t0 = time.time()

    def dump(b):
        out = os.path.join(od, "bins_%s.ndjson" % b)
        rc, o = vlib.sh([exes[b], "--out", out, "--tier", "thorough" if thorough else "quick", "--seed", str(seed), "--stride", "1"], timeout=900)
        if rc != 0 or not os.path.exists(out):
            raise vlib.InfraError("drv_bins [%s] failed rc=%d: %s" % (b, rc, o[-2000:]))
        return out
    for b, p in zip(BUILDS, vlib.parallel([(lambda b=b: dump(b)) for b in BUILDS], nproc=3)):
        tables[b] = p
    log("  dumped %d tables from the compiled code in %.1fs" % (len(tables), time.time() - t0))

    # ---- validate every row with TLC
    chunks, kinds, phases, distinct, samples, nrows = [], {}, {}, set(), [], 0
    for b in BUILDS:
        cs, lines = split_table(tables[b], od, b)
        chunks += [(b, cp, base) for cp, base in cs]
        nrows += len(lines)
        bykind = {}
        for l in lines:
            m = re.match(r'\{"k":"(\w+)"', l)
            k = m.group(1) if m else "crash"
            kinds[k] = kinds.get(k, 0) + 1
            if k == "bin":
                mp = re.search(r'"ph":"(\w+)"', l[:40])
                ph = mp.group(1) if mp else "asc"
                phases[ph] = phases.get(ph, 0) + 1
            if k not in ("cfg", "end", "binsize"):
                distinct.add(hash((b, l)))
            if b == BUILDS[1]:
                bykind.setdefault(k, []).append(l)
        for k, ls in bykind.items():                           # one row from the middle of every kind (debug build)
            samples.append(ls[(len(ls) * 2) // 3].strip()[:400])
    t0 = time.time()
    res = vlib.parallel([(lambda cp=cp: validate_chunk(cp)) for _, cp, _ in chunks], nproc=NPROC - 2)
    log("  TLC validated %d rows (%d chunks) in %.1fs" % (nrows, len(chunks), time.time() - t0))

    consumed, diverged, seen = 0, {}, set()
    for (b, cp, base), (gf, cons, total, wall) in zip(chunks, res):
        consumed += cons - (0 if base == 2 else 2)          # later chunks repeat the cfg row and one overlap row
        kept = None
        for name, line, kind in gf:
            gline = 1 if line == 1 else base + line - 2
            if (b, name, gline) in seen:
                continue
            seen.add((b, name, gline))
            sig = "%s:%s" % (name, kind)
            if name in DECISIVE:
                if kept is None:
                    kept = os.path.join(vlib.keepdir(PROP), "bins_%s_%s" % (tier, os.path.basename(cp).replace("bins_", "")))
                    shutil.copyfile(cp, kept)
                row = ""
                try:
                    with open(cp) as f:
                        for i, l in enumerate(f, 1):
                            if i == line:
                                row = l.strip()[:300]
                                break
                except OSError:
                    pass
                V.violation(sig, kept, "build=%s guard %s failed at line %d of the kept table (table line %d): %s" % (b, name, line, gline, row))
            else:
                d = diverged.setdefault((b, sig), [0, gline])
                d[0] += 1
    for (b, sig), (n, gline) in sorted(diverged.items()):
        V.note("model-divergence: build=%s conformance guard %s failed on %d row(s), first at table line %d: the compiled function "
               "differs from the transcription in MiBins.tla (the theorems checked on MiBins do not transfer; the property guards "
               "on the dumped tables still decide)" % (b, sig, n, gline))

    th.join()
    if "err" in mc_out:
        raise mc_out["err"]
    states = trans = 0
    mc_samples = []
    for mode, lo, hi, full, rc, out, wall in mc_out["res"]:
        m = None
        for m in _re_states.finditer(out):
            pass
        if rc != 0 or m is None or "No error has been found" not in out:
            if "is violated" in out or "Assumption" in out:
                raise vlib.InfraError("the transcription MiBins.tla violates a theorem of C16 (Mode=%s %d..%d): specification error or "
                                      "the transcribed constants no longer hold:\n%s" % (mode, lo, hi, out[-2500:]))
            raise vlib.InfraError("TLC theorem check failed (Mode=%s %d..%d rc=%d):\n%s" % (mode, lo, hi, rc, out[-2500:]))
        trans += int(m.group(1))
        states += int(m.group(2))
        mc_samples.append("MiBinsMC Mode=%s n=%d..%d Full=%s: %s distinct states, %.1fs" % (mode, lo, hi, full, m.group(2), wall))
    log("  TLC checked the theorems over MiBins: %d points in %.1fs" % (states, time.time() - t_mc))

    exhaustive = thorough and not diverged
    cov = {
        "evaluations": consumed + states,
        "distinct_nontrivial": len(distinct),
        "rule": "one evaluation = one row of a table dumped from the compiled allocator (inputs and measured result of one arithmetic "
                "function: _mi_bin/_mi_bin_size/mi_good_size/mi_malloc+mi_usable_size per request size, mi_slice_bin per slice count, "
                "_mi_page_ptr_unalign/_mi_ptr_page per (page, block index, interior offset), mi_fast_divide per (offset, block size), "
                "_mi_align_up/_mi_align_down/_mi_divide_up/mi_mul_overflow per boundary class) judged by TLC against BinsTrace, or one "
                "point of the theorem domain evaluated by TLC over the transcription MiBins; distinct_nontrivial counts distinct "
                "(build, row) pairs of kinds other than cfg/binsize/end",
        "rows_validated": consumed, "rows_total": nrows, "rows_by_kind": dict(sorted(kinds.items())),
        "bin_rows_by_pass": dict(sorted(phases.items())),
        "builds": BUILDS, "tables": len(tables),
        "states": states, "transitions": trans, "traces_validated_against_impl": len(tables),
        "theorem_domains": mc_samples,
        "size_domain": "every request size 0..131073 (= 2*MI_MEDIUM_OBJ_SIZE_MAX+1) really allocated in each build in a first ascending sweep (asc); "
                       "the same (n, good size, served block) rows again in heaps with history: second ascending pass with live blocks of every "
                       "class (asc2), descending pass (desc), seeded random order with bursts and interleaved frees (rnd), and after the "
                       "address section (late) -- " + ("every size in each pass" if thorough else "all n <= 1100 plus one word either side of every "
                       "class / page-rounding boundary in each pass") + "; class boundaries of _mi_os_good_alloc_size up to 48 MiB really "
                       "allocated, value classes up to PTRDIFF_MAX by function call",
        "address_domain": ("every block of every page with <= 1024 blocks and of the first/last page of denser sizes, 6 interior offsets"
                           if thorough else "block indices {0,1,2,mid,last-1,last}+4 seeded, interior offsets {0,1,bs/2,bs-1}")
                          + "; pages of every reachable block size at several positions of a segment, large and huge pages, aligned allocations",
        "model_divergences": ["%s %s x%d" % (b, sig, n) for (b, sig), (n, _) in sorted(diverged.items())],
        "decisive_guards": sorted(DECISIVE),
        "heap_walk": {k: wcov.get(k) for k in ("traces_validated_against_impl", "trace_events_validated", "decisive_guards")},
        "segment_tables_validated": wcov.get("segment_tables_validated", 0), "heap_dumps_validated": wcov.get("heap_dumps_validated", 0),
        "samples": samples[:14],
        "exhaustive": exhaustive,
    }
    return V.finish("exploration", cov, assumptions=[
        "TLC (tla2tools) and the CommunityModules Json/IOUtils are trusted as the evaluator of record; TLC integers are 32 bit, 64-bit "
        "quantities are compared limb-wise (base 2^10 naturals defined in MiBins.tla)",
        "the harness only enumerates inputs and logs what the compiled functions return; the page of a block is identified by range "
        "search over the heap's page queues, independently of the pointer arithmetic under test",
        "padded builds (dbg: MI_DEBUG=3, sec: MI_SECURE=4; MI_PADDING_SIZE=8): mi_usable_size returns the requested size and mi_good_size "
        "includes the padding, so 'mi_good_size(n) equals the usable size of mi_malloc(n)' is checked literally in the release build "
        "and as 'equals the block size serving mi_malloc(n), with or without the padding' while n+8 <= MI_MEDIUM_OBJ_SIZE_MAX in padded "
        "builds; idempotence there is taken modulo the padding (mi_good_size(mi_good_size(n)-8) = mi_good_size(n))",
        "fragmentation <= 25% is stated as (block size - n)*4 <= n for 64 < n <= MI_MEDIUM_OBJ_SIZE_MAX on the size-class function "
        "_mi_bin_size(_mi_bin(n)) (padding of debug builds is not counted as fragmentation)",
        "interior pointers deeper than MI_BLOCK_ALIGNMENT_MAX (16 MiB) into a huge block are outside the domain (the allocator never "
        "produces them; slice back-offsets are only kept for MI_MAX_SLICE_OFFSET_COUNT slices)",
        "sizes >= 2^31 are covered by boundary classes, not exhaustively; align/divide helpers only where sz+alignment does not wrap",
        "x86-64 configuration (MI_INTPTR_SIZE 8, MI_MAX_ALIGN_SIZE 16, 64 KiB slices, 32 MiB segments); the constants are checked "
        "against the build by guard ConstMatches",
    ])
