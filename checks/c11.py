from checks import osfam
GUARDS = {"AllReleased", "DirtyAllReleased", "NoCreepMapped", "NoCreepResident", "QuiesceNoLive", "MmapFresh", "Invariant.Inv", "NothingReservedBehind", "RefillComplete"}
ARENAS = [("default", {}), ("noarena", {"MIMALLOC_DISALLOW_ARENA_ALLOC": "1"}), ("tiny", {"MIMALLOC_ARENA_RESERVE": "32768"}),
          ("nopurge", {"MIMALLOC_PURGE_DELAY": "-1"}), ("lazy", {"MIMALLOC_EAGER_COMMIT": "0", "MIMALLOC_ARENA_EAGER_COMMIT": "0"}),
          ("largepages", {"MIMALLOC_ALLOW_LARGE_OS_PAGES": "1"})]      # (no huge pages are configured: the large-page mapping fails and ordinary pages are used)
def run(tier, seed):
    q = tier == "quick"
    runs = []
    for wl in ["small", "large", "huge", "mt", "mix"]:
        for an, env in ARENAS:
            if q and an in ("nopurge", "lazy", "largepages") and wl not in ("mix", "huge"):
                continue
            for rounds in ([4] if q else [6, 24]):
                if not q and rounds == 24 and wl == "huge":
                    rounds = 12
                runs.append({"args": ["--workload", wl, "--rounds", str(rounds)], "env": dict(env), "tag": an})
            # the same with the virtual clock moving during the rounds (scheduled purges expire between the frees)
            if an in ("default", "tiny") and (not q or wl in ("large", "mix", "huge")):
                runs.append({"args": ["--workload", wl, "--rounds", "4" if q else "8", "--clock", "150"], "env": dict(env), "tag": an + ".clock"})
    # objects of many arena blocks in one large arena: claims and releases that cross the 64-block fields of the arena bitmaps
    for bld in (["rel"] if q else ["rel", "dbg"]):
        runs.append({"args": ["--workload", "giant", "--rounds", "3" if q else "6"], "env": {"MIMALLOC_ARENA_RESERVE": "4GiB"}, "tag": "giant", "build": bld})
        if not q:
            runs.append({"args": ["--workload", "giant", "--rounds", "4", "--clock", "150"], "env": {"MIMALLOC_ARENA_RESERVE": "4GiB", "MIMALLOC_PURGE_DECOMMITS": "0"}, "tag": "giant.reset", "build": bld})
    # nobody who touched the memory is alive any more: producer and consumer threads both exit (also with forced abandonment on)
    for tag, env in (("relay", {}), ("relay.tspt", {"MIMALLOC_TARGET_SEGMENTS_PER_THREAD": "2"}),
                     ("relay.tspt.os", {"MIMALLOC_TARGET_SEGMENTS_PER_THREAD": "2", "MIMALLOC_DISALLOW_ARENA_ALLOC": "1"})):
        runs.append({"args": ["--workload", "relay", "--rounds", "3" if q else "6"], "env": dict(env), "tag": tag, "build": "rel"})
        if not q:
            runs.append({"args": ["--workload", "relay", "--rounds", "4"], "env": dict(env), "tag": tag, "build": "dbg"})
    # ... and the producers leave directly mapped segments behind as well (abandoned segments on the OS list and in the arena bitmaps)
    for tag, env in (("relayos", {}), ("relayos.rof", {"MIMALLOC_ABANDONED_RECLAIM_ON_FREE": "1"})):
        runs.append({"args": ["--workload", "relayos", "--rounds", "3" if q else "6"], "env": dict(env), "tag": tag, "build": "rel"})
        if not q:
            runs.append({"args": ["--workload", "relayos", "--rounds", "4"], "env": dict(env), "tag": tag, "build": "dbg"})
    # memory left behind in an EXCLUSIVE arena by a thread that exited: freed and force-collected by a thread whose heap may not use that arena -- the arena is empty again
    for bld in ("rel", "dbg"):
        runs.append({"args": ["--scenario", "exclrelease"], "env": {}, "tag": "exclrelease", "build": bld})
    runs.append({"args": ["--scenario", "exclrelease"], "env": {"MIMALLOC_ABANDONED_RECLAIM_ON_FREE": "1"}, "tag": "exclrelease.rof", "build": "rel"})
    return osfam.run_os("C11", tier, seed, runs, builds=["rel", "dbg"] if q else ["rel", "dbg", "sec"], own_guards=GUARDS, crash_decisive=False,
                        group=2 if q else 1,
                        extra_cov={"workloads": ["small", "large", "huge", "mt", "mix", "giant", "relay", "relayos"], "arena_configs": [a for a, _ in ARENAS],
                                   "rounds": [4] if q else [6, 12, 24]},
                        assumptions=["resident memory is the process RSS from /proc/self/statm (harness buffers are made resident up front); a tolerance of 96 pages plus 1/64 of the previous value per round is allowed",
                                     "allocator tables recognised by exact size (segment-map part) are exempt from AllReleased"])
