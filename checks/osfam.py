"""Common runner for the properties decided by MiOs + MiApi on shim traces (C07 C11 C18): a list of driver invocations
(args, env, tag) on shim builds, TLC trace validation of every execution, TLC model check of the bounded OS model."""
import json, os, re, shutil, time
import vlib
from vlib import log
from checks import apifam


def run_os(prop, tier, seed, runs, builds, own_guards, crash_decisive=True, group=4, level="model_checking", assumptions=(),
           extra_cov=None, mc=("MiOsMC", "MiOsMC.cfg"), driver_timeout=300, V=None, finish=True, outname=None):
    """runs: list of dicts {args: [...], env: {...} or None, tag: str, build: optional}"""
    V = V or vlib.Verdict(prop, tier, seed)
    od = vlib.outdir(outname or prop)
    for f in os.listdir(od):
        try:
            os.remove(os.path.join(od, f))
        except OSError:
            pass
    exes = {b: vlib.build_harness("drv_api", "drv_api.c", cfg=b, shim=True) for b in builds}

    import threading
    mc_res = {}

    def do_mc():
        try:
            mc_res["r"] = vlib.tlc_mc(mc[0], mc[1], workers=6, timeout=900, coverage=False)
        except Exception as e:
            mc_res["err"] = e
    th = threading.Thread(target=do_mc)
    th.start()

    jobs, traces = [], []
    for i, r in enumerate(runs):
        b = r.get("build") or builds[i % len(builds)]
        out = os.path.join(od, "t_%s_%d.ndjson" % (b, i))
        s = r.get("seed", seed * 100003 + i)        # (a run may pin its own seed: regression scenarios)
        cmd = [exes[b], "--out", out, "--seed", str(s), "--segs", "1"] + list(r["args"])
        traces.append((out, b, r.get("tag", ""), r))
        jobs.append((lambda cmd=cmd, env=r.get("env"): vlib.sh(cmd, timeout=driver_timeout, env=env)))
    t0 = time.time()
    res = vlib.parallel(jobs, nproc=14)
    for (rc, o), tr in zip(res, traces):
        if not os.path.exists(tr[0]):
            raise vlib.InfraError("driver failed rc=%d: %s" % (rc, o[-2000:]))
    vlib.check_complete(V, prop, res, traces, what=lambda t: "%s.%s" % (t[2], t[1]))
    log("  ran %d implementation executions in %.1fs" % (len(jobs), time.time() - t0))
    segcov = vlib.seg_pass(V, prop, [t[0] for t in traces], tag=(outname or prop))

    groups = [traces[i:i + group] for i in range(0, len(traces), group)]
    tvjobs = []
    for gi, g in enumerate(groups):
        cat = os.path.join(od, "cat_%d.ndjson" % gi)
        apifam.concat([t[0] for t in g], cat)
        tvjobs.append((lambda cat=cat: vlib.tlc_tv(cat, timeout=1800, xmx="3g")))
    t0 = time.time()
    tvres = vlib.parallel(tvjobs, nproc=12)
    log("  TLC validated %d trace groups in %.1fs" % (len(groups), time.time() - t0))

    consumed, other, osevents = 0, {}, 0
    for g, r in zip(groups, tvres):
        if r["status"] in ("error", "timeout"):
            raise vlib.InfraError("TLC trace validation %s: %s" % (r["status"], r["out"][-3000:]))
        consumed += r["consumed"] or 0
        members = [t[0] for t in g]
        seen = set()
        for name, line, detail in r["guardfails"]:
            tpath, lline = apifam.locate(members, line)
            op, ev = apifam.op_at(tpath, lline)
            tag = next((t[2] for t in g if t[0] == tpath), "")
            sig = "%s:%s%s" % (name, op, ("@" + tag) if tag else "")
            if (sig, tpath) in seen:
                continue
            seen.add((sig, tpath))
            if name in own_guards or name == "TraceIntact" or (crash_decisive and name == "NoCrash"):
                keep = os.path.join(vlib.keepdir(prop), os.path.basename(tpath))
                shutil.copyfile(tpath, keep)
                V.violation(sig, "%s:%d" % (keep, lline), "guard %s failed (%s)" % (name, detail))
            else:
                other[sig] = other.get(sig, 0) + 1
        if r["status"] == "rejected" and not r["guardfails"]:
            line = (r["consumed"] or 0) + 1
            tpath, lline = apifam.locate(members, line)
            op, ev = apifam.op_at(tpath, lline)
            keep = os.path.join(vlib.keepdir(prop), os.path.basename(tpath))
            shutil.copyfile(tpath, keep)
            V.violation("Unexplained:%s" % op, "%s:%d" % (keep, lline), "no action of the specification explains this event")
    for sig, n in sorted(other.items()):
        V.note("guard of another property failed %d time(s) in this workload: %s" % (n, sig))
    th.join()
    if "err" in mc_res:
        raise mc_res["err"]
    mcr = mc_res["r"]
    if mcr["violation"]:
        raise vlib.InfraError("the bounded OS model violates its own invariants (specification error):\n" + mcr["out"][-3000:])
    events, opcount = apifam.summarize_traces([t[0] for t in traces])
    for t in traces:
        with open(t[0]) as f:
            osevents += sum(1 for l in f if l.startswith('{"e":"os"'))
    cov = {"states": mcr["distinct"], "transitions": mcr["generated"], "mc_config": mc[1],
           "traces_validated_against_impl": len(traces), "trace_events_validated": consumed, "trace_events_total": events,
           "os_events": osevents, "builds": list(builds), "decisive_guards": sorted(own_guards),
           "runs_sample": [{"args": r["args"], "env": r.get("env"), "tag": r.get("tag", "")} for r in runs[:4]],
           "samples": vlib.sample_lines(traces[0][0], 3) + [l for l in open(traces[0][0]) if '"e":"os"' in l][:2],
           "exhaustive": False}
    cov.update(segcov)
    if extra_cov:
        cov.update(extra_cov)
    if not finish:
        return V, cov
    return V.finish(level, cov, assumptions=list(assumptions) + [
        "TLC 1.8.0 and CommunityModules trusted; the OS shim reports each mmap/munmap/mprotect/madvise call faithfully (it performs the real call unless the fault plan refuses it)",
        "MADV_HUGEPAGE is answered without reaching the kernel; the clock is virtual",
    ])
