from checks import concfam
GUARDS = {"BlockConservation.dup", "BlockConservation.lost", "ListsStayInPage", "NoOverlap", "ContentsKept.gen", "ContentsKept.bytes", "ObsOfLiveBlock", "FreeOfLiveBlock", "CheckAllComplete", "MovedDisjointFromOld",
          "Invariant.Inv", "WalkCount", "WalkEveryLiveOnce", "WalkOnlyLive", "DestructiveAvoidsLive", "LiveAccessible"}
def run(tier, seed):
    jobs = [
        {"prog": "page-huge", "strategy": "random", "runs": (40, 600), "args": ["--snap", "3", "--spurious", "1", "--rate", "3"]},
        {"prog": "page-huge", "strategy": "pct", "runs": (30, 400), "args": ["--snap", "3"]},
        {"prog": "page", "strategy": "random", "runs": (40, 600), "args": ["--snap", "3", "--size", "600000", "1048576", "--spurious", "1"]},
        {"prog": "page", "strategy": "random", "runs": (300, 4000), "args": ["--snap", "3", "--spurious", "2", "--rate", "3"]},
        {"prog": "page", "strategy": "pct", "runs": (200, 3000), "args": ["--snap", "3", "--spurious", "1"]},
        {"prog": "page-main", "strategy": "random", "runs": (200, 3000), "args": ["--snap", "3", "--spurious", "2"]},
        {"prog": "page-collect", "strategy": "random", "runs": (150, 2000), "args": ["--snap", "3", "--spurious", "2", "--rate", "2"]},
        {"prog": "page", "strategy": "random", "runs": (100, 1500), "args": ["--snap", "3", "--size", "60000", "65536", "--spurious", "1"]},
        {"prog": "page", "strategy": "random", "runs": (100, 1500), "args": ["--snap", "3", "--size", "100", "128", "--spurious", "1"]},
        {"prog": "exit", "strategy": "random", "runs": (100, 1500), "args": ["--spurious", "1"]},
        # blocks of exited threads freed by a thread that adopts their segment in the same call (reclaim on free): the block goes back exactly once
        {"prog": "exit", "strategy": "random", "runs": (100, 1500), "args": ["--rate", "3"], "env": {"MIMALLOC_ABANDONED_RECLAIM_ON_FREE": "1"}},
        {"prog": "exit", "strategy": "pct", "runs": (60, 800), "args": [], "env": {"MIMALLOC_ABANDONED_RECLAIM_ON_FREE": "1"}},
        # ... also while a destroyable heap (mi_heap_new) is the thread's default heap: it must not adopt the segment (its destroy would release live blocks of others)
        {"prog": "exit-heap", "strategy": "random", "runs": (40, 500), "args": ["--rate", "3"], "env": {"MIMALLOC_ABANDONED_RECLAIM_ON_FREE": "1"}},
        {"prog": "exit-heap", "strategy": "pct", "runs": (30, 400), "args": [], "env": {"MIMALLOC_ABANDONED_RECLAIM_ON_FREE": "1"}},
        {"prog": "exit", "strategy": "random", "runs": (60, 800), "args": ["--size", "40", "200"], "env": {"MIMALLOC_ABANDONED_RECLAIM_ON_FREE": "1"}},
        # a remote thread that has just set DELAYED_FREEING is not scheduled for the next 6 yields of the others (owner exit / heap delete must wait for it)
        {"prog": "exit", "strategy": "random", "runs": (80, 1000), "args": ["--park", "6", "--rate", "3"]},
        {"prog": "page-delete", "strategy": "random", "runs": (80, 1000), "args": ["--snap", "3", "--park", "6", "--rate", "3"]},
        {"prog": "page", "strategy": "pct", "runs": (60, 800), "args": ["--snap", "3", "--park", "6"]},
        # a limit on the segments per thread: the owner abandons segments by force (their pages may have remote frees pending on its delayed list) while other threads free into them
        {"prog": "page-huge", "strategy": "random", "runs": (60, 800), "args": ["--snap", "3", "--rate", "3"], "env": {"MIMALLOC_TARGET_SEGMENTS_PER_THREAD": "2"}},
        {"prog": "page-huge", "strategy": "pct", "runs": (40, 600), "args": ["--snap", "3"], "env": {"MIMALLOC_TARGET_SEGMENTS_PER_THREAD": "2"}},
        {"prog": "page", "strategy": "random", "runs": (40, 600), "args": ["--snap", "3", "--size", "600000", "1048576", "--spurious", "1"], "env": {"MIMALLOC_TARGET_SEGMENTS_PER_THREAD": "2"}},
        {"prog": "exit", "strategy": "random", "runs": (60, 800), "args": ["--size", "600000", "1048576", "--rate", "3"], "env": {"MIMALLOC_TARGET_SEGMENTS_PER_THREAD": "2"}},
        # (blocks of 9-12 MiB: every page is full, every second allocation needs a segment and abandons others by force; release build only: debug builds
        #  abort here on the unchanged tree, known finding of C13)
        {"prog": "exit", "strategy": "random", "runs": (60, 800), "args": ["--size", "9000000", "12000000", "--rate", "3"], "env": {"MIMALLOC_TARGET_SEGMENTS_PER_THREAD": "2"}, "builds": ["rel"], "tag": "tsptbig"},
        {"prog": "exit", "strategy": "pct", "runs": (40, 600), "args": ["--size", "9000000", "12000000"], "env": {"MIMALLOC_TARGET_SEGMENTS_PER_THREAD": "2"}, "builds": ["rel"], "tag": "tsptbig"},
        {"prog": "page-aligned", "strategy": "random", "runs": (120, 1500), "args": ["--snap", "3", "--spurious", "1", "--rate", "3"]},
        {"prog": "page-aligned", "strategy": "pct", "runs": (80, 1000), "args": ["--snap", "3"]},
        {"prog": "page-delete", "strategy": "random", "runs": (100, 1500), "args": ["--snap", "3", "--spurious", "1", "--rate", "3"]},
    ]
    return concfam.run_conc("C02", tier, seed, jobs, GUARDS, step_guards=concfam.STEP_GUARDS, mc=("MiPage", ("MiPage_mc.cfg", "MiPage_mc_thorough.cfg")), guided_progs=("page", "page-main"))
