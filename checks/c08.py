from checks import concfam, osfam
import vlib
GUARDS = {"BlockConservation.dup", "BlockConservation.lost", "ListsStayInPage", "QuiescentClean", "NoBlowUp", "WalkCount", "Invariant.Inv"}
def run(tier, seed):
    jobs = [
        {"prog": "page-huge", "strategy": "random", "runs": (40, 600), "args": ["--snap", "3", "--spurious", "1", "--rate", "3"]},
        {"prog": "page-huge", "strategy": "pct", "runs": (30, 400), "args": ["--snap", "3"]},
        {"prog": "page", "strategy": "random", "runs": (40, 600), "args": ["--snap", "3", "--size", "600000", "1048576", "--spurious", "1"]},
        {"prog": "page", "strategy": "random", "runs": (250, 3000), "args": ["--snap", "3", "--spurious", "2", "--rate", "3"]},
        {"prog": "page", "strategy": "pct", "runs": (150, 2000), "args": ["--snap", "3", "--spurious", "1"]},
        {"prog": "page-collect", "strategy": "random", "runs": (150, 2000), "args": ["--snap", "3", "--spurious", "2", "--rate", "2"]},
        {"prog": "page", "strategy": "random", "runs": (100, 1500), "args": ["--snap", "3", "--size", "60000", "65536", "--spurious", "1"]},
        {"prog": "page-collect", "strategy": "random", "runs": (60, 800), "args": ["--snap", "3", "--park", "6", "--rate", "3"]},
        # remote frees racing with mi_heap_delete of the heap that owns the page (the delayed list of the dying heap is drained before AND after its pages move)
        {"prog": "page-delete", "strategy": "random", "runs": (150, 2000), "args": ["--snap", "3", "--spurious", "2", "--rate", "3"]},
        {"prog": "page-delete", "strategy": "pct", "runs": (100, 1500), "args": ["--snap", "3", "--spurious", "1"]},
        {"prog": "pc", "strategy": "random", "runs": (2, 12), "args": ["--rate", "5"]},
        {"prog": "pc", "strategy": "random", "runs": (2, 8), "args": ["--size", "60000", "65536"]},
        {"prog": "pc", "strategy": "random", "runs": (1, 6), "args": ["--size", "900000", "1048576"]},
        {"prog": "pc", "strategy": "pct", "runs": (1, 6), "args": [], "env": {"MIMALLOC_GENERIC_COLLECT": "1000000"}},
        {"prog": "pc", "strategy": "random", "runs": (1, 6), "args": ["--rate", "2"], "env": {"MIMALLOC_GENERIC_COLLECT": "1000000"}},
    ]
    # remote frees into pages that the allocator abandoned by force (MIMALLOC_TARGET_SEGMENTS_PER_THREAD): the producer exits with everything live,
    # a consumer frees all of it; at quiescence nothing the program wrote may be left behind (OS-level accounting)
    q = tier == "quick"
    oruns = []
    for tag, env in (("relay.tspt", {"MIMALLOC_TARGET_SEGMENTS_PER_THREAD": "2"}), ("relay.tspt.os", {"MIMALLOC_TARGET_SEGMENTS_PER_THREAD": "2", "MIMALLOC_DISALLOW_ARENA_ALLOC": "1"}),
                     ("relay.tspt1", {"MIMALLOC_TARGET_SEGMENTS_PER_THREAD": "1", "MIMALLOC_ABANDONED_RECLAIM_ON_FREE": "0"}), ("relay", {})):
        oruns.append({"args": ["--workload", "relay", "--rounds", "3" if q else "6"], "env": dict(env), "tag": tag, "build": "rel"})
        oruns.append({"args": ["--workload", "mt", "--rounds", "3" if q else "6"], "env": dict(env), "tag": tag.replace("relay", "mt"), "build": "rel" if q else "dbg"})
    V, ocov = osfam.run_os("C08", tier, seed, oruns, builds=["rel", "dbg"], own_guards={"AllReleased", "DirtyAllReleased", "QuiesceNoLive", "NoCreepMapped", "Invariant.Inv"},
                           crash_decisive=True, group=2, finish=False, outname="C08os")
    # the page queues of a heap as a model (MiHeap): every reachable heap satisfies MiHeapValid, in particular FullPagesAreFull
    r = vlib.tlc_mc("MiHeap", "MiHeap_mc.cfg", workers=4, timeout=900, coverage=False)
    if r["violation"]:
        raise vlib.InfraError("MiHeap: the model of the heap's page queues violates MiHeapValid (specification error or the code changed):\n" + r["out"][-3000:])
    ocov["heap_queue_model"] = {"module": "MiHeap", "config": "MiHeap_mc.cfg", "distinct_states": r["distinct"]}
    return concfam.run_conc("C08", tier, seed, jobs, GUARDS, step_guards=concfam.STEP_GUARDS, V=V,
                            extra_cov={"forced_abandonment": {k: ocov[k] for k in ("traces_validated_against_impl", "trace_events_validated", "os_events", "runs_sample")}, "heap_queue_model": ocov["heap_queue_model"],
                                       "os_part_dumps": {k: ocov.get(k, 0) for k in ("segment_tables_validated", "heap_dumps_validated", "arena_dumps_validated")}}, mc=("MiPage", ("MiPage_mc.cfg", "MiPage_mc_thorough.cfg")), guided_progs=("page",),
                            assumptions=["QuiescentClean is demanded after a forced mi_heap_collect of the owner's (user) heap once every block was freed by whichever thread",
                                         "NoBlowUp compares the maximum number of page areas of the producer heap in the second half of 2400 rounds with the first half (+4 + an eighth of it), with the default and a maximal MIMALLOC_GENERIC_COLLECT"])
