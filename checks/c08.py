from checks import concfam
GUARDS = {"BlockConservation.dup", "BlockConservation.lost", "ListsStayInPage", "QuiescentClean", "NoBlowUp", "WalkCount", "Invariant.Inv"}
def run(tier, seed):
    jobs = [
        {"prog": "page-huge", "strategy": "random", "runs": (40, 600), "args": ["--snap", "3", "--spurious", "1", "--rate", "3"]},
        {"prog": "page-huge", "strategy": "pct", "runs": (30, 400), "args": ["--snap", "3"]},
        {"prog": "page", "strategy": "random", "runs": (40, 600), "args": ["--snap", "3", "--size", "600000", "1048576", "--spurious", "1"]},
        {"prog": "page", "strategy": "random", "runs": (250, 3000), "args": ["--snap", "3", "--spurious", "2", "--rate", "3"]},
        {"prog": "page", "strategy": "pct", "runs": (150, 2000), "args": ["--snap", "3", "--spurious", "1"]},
        {"prog": "page-collect", "strategy": "random", "runs": (150, 2000), "args": ["--snap", "3", "--spurious", "2", "--rate", "2"]},
        {"prog": "page", "strategy": "random", "runs": (100, 1500), "args": ["--snap", "3", "--size", "60000", "65536", "--spurious", "1"]},
        {"prog": "page-collect", "strategy": "random", "runs": (60, 800), "args": ["--snap", "3", "--park", "6", "--rate", "3"]},
        {"prog": "pc", "strategy": "random", "runs": (2, 12), "args": ["--rate", "5"]},
        {"prog": "pc", "strategy": "random", "runs": (2, 8), "args": ["--size", "60000", "65536"]},
        {"prog": "pc", "strategy": "random", "runs": (1, 6), "args": ["--size", "900000", "1048576"]},
        {"prog": "pc", "strategy": "pct", "runs": (1, 6), "args": [], "env": {"MIMALLOC_GENERIC_COLLECT": "1000000"}},
        {"prog": "pc", "strategy": "random", "runs": (1, 6), "args": ["--rate", "2"], "env": {"MIMALLOC_GENERIC_COLLECT": "1000000"}},
    ]
    return concfam.run_conc("C08", tier, seed, jobs, GUARDS, step_guards=concfam.STEP_GUARDS, mc=("MiPage", ("MiPage_mc.cfg", "MiPage_mc_thorough.cfg")), guided_progs=("page",),
                            assumptions=["QuiescentClean is demanded after a forced mi_heap_collect of the owner's (user) heap once every block was freed by whichever thread",
                                         "NoBlowUp compares the maximum number of page areas of the producer heap in the second half of 2400 rounds with the first half (+2 + an eighth of it), with the default and a maximal MIMALLOC_GENERIC_COLLECT"])
