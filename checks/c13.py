import sys, os
from checks import apifam, concfam
from checks import c01, c03, c04, c05, c12
sys.path.insert(0, os.path.join(os.path.dirname(os.path.dirname(os.path.abspath(__file__))), "tools"))
import covering

OPTS = {
    "purge_delay": [-1, 0, 50], "purge_decommits": [0, 1], "eager_commit": [0, 1], "eager_commit_delay": [0, 1, 4],
    "arena_eager_commit": [0, 1, 2], "disallow_arena_alloc": [0, 1], "arena_reserve": [65536, 1048576],
    "abandoned_reclaim_on_free": [0, 1], "abandoned_page_purge": [0, 1], "target_segments_per_thread": [0, 2],
    "allow_large_os_pages": [0, 1, 2], "purge_extend_delay": [0, 1], "arena_purge_mult": [1, 10],
}
GUARDS = (c01.GUARDS | c03.GUARDS | c04.GUARDS | c05.GUARDS | c12.GUARDS |
          {"DestructiveAvoidsLive", "LiveAccessible", "MmapFresh", "Invariant.Inv", "WellFormedSucceeds"})

def run(tier, seed):
    rows = covering.pairwise(OPTS, seed)
    envs = [{("MIMALLOC_" + k.upper()): str(v) for k, v in r.items()} for r in rows]
    for e, r in zip(envs, rows):
        if r["target_segments_per_thread"] > 0:
            # forced abandonment moves a heap's pages out of the heap (known finding, see known_findings.json): workloads under this
            # option use the backing heap only, and the heap-attribution guards are reported under the tag "tspt"
            e["_args"] = ["--noheaps"]
            e["_tag"] = "tspt"
    n = len(envs)
    # targeted histories under the purge / commit modes: purged memory of freed multi-block objects re-used for ordinary segments
    extra = []
    for dec in ("0", "1"):
        for delay in ("0", "10"):
            extra.append({"MIMALLOC_PURGE_DECOMMITS": dec, "MIMALLOC_PURGE_DELAY": delay, "_args": ["--workload", "reuse", "--rounds", "2"], "_tag": "reuse.dec%s.d%s" % (dec, delay),
                          "_builds": ["rel", "dbg"] if tier == "quick" else None})
    extra.append({"MIMALLOC_PURGE_DECOMMITS": "0", "MIMALLOC_EAGER_COMMIT": "0", "MIMALLOC_ARENA_EAGER_COMMIT": "0", "MIMALLOC_PURGE_DELAY": "0",
                  "_args": ["--workload", "reuse", "--rounds", "2"], "_tag": "reuse.dec0.lazy", "_builds": ["rel", "dbg"] if tier == "quick" else None})
    # arenas of more than one bitmap field with lazy commit: an object across the field boundary whose first part is committed and whose last part is not
    for dec in ("1", "0"):
        extra.append({"MIMALLOC_ARENA_RESERVE": "4GiB", "MIMALLOC_ARENA_EAGER_COMMIT": "0", "MIMALLOC_PURGE_DECOMMITS": dec, "MIMALLOC_PURGE_DELAY": "100000",
                      "_args": ["--workload", "fieldfill2", "--rounds", "1"], "_tag": "fieldfill2.dec%s" % dec, "_builds": ["rel", "dbg"] if tier == "quick" else None})
    # one execution per option row and build (quick: rows cycle over the builds)
    nr = (max(6, (n + 2) // 3), n)
    V, cov = apifam.run_api("C13", tier, seed, profiles=["c01", "c04", "big", "c05", "c12", "c03", "big"], builds=["rel", "dbg", "sec"],
                            own_guards=GUARDS, crash_decisive=True, nruns=nr, ops=(1500, 4000), maxlive=(100, 400), gen=(0, 0),
                            extra_args=["--clock", "40"], envs=envs, shim=True, group=2, extra_runs=extra, finish=False,
                            level_extra={"option_rows": n, "option_rows_sample": rows[:3], "covering": "pairwise (greedy, seeded) over " + ", ".join(sorted(OPTS))})
    # purging while other threads run: a thread that exits purges the free spans of the segments it leaves behind (abandoned_page_purge) while
    # another thread adopts them and allocates there; purges at delay 0 next to allocation in shared arenas -- scheduled executions, the OS
    # shim sees every purge, the model knows every live block (DestructiveAvoidsLive)
    app = {"MIMALLOC_ABANDONED_PAGE_PURGE": "1"}
    jobs = [{"prog": "exit", "strategy": "random", "runs": (120, 1500), "args": ["--rate", "3"], "env": dict(app, MIMALLOC_PURGE_DELAY="2000")},
            {"prog": "exit", "strategy": "pct", "runs": (80, 1000), "args": [], "env": dict(app, MIMALLOC_PURGE_DELAY="2000")},
            {"prog": "exit", "strategy": "random", "runs": (80, 1000), "args": ["--size", "60000", "65536", "--rate", "3"], "env": dict(app, MIMALLOC_PURGE_DELAY="0")},
            {"prog": "exit", "strategy": "random", "runs": (60, 800), "args": ["--size", "150000", "200000", "--ownfree", "1"], "env": dict(app, MIMALLOC_PURGE_DELAY="2000", MIMALLOC_ABANDONED_RECLAIM_ON_FREE="1")},
            {"prog": "exit", "strategy": "random", "runs": (80, 1000), "args": ["--size", "150000", "200000", "--ownfree", "1", "--rate", "3"], "env": dict(app, MIMALLOC_PURGE_DELAY="2000")},
            {"prog": "exit", "strategy": "pct", "runs": (40, 600), "args": ["--size", "150000", "200000", "--ownfree", "1"], "env": {"MIMALLOC_PURGE_DELAY": "2000", "MIMALLOC_DISALLOW_ARENA_ALLOC": "1"}},
            {"prog": "arena", "strategy": "random", "runs": (60, 800), "args": ["--rate", "3"], "env": {"MIMALLOC_PURGE_DELAY": "0"}},
            # a limit on the segments per thread: a thread at its limit visits abandoned segments without adopting them (they must stay abandoned)
            {"prog": "exit", "strategy": "random", "runs": (80, 1000), "args": ["--rate", "3", "--size", "150000", "200000"], "env": {"MIMALLOC_TARGET_SEGMENTS_PER_THREAD": "1"}},
            {"prog": "exit", "strategy": "pct", "runs": (40, 600), "args": ["--size", "600000", "1048576"], "env": {"MIMALLOC_TARGET_SEGMENTS_PER_THREAD": "2"}},
            # (blocks of 9-12 MiB: every second allocation needs a fresh segment, i.e. looks at the abandoned ones first)
            {"prog": "exit", "strategy": "random", "runs": (50, 600), "args": ["--rate", "3", "--size", "9000000", "12000000"], "env": {"MIMALLOC_TARGET_SEGMENTS_PER_THREAD": "1"}, "tag": "tsptbig"},
            {"prog": "exit", "strategy": "random", "runs": (40, 500), "args": ["--size", "9000000", "12000000"], "env": {"MIMALLOC_TARGET_SEGMENTS_PER_THREAD": "3"}, "tag": "tsptbig"}]
    V, cov2 = concfam.run_conc("C13", tier, seed, jobs, {"DestructiveAvoidsLive", "LiveAccessible", "ContentsKept.gen", "ContentsKept.bytes", "NoOverlap", "ZeroOK", "Invariant.Inv"},
                               mc=("MiSegment", ("MiSegment_mc.cfg", "MiSegment_mc.cfg")), guided_progs=(), V=V, finish=False)
    cov["concurrent_purging"] = {k: cov2[k] for k in ("traces_validated_against_impl", "trace_events_validated", "program_names", "strategies") if k in cov2}
    cov["traces_validated_against_impl"] += cov2["traces_validated_against_impl"]
    return V.finish("model_checking", cov, assumptions=["decommitted memory being read by the allocator is observable only in dbg/sec builds (PROT_NONE => crash event)",
                                                         "concurrent part: SC interleavings at mi_atomic-macro granularity; a purge call of the OS layer is one event"])
