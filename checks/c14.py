import os, shutil
import vlib
from checks import concfam, apifam
GUARDS = {"NoOverlap", "BoundHeapInsideArena", "ExclusiveStaysPrivate", "NothingReservedBehind", "RefillComplete", "ContentsKept.gen", "ContentsKept.bytes",
          "ObsOfLiveBlock", "FreeOfLiveBlock", "DestructiveAvoidsLive", "LiveAccessible", "Invariant.Inv", "CheckAllComplete", "FullGivesNull"}
BGUARDS = {"ClaimInsideBitmap", "ClaimAvoidsBlocked", "ClaimsDisjoint", "UnclaimOwn", "UnclaimSawAllSet", "AllFreeAtEnd", "NothingHeldAtEnd", "NothingBehindBitmap", "NoCrash"}
def run(tier, seed):
    q = 0 if tier == "quick" else 1
    rof = {"MIMALLOC_ABANDONED_RECLAIM_ON_FREE": "1"}
    p0 = {"MIMALLOC_PURGE_DELAY": "0"}
    jobs = [
        {"prog": "arena", "strategy": "random", "runs": (120, 1500), "args": ["--rate", "3"]},
        {"prog": "arena", "strategy": "pct", "runs": (80, 1000), "args": []},
        {"prog": "arena", "strategy": "random", "runs": (80, 1000), "args": ["--rate", "2"], "env": rof},
        {"prog": "arena", "strategy": "random", "runs": (80, 1000), "args": ["--rate", "2"], "env": p0},
    ]
    # sequential history in an arena of two bitmap fields: objects of one, four and three blocks, the four-block one across the field boundary; after
    # everything was freed the arena is refilled completely (RefillComplete / NothingReservedBehind)
    V0, cov0 = apifam.run_api("C14", tier, seed, profiles=["c15"], builds=["rel", "dbg"], own_guards=GUARDS, crash_decisive=True, gen=(0, 0), nruns=(1, 2), ops=(300, 1000),
                              maxlive=(60, 100), shim=True, finish=False, extra_runs=[{"_args": ["--scenario", "arena96"], "_tag": "arena96"}])
    V, cov = concfam.run_conc("C14", tier, seed, jobs, GUARDS, mc=("MiBitmap", ("MiBitmap_mc.cfg", "MiBitmap_mc_thorough.cfg")), guided_progs=(), finish=False, V=V0)
    cov["sequential_arena96"] = {k: cov0.get(k) for k in ("traces_validated_against_impl", "trace_events_validated")}
    # second bounded model: a purge-style try_claim/unclaim thread next to two claimers
    mc2 = vlib.tlc_mc("MiBitmap", "MiBitmap_mc_purge.cfg", workers=8, timeout=900, coverage=False)
    if mc2["violation"]:
        V.violation("ModelInvariant:MiBitmap(purge)", os.path.join(vlib.SPEC, "MiBitmap.tla"), mc2["out"][-1500:])
    # level (i): the bitmap functions called directly on a 3-word bitmap from 2-4 virtual threads
    od = vlib.outdir("C14bm")
    traces = []
    jobsb = []
    for b in ("rel", "dbg"):
        exe = vlib.build_harness("drv_bitmap", "drv_bitmap.c", cfg=b, shim=True, hooks=True)
        for k, (strat, rate) in enumerate([("random", "2"), ("random", "4"), ("pct", "3")]):
            out = os.path.join(od, "bitmap_%s_%s_%d.ndjson" % (b, strat, k))
            runs = (400, 6000)[q]
            traces.append(out)
            jobsb.append((lambda exe=exe, out=out, strat=strat, rate=rate, k=k: vlib.sh([exe, "--out", out, "--seed", str(seed * 31 + k), "--runs", str(runs), "--strategy", strat, "--rate", rate], timeout=1200)))
    vlib.parallel(jobsb, nproc=8)
    res = vlib.parallel([(lambda t=t: vlib.tlc_tv(t, module="BitmapTrace", cfg="BitmapTrace.cfg", timeout=1800, xmx="3g")) for t in traces], nproc=8)
    nb, claims = 0, 0
    for t, r in zip(traces, res):
        if r["status"] in ("error", "timeout"):
            raise vlib.InfraError("BitmapTrace validation %s: %s" % (r["status"], r["out"][-2000:]))
        with open(t) as f:
            for l in f:
                nb += l.startswith('{"e":"init"'); claims += ('"e":"claim"' in l)
        seen = set()
        fails = list(r["guardfails"]) or ([("Unexplained", (r["consumed"] or 0) + 1, "")] if r["status"] == "rejected" else [])
        for name, line, detail in fails:
            if name in seen:
                continue
            seen.add(name)
            keep = os.path.join(vlib.keepdir("C14"), os.path.basename(t))
            shutil.copyfile(t, keep)
            V.violation("%s:bitmap" % name, "%s:%d" % (keep, line), "guard %s failed (%s)" % (name, detail))
    cov["bitmap_level"] = {"executions": nb, "claims": claims, "guards": sorted(BGUARDS), "mc_purge_states": mc2["distinct"], "mc_purge_transitions": mc2["generated"]}
    cov["traces_validated_against_impl"] += nb
    cov["samples"] = cov["samples"] + vlib.sample_lines(traces[0], 4)
    return V.finish("model_checking", cov, assumptions=[
        "bitmap model: word width 4, 3 words, counts {1,3,5,6}, 2-3 threads, one blocked tail bit, optional purge-style try_claim thread; the implementation runs use the real width 64 with counts that stay in a word, cross one and cross two word boundaries",
        "SC interleavings at mi_atomic-macro granularity; TLC and harness measurements trusted",
        "multi-block claims that fail in a fragmented arena are not demanded to succeed; RefillComplete is demanded with one-block objects after everything was freed and collected"])
