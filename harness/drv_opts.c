/* drv_opts.c -- driver for C20 (options, environment parsing, diagnostic output).
   The allocator is compiled into this translation unit (vf_mi.c), so the option table, _mi_snprintf, _mi_strlcpy ...
   are directly accessible.  This program only DRIVES and MEASURES; every row it writes is judged by spec/OptsTrace.tla.

   --mode env   : one process = one environment.  Rows: start(env as seen) dflt*(pristine table, snapshot taken before the
                  allocator's load-time initialisation) loaded get*(every option: value, is_enabled, get_size) then the
                  scripted operations (--script) and finally exit.
   --mode json  : mi_stats_get_json for every caller buffer size lo..hi (+ NULL), buffer ends at a PROT_NONE page.
   --mode print : mi_stats_print_out / mi_stats_print / mi_options_print / mi_debug_show_arenas / delayed output buffer:
                  one row per chunk handed to the output callback.
   --mode fmt   : _mi_snprintf with every format string of the allocator sources (generated table c20_fmts.h) x boundary
                  argument sets x buffer sizes 0..N (guard page), the same calls through _mi_fprintf (512-byte message buffer),
                  and _mi_strlcpy/_mi_strlcat.
   Numbers that may exceed 2^31 are logged as little-endian base-1024 limb lists (TLC integers are 32 bit). */
#include "vf_mi.c"
#include "vf_rt.h"
#include <limits.h>
#include <stddef.h>

extern char** environ;

/* ------------------------------------------------------------------ pristine option table (before _mi_process_load) */
static mi_option_desc_t vf_pristine[_mi_option_last];
static int vf_pristine_taken = 0;
static int vf_loaded_before_snapshot = 0;
static void __attribute__((constructor(101))) vf_snapshot(void) {
  /* priority 101 runs before mimalloc's default-priority constructor (gcc) */
  vf_loaded_before_snapshot = !_mi_preloading();
  memcpy(vf_pristine, options, sizeof(options));
  vf_pristine_taken = 1;
}

/* ------------------------------------------------------------------ logging helpers */
static const char* vf_ctx = "";     /* what we are doing (for the crash row) */
static long vf_ctx_a = 0, vf_ctx_b = 0, vf_ctx_c = 0;

static void vf_row_end(void) { vf_log_line_end(); vf_log_flush(); }

static void vf_opts_crash(int sig) {
  char tmp[256];
  int n = snprintf(tmp, sizeof(tmp), "{\"k\":\"crash\",\"sig\":\"signal %d\",\"ctx\":\"%s\",\"a\":%ld,\"b\":%ld,\"c\":%ld}\n", sig, vf_ctx, vf_ctx_a, vf_ctx_b, vf_ctx_c);
  vf_log_enabled = 1;
  vf_loglen = 0;                       /* drop a half-written row */
  vf_log_raw(tmp, (size_t)n);
  vf_log_flush();
  _exit(0);
}
static void vf_opts_log_open(const char* path) {
  vf_log_open(path);
  struct sigaction sa; memset(&sa, 0, sizeof(sa));
  sa.sa_handler = vf_opts_crash;
  sa.sa_flags = SA_ONSTACK;
  sigaction(SIGSEGV, &sa, NULL); sigaction(SIGBUS, &sa, NULL); sigaction(SIGABRT, &sa, NULL);
  sigaction(SIGILL, &sa, NULL); sigaction(SIGFPE, &sa, NULL);
}

/* unsigned 64-bit as base-1024 limbs, little endian, no trailing zero limbs: 0 = [] */
static void vf_log_limbs(uint64_t x) {
  vf_log_raw("[", 1);
  int first = 1;
  while (x != 0) {
    vf_logf("%s%u", first ? "" : ",", (unsigned)(x & 1023));
    first = 0; x >>= 10;
  }
  vf_log_raw("]", 1);
}
static void vf_log_long(const char* key, long v) {
  uint64_t mag = (v < 0 ? (uint64_t)0 - (uint64_t)v : (uint64_t)v);
  vf_logf("\"%s\":{\"neg\":%s,\"mag\":", key, v < 0 ? "true" : "false");
  vf_log_limbs(mag);
  vf_log_raw("}", 1);
}
static void vf_log_size(const char* key, size_t v) {
  vf_logf("\"%s\":", key);
  vf_log_limbs((uint64_t)v);
}
static void vf_log_codes_n(const char* s, size_t n) {
  vf_log_raw("[", 1);
  for (size_t i = 0; i < n; i++) vf_logf("%s%u", i ? "," : "", (unsigned)(unsigned char)s[i]);
  vf_log_raw("]", 1);
}
/* all environment entries whose name starts with "mimalloc_" (any case), in environ order */
static void vf_log_env(void) {
  vf_log_raw("\"env\":[", 7);
  int first = 1;
  if (environ != NULL) for (char** e = environ; *e != NULL; e++) {
    if (strncasecmp(*e, "mimalloc_", 9) != 0) continue;
    const char* eq = strchr(*e, '=');
    if (eq == NULL) continue;
    vf_logf("%s{\"name\":", first ? "" : ",");
    vf_log_codes_n(*e, (size_t)(eq - *e));
    vf_log_raw(",\"val\":", 7);
    vf_log_codes_n(eq + 1, strlen(eq + 1));
    vf_log_raw("}", 1);
    first = 0;
  }
  vf_log_raw("]", 1);
}

/* ------------------------------------------------------------------ env mode */
static void row_get(int i, const char* src) {
  vf_ctx = "get"; vf_ctx_a = i;
  long v = mi_option_get((mi_option_t)i);
  bool en = mi_option_is_enabled((mi_option_t)i);
  size_t sz = mi_option_get_size((mi_option_t)i);
  vf_logf("{\"k\":\"get\",\"i\":%d,\"opt\":\"%s\",\"src\":\"%s\",", i + 1, vf_pristine[i].name, src);
  vf_log_long("val", v);
  vf_logf(",\"en\":%s,", en ? "true" : "false");
  vf_log_size("size", sz);
  vf_logf(",\"init\":%d}", (int)options[i].init);
  vf_row_end();
}
static void row_op_val(const char* op, int i, long arg, int hasarg) {
  /* after a mutating operation: the raw table entry (no mi_option_get: reading must not initialise the option) */
  long v = options[i].value;
  vf_logf("{\"k\":\"op\",\"op\":\"%s\",\"i\":%d,\"opt\":\"%s\",", op, i + 1, vf_pristine[i].name);
  vf_log_long("arg", hasarg ? arg : 0);
  vf_log_raw(",", 1);
  vf_log_long("val", v);
  vf_logf(",\"init\":%d}", (int)options[i].init);
  vf_row_end();
}
static int hexval(int c) { return (c >= '0' && c <= '9') ? c - '0' : (c >= 'a' && c <= 'f') ? c - 'a' + 10 : (c >= 'A' && c <= 'F') ? c - 'A' + 10 : 0; }

static void run_script(const char* path) {
  FILE* f = fopen(path, "r");
  if (!f) { perror("script"); exit(3); }
  static char line[40000];
  while (fgets(line, sizeof(line), f)) {
    char op[32]; int i = 0; long long a = 0, b = 0;
    char name[128]; static char hex[36000];
    if (line[0] == '#' || line[0] == '\n') continue;
    if (sscanf(line, "%31s", op) != 1) continue;
    vf_ctx = "script";
    if (!strcmp(op, "get")) { sscanf(line, "%*s %d", &i); row_get(i, "script"); }
    else if (!strcmp(op, "getall")) { for (i = 0; i < _mi_option_last; i++) row_get(i, "script"); }
    else if (!strcmp(op, "dump")) {          /* raw table, no side effects */
      for (i = 0; i < _mi_option_last; i++) {
        vf_logf("{\"k\":\"tab\",\"i\":%d,\"opt\":\"%s\",", i + 1, vf_pristine[i].name);
        vf_log_long("val", options[i].value);
        vf_logf(",\"init\":%d}", (int)options[i].init); vf_row_end();
      }
    }
    else if (!strcmp(op, "set")) { sscanf(line, "%*s %d %lld", &i, &a); vf_ctx_a = i; mi_option_set((mi_option_t)i, (long)a); row_op_val("set", i, (long)a, 1); }
    else if (!strcmp(op, "setdef")) { sscanf(line, "%*s %d %lld", &i, &a); vf_ctx_a = i; mi_option_set_default((mi_option_t)i, (long)a); row_op_val("setdef", i, (long)a, 1); }
    else if (!strcmp(op, "enable")) { sscanf(line, "%*s %d", &i); mi_option_enable((mi_option_t)i); row_op_val("enable", i, 0, 0); }
    else if (!strcmp(op, "disable")) { sscanf(line, "%*s %d", &i); mi_option_disable((mi_option_t)i); row_op_val("disable", i, 0, 0); }
    else if (!strcmp(op, "seten")) { sscanf(line, "%*s %d %lld", &i, &a); mi_option_set_enabled((mi_option_t)i, a != 0); row_op_val("seten", i, a != 0, 1); }
    else if (!strcmp(op, "setendef")) { sscanf(line, "%*s %d %lld", &i, &a); mi_option_set_enabled_default((mi_option_t)i, a != 0); row_op_val("setendef", i, a != 0, 1); }
    else if (!strcmp(op, "clamp")) {
      sscanf(line, "%*s %d %lld %lld", &i, &a, &b);
      long v = mi_option_get_clamp((mi_option_t)i, (long)a, (long)b);
      vf_logf("{\"k\":\"clamp\",\"i\":%d,\"opt\":\"%s\",", i + 1, vf_pristine[i].name);
      vf_log_long("lo", (long)a); vf_log_raw(",", 1); vf_log_long("hi", (long)b); vf_log_raw(",", 1); vf_log_long("val", v);
      vf_log_raw("}", 1); vf_row_end();
    }
    else if (!strcmp(op, "badidx")) {
      /* the setters / getters with an option index outside the table: nothing may be written (the table and the bytes around it are
         compared before and after), the getter answers 0 */
      sscanf(line, "%*s %d %lld", &i, &a);
#if (MI_DEBUG > 0)
      continue;      /* (debug builds assert that the index is valid: API misuse is reported there by abort, outside the claim) */
#endif
#if defined(__SANITIZE_ADDRESS__)
      static unsigned char before[sizeof(options)], after[sizeof(options)];      /* (the sanitizer itself watches the bytes around the table) */
      unsigned char* lo = (unsigned char*)options;
#else
      static unsigned char before[sizeof(options) + 128], after[sizeof(options) + 128];
      unsigned char* lo = (unsigned char*)options - 64;
#endif
      memcpy(before, lo, sizeof(before));
      long got = mi_option_get((mi_option_t)i);
      mi_option_set((mi_option_t)i, (long)a); mi_option_set_default((mi_option_t)i, (long)a);
      mi_option_enable((mi_option_t)i); mi_option_disable((mi_option_t)i); mi_option_set_enabled((mi_option_t)i, a != 0); mi_option_set_enabled_default((mi_option_t)i, a != 0);
      bool en = mi_option_is_enabled((mi_option_t)i); size_t sz = mi_option_get_size((mi_option_t)i); long cl = mi_option_get_clamp((mi_option_t)i, 3, 9);
      memcpy(after, lo, sizeof(after));
      vf_logf("{\"k\":\"badidx\",\"idx\":%d,\"same\":%s,\"got\":%ld,\"en\":%s,\"sz\":%zu,\"clamp\":%ld}", i, memcmp(before, after, sizeof(before)) == 0 ? "true" : "false",
              got, en ? "true" : "false", sz, cl);
      vf_row_end();
    }
    else if (!strcmp(op, "reset")) {
      /* emulate a fresh process for the option table only: restore the pristine table (every entry UNINIT again) */
      memcpy(options, vf_pristine, sizeof(options));
      vf_logf("{\"k\":\"reset\"}"); vf_row_end();
    }
    else if (!strcmp(op, "setenv")) {
      hex[0] = 0;
      sscanf(line, "%*s %127s %35999s", name, hex);
      size_t hl = strlen(hex); char* val = (char*)malloc(hl / 2 + 1);
      if (hex[0] == '-') hl = 0;
      for (size_t k = 0; k + 1 < hl; k += 2) val[k / 2] = (char)(hexval(hex[k]) * 16 + hexval(hex[k + 1]));
      val[hl / 2] = 0;
      setenv(name, val, 1); free(val);
      vf_logf("{\"k\":\"env\","); vf_log_env(); vf_log_raw("}", 1); vf_row_end();
    }
    else if (!strcmp(op, "unsetenv")) {
      sscanf(line, "%*s %127s", name); unsetenv(name);
      vf_logf("{\"k\":\"env\","); vf_log_env(); vf_log_raw("}", 1); vf_row_end();
    }
    else if (!strcmp(op, "alloc")) {
      vf_ctx = "alloc";
      void* p = mi_malloc(100); void* q = mi_zalloc(70000); void* r = mi_malloc(5 << 20);
      int ok = (p != NULL && q != NULL && r != NULL);
      if (p) memset(p, 1, 100); if (q) memset(q, 1, 70000); if (r) memset(r, 1, 5 << 20);
      mi_free(p); mi_free(q); mi_free(r);
      vf_logf("{\"k\":\"alloc\",\"ok\":%s}", ok ? "true" : "false"); vf_row_end();
    }
    else { fprintf(stderr, "bad script line: %s", line); exit(3); }
  }
  fclose(f);
}

static void chunk_cb(const char* msg, void* arg);
static const char* vf_via;

static int mode_env(const char* script, const char* src) {
  vf_logf("{\"k\":\"start\",\"build\":\"%s\",\"nopts\":%d,\"snap_ok\":%s,", VF_CFG, (int)_mi_option_last,
          (vf_pristine_taken && !vf_loaded_before_snapshot) ? "true" : "false");
  vf_log_env(); vf_log_raw("}", 1); vf_row_end();
  for (int i = 0; i < _mi_option_last; i++) {
    vf_logf("{\"k\":\"dflt\",\"i\":%d,\"opt\":\"%s\",\"legacy\":\"%s\",", i + 1, vf_pristine[i].name, vf_pristine[i].legacy_name ? vf_pristine[i].legacy_name : "");
    vf_log_long("val", vf_pristine[i].value);
    vf_logf(",\"init\":%d,\"kib\":%s}", (int)vf_pristine[i].init, mi_option_has_size_in_kib((mi_option_t)i) ? "true" : "false");
    vf_row_end();
  }
  /* the allocator initialised every option from the environment when the process was loaded (_mi_options_init) */
  vf_logf("{\"k\":\"loaded\"}"); vf_row_end();
  /* messages produced during load (verbose option dump, warnings about invalid values) sit in the delayed output buffer */
  vf_via = "delayed";
  mi_register_output(chunk_cb, NULL);
  vf_via = "registered";
  mi_register_output(NULL, NULL);
  for (int i = 0; i < _mi_option_last; i++) row_get(i, src);
  if (script) run_script(script);
  vf_logf("{\"k\":\"exit\"}"); vf_row_end();
  return 0;
}

/* ------------------------------------------------------------------ guarded buffer: [RW pages][PROT_NONE page] */
#define GB_PAGES 4
static char* gb_base = NULL;        /* start of RW area */
static char* gb_guard = NULL;       /* first byte of the PROT_NONE page */
static void gb_init(void) {
  size_t ps = 4096;
  char* p = (char*)mmap(NULL, (GB_PAGES + 2) * ps, PROT_READ | PROT_WRITE, MAP_PRIVATE | MAP_ANONYMOUS, -1, 0);
  if (p == MAP_FAILED) { perror("mmap"); exit(3); }
  mprotect(p, ps, PROT_NONE);                                   /* guard in front as well */
  mprotect(p + (GB_PAGES + 1) * ps, ps, PROT_NONE);
  gb_base = p + ps; gb_guard = p + (GB_PAGES + 1) * ps;
}
/* a buffer of exactly n bytes that ends at the guard page; everything in the RW area is pre-filled with 0xAA */
static char* gb_buf(size_t n) {
  memset(gb_base, 0xAA, (size_t)(gb_guard - gb_base));
  return gb_guard - n;
}
/* measurements on a buffer after the call: index of the first NUL within [0,n) (n if none); whether the 64 bytes in front are untouched */
static size_t gb_len(const char* b, size_t n) { const char* z = (const char*)memchr(b, 0, n); return z ? (size_t)(z - b) : n; }
static int gb_under(const char* b) {
  for (int k = 1; k <= 64 && b - k >= gb_base; k++) if ((unsigned char)b[-k] != 0xAA) return 1;
  return 0;
}

/* ------------------------------------------------------------------ output callback: one row per chunk */
static long chunk_seq = 0;
#define CHUNK_CAP 65536
static const char* vf_via = "registered";   /* which call produced the chunk, when the callback is the registered default */
static void chunk_cb(const char* msg, void* arg) {
  const char* via = (arg != NULL ? (const char*)arg : vf_via);
  if (msg == NULL) { vf_logf("{\"k\":\"chunk\",\"via\":\"%s\",\"n\":%ld,\"null\":true,\"len\":0,\"terminated\":true}", via ? via : "?", chunk_seq++); vf_row_end(); return; }
  size_t l = strnlen(msg, CHUNK_CAP);
  vf_logf("{\"k\":\"chunk\",\"via\":\"%s\",\"n\":%ld,\"null\":false,\"len\":%zu,\"terminated\":%s}", via ? via : "?", chunk_seq++, l, l < CHUNK_CAP ? "true" : "false");
  vf_row_end();
}

/* make the statistics non-trivial: real allocations, optionally counters overwritten with wide values (printing only) */
static void make_stats(int poke) {
  void* ps[64];
  for (int i = 0; i < 64; i++) ps[i] = mi_malloc((size_t)8 << (i % 18));
  void* big = mi_malloc(40u << 20);
  for (int i = 0; i < 64; i += 2) mi_free(ps[i]);
  mi_free(big);
  mi_collect(false);
  mi_stats_merge();
  for (int i = 1; i < 64; i += 2) mi_free(ps[i]);
  if (poke) {
    int64_t* f = (int64_t*)((char*)&_mi_stats_main + offsetof(mi_stats_t, pages));
    size_t n = (sizeof(mi_stats_t) - offsetof(mi_stats_t, pages)) / sizeof(int64_t);
    for (size_t k = 0; k < n; k++) {
      int64_t v;
      if (poke == 1) v = (k % 3 == 0 ? INT64_MAX : (k % 3 == 1 ? INT64_MIN : -1));          /* widest decimal forms (JSON prints only) */
      else v = ((int64_t)1 << 40) + (int64_t)k * 1000003;                                   /* large but arithmetic-safe */
      f[k] = v;
    }
  }
}

static int mode_json(int lo, int hi, int poke) {
  gb_init();
  make_stats(poke);
  vf_logf("{\"k\":\"cfg\",\"build\":\"%s\",\"mode\":\"json\",\"poke\":%d}", VF_CFG, poke); vf_row_end();
  /* full length with an allocator-owned buffer */
  vf_ctx = "json-null"; vf_ctx_a = -1;
  char* js = mi_stats_get_json(0, NULL);
  size_t full = js ? strnlen(js, 1 << 22) : 0;
  vf_logf("{\"k\":\"json\",\"size\":0,\"null\":true,\"poke\":%d,\"ret_null\":%s,\"ret_is_buf\":false,\"len\":%zu,\"terminated\":%s,\"under\":false,\"full\":%zu}",
          poke, js ? "false" : "true", full, (js && full < (1u << 22)) ? "true" : "false", full);
  vf_row_end();
  if (js) mi_free(js);
  for (int n = lo; n <= hi; n++) {
    vf_ctx = "json"; vf_ctx_a = n;
    char* b = gb_buf((size_t)n);
    char* r = mi_stats_get_json((size_t)n, b);
    size_t l; int term;
    if (r == b && n > 0) { l = gb_len(b, (size_t)n); term = (l < (size_t)n); }
    else if (r != NULL) { l = strnlen(r, 1 << 22); term = (l < (1u << 22)); }
    else { l = 0; term = 0; }
    vf_logf("{\"k\":\"json\",\"size\":%d,\"null\":false,\"poke\":%d,\"ret_null\":%s,\"ret_is_buf\":%s,\"len\":%zu,\"terminated\":%s,\"under\":%s,\"full\":%zu}",
            n, poke, r ? "false" : "true", (r == b) ? "true" : "false", l, term ? "true" : "false", gb_under(b) ? "true" : "false", full);
    vf_row_end();
    if (r != NULL && r != b) mi_free(r);
  }
  vf_logf("{\"k\":\"exit\"}"); vf_row_end();
  return 0;
}

static int mode_print(int poke) {
  vf_logf("{\"k\":\"cfg\",\"build\":\"%s\",\"mode\":\"print\",\"poke\":%d}", VF_CFG, poke); vf_row_end();
  /* 1. flood the delayed output buffer (16 KiB static array) before any output function is registered */
  vf_ctx = "delay";
  static char s400[401]; memset(s400, 'd', 400); s400[400] = 0;
  for (int k = 0; k < 120; k++) { vf_ctx_a = k; _mi_message("%s %d\n", s400, k); }   /* "%s %d\n" is not a source format; plain use of the message path */
  vf_via = "delayed";
  mi_register_output(chunk_cb, NULL);          /* flushes the delayed buffer through the callback */
  vf_via = "registered";
  /* 2. statistics through an explicit output function and through the registered one */
  make_stats(poke ? 2 : 0);
  vf_ctx = "stats_print_out";
  mi_stats_print_out(chunk_cb, (void*)"stats_print_out");
  vf_ctx = "thread_stats_print_out";
  mi_thread_stats_print_out(chunk_cb, (void*)"stats_print_out");
  vf_ctx = "stats_print";
  mi_stats_print(NULL);
  vf_ctx = "options_print";
  mi_options_print();
  vf_ctx = "show_arenas";
  mi_debug_show_arenas();
  mi_register_output(NULL, NULL);
  vf_logf("{\"k\":\"exit\"}"); vf_row_end();
  return 0;
}

/* ------------------------------------------------------------------ formats extracted from the sources */
#define VF_NARGSETS 6
static char vf_s600[601];
static char vf_s8k[8193];
static const char* vf_arg_s[VF_NARGSETS];
static const int                vf_arg_i[VF_NARGSETS]   = { 0, -1, INT_MAX, INT_MIN, 12345, -7 };
static const unsigned           vf_arg_u[VF_NARGSETS]   = { 0, 1, UINT_MAX, UINT_MAX - 1, 0xdeadbeefu, 9 };
static const long               vf_arg_l[VF_NARGSETS]   = { 0, -1, LONG_MAX, LONG_MIN, 1234567890123L, -7 };
static const unsigned long      vf_arg_ul[VF_NARGSETS]  = { 0, 1, ULONG_MAX, ULONG_MAX - 1, 0xdeadbeefcafeUL, 9 };
static const long long          vf_arg_ll[VF_NARGSETS]  = { 0, -1, LLONG_MAX, LLONG_MIN, 1234567890123LL, -7 };
static const unsigned long long vf_arg_ull[VF_NARGSETS] = { 0, 1, ULLONG_MAX, ULLONG_MAX - 1, 0xdeadbeefcafeULL, 9 };
static const size_t             vf_arg_z[VF_NARGSETS]   = { 0, 1, SIZE_MAX, SIZE_MAX - 1, (size_t)1 << 40, 9 };
static const intptr_t           vf_arg_sz[VF_NARGSETS]  = { 0, -1, INTPTR_MAX, INTPTR_MIN, 1234567890123L, -7 };
static const uintptr_t          vf_arg_p[VF_NARGSETS]   = { 0, 1, UINTPTR_MAX, 0x7fff12345678UL, 0xdeadbeefUL, 0x1000 };
#define VF_S(a)   (vf_arg_s[a])
#define VF_I(a)   (vf_arg_i[a])
#define VF_U(a)   (vf_arg_u[a])
#define VF_L(a)   (vf_arg_l[a])
#define VF_UL(a)  (vf_arg_ul[a])
#define VF_LL(a)  (vf_arg_ll[a])
#define VF_ULL(a) (vf_arg_ull[a])
#define VF_Z(a)   (vf_arg_z[a])
#define VF_SZ(a)  (vf_arg_sz[a])
#define VF_T(a)   (vf_arg_p[a])
#define VF_P(a)   ((void*)vf_arg_p[a])

typedef int  (vf_snp_fun)(char* buf, size_t n, int a);
typedef void (vf_fpr_fun)(mi_output_fun* out, void* arg, int a);
typedef struct { int id; const char* where; int nargs; int has_s; vf_snp_fun* snp; vf_fpr_fun* fpr; } vf_fmt_t;
#include "c20_fmts.h"      /* generated at build time from /repo/src: static functions + vf_fmts[] + VF_NFMTS */

static void log_int_list(const char* key, const long* v, int n) {
  vf_logf("\"%s\":[", key);
  for (int i = 0; i < n; i++) vf_logf("%s%ld", i ? "," : "", v[i]);
  vf_log_raw("]", 1);
}

/* callback of the line-buffer test: lengths of the strings it is handed */
static long bufout_max, bufout_n, bufout_total, bufout_unterminated;
static void bufout_cb(const char* msg, void* arg) {
  (void)arg;
  size_t l = strnlen(msg, CHUNK_CAP);
  if (l >= CHUNK_CAP) bufout_unterminated++;
  if ((long)l > bufout_max) bufout_max = (long)l;
  bufout_n++; bufout_total += (long)l;
}

#define MAXSZ 1100
static int mode_fmt(int maxsize, int only) {
  gb_init();
  if (maxsize >= MAXSZ) maxsize = MAXSZ - 1;
  memset(vf_s600, 'L', 600); vf_s600[600] = 0;
  for (int k = 0; k < 8192; k++) vf_s8k[k] = (char)("%s%n%%d\x01\x7f\xfe xyz"[k % 15]); vf_s8k[8192] = 0;
  vf_arg_s[0] = ""; vf_arg_s[1] = "x"; vf_arg_s[2] = vf_s600; vf_arg_s[3] = NULL; vf_arg_s[4] = "%s%n%%d\x01\x7f\xfe mid"; vf_arg_s[5] = vf_s8k;
  vf_logf("{\"k\":\"cfg\",\"build\":\"%s\",\"mode\":\"fmt\",\"nfmts\":%d,\"maxsize\":%d}", VF_CFG, VF_NFMTS, maxsize); vf_row_end();
  static long sizes[MAXSZ], rets[MAXSZ], lens[MAXSZ], terms[MAXSZ], unders[MAXSZ];
  for (int fi = 0; fi < VF_NFMTS; fi++) {
    if (only >= 0 && fi != only) continue;
    const vf_fmt_t* F = &vf_fmts[fi];
    int nsets = (F->nargs == 0 ? 1 : VF_NARGSETS);
    for (int a = 0; a < nsets; a++) {
      int cnt = 0;
      for (int n = 0; n <= maxsize; n++) {
        vf_ctx = "fmt"; vf_ctx_a = F->id; vf_ctx_b = a; vf_ctx_c = n;
        char* b = gb_buf((size_t)n);
        int r = F->snp(b, (size_t)n, a);
        size_t l = gb_len(b, (size_t)n);
        sizes[cnt] = n; rets[cnt] = r; lens[cnt] = (long)l; terms[cnt] = (l < (size_t)n); unders[cnt] = gb_under(b); cnt++;
      }
      vf_logf("{\"k\":\"fmt\",\"fmt_id\":%d,\"where\":\"%s\",\"args\":%d,", F->id, F->where, a);
      log_int_list("size", sizes, cnt); vf_log_raw(",", 1);
      log_int_list("ret", rets, cnt); vf_log_raw(",", 1);
      log_int_list("len", lens, cnt); vf_log_raw(",", 1);
      log_int_list("terminated", terms, cnt); vf_log_raw(",", 1);
      log_int_list("under", unders, cnt);
      vf_log_raw("}", 1); vf_row_end();
      /* the same format through the message path (512-byte buffer in mi_vfprintf) */
      vf_ctx = "fprintf"; vf_ctx_c = -1;
      F->fpr(chunk_cb, (void*)"fprintf", a);
    }
  }
  /* bounded string helpers */
  static const int srclens[] = { 0, 1, 8, 63, 64, 65, 200, 8192 };
  for (int si = 0; si < 8; si++) {
    int sl = srclens[si];
    const char* src = vf_s8k + (8192 - sl);
    for (int pre = -1; pre <= 2; pre++) {      /* -1: strlcpy; 0..2: strlcat with an empty / half full / unterminated destination */
      int cnt = 0;
      for (int n = 0; n <= 96; n++) {
        vf_ctx = (pre < 0 ? "strlcpy" : "strlcat"); vf_ctx_a = sl; vf_ctx_b = pre; vf_ctx_c = n;
        char* b = gb_buf((size_t)n);
        if (pre < 0) _mi_strlcpy(b, src, (size_t)n);
        else {
          size_t plen = (pre == 0 ? 0 : pre == 1 ? (size_t)n / 2 : (size_t)n);     /* pre == 2: no NUL inside the destination */
          memset(b, 'p', plen); if (plen < (size_t)n) b[plen] = 0;
          _mi_strlcat(b, src, (size_t)n);
        }
        size_t l = gb_len(b, (size_t)n);
        sizes[cnt] = n; rets[cnt] = (long)l; lens[cnt] = (long)l; terms[cnt] = (l < (size_t)n); unders[cnt] = gb_under(b); cnt++;
      }
      vf_logf("{\"k\":\"fmt\",\"fmt_id\":%d,\"where\":\"%s\",\"args\":%d,", 10000 + (pre + 1) * 10 + si, pre < 0 ? "_mi_strlcpy" : "_mi_strlcat", sl);
      log_int_list("size", sizes, cnt); vf_log_raw(",", 1);
      log_int_list("ret", rets, cnt); vf_log_raw(",", 1);
      log_int_list("len", lens, cnt); vf_log_raw(",", 1);
      log_int_list("terminated", terms, cnt); vf_log_raw(",", 1);
      log_int_list("under", unders, cnt);
      vf_log_raw("}", 1); vf_row_end();
    }
  }
  /* the line buffer of the statistics printer (mi_buffered_out): capacity `count`, storage count+1 bytes ending at the guard page */
  static const int msglens[] = { 0, 1, 10, 254, 255, 256, 257, 600, 3000 };
  for (int count = 1; count <= 300; count += (count < 40 || (count > 250 && count < 262) ? 1 : 13)) {
    for (int mi = 0; mi < 9; mi++) {
      for (int nl = 0; nl < 2; nl++) {
        int ml = msglens[mi];
        vf_ctx = "buffered_out"; vf_ctx_a = count; vf_ctx_b = ml; vf_ctx_c = nl;
        static char msg[3001];
        memset(msg, 'b', (size_t)ml); msg[ml] = 0;
        if (nl) for (int k = 17; k < ml; k += 97) msg[k] = '\n';
        bufout_max = 0; bufout_n = 0; bufout_total = 0; bufout_unterminated = 0;
        buffered_t bf = { bufout_cb, NULL, gb_buf((size_t)count + 1), 0, (size_t)count };
        mi_buffered_out(msg, &bf);
        mi_buffered_flush(&bf);
        vf_logf("{\"k\":\"bufout\",\"count\":%d,\"msglen\":%d,\"newlines\":%s,\"chunks\":%ld,\"maxlen\":%ld,\"total\":%ld,\"unterminated\":%ld}",
                count, ml, nl ? "true" : "false", bufout_n, bufout_max, bufout_total, bufout_unterminated);
        vf_row_end();
      }
    }
  }
  vf_logf("{\"k\":\"exit\"}"); vf_row_end();
  return 0;
}

static void usage(void) {
  fprintf(stderr, "usage: drv_opts --out FILE --mode env|json|print|fmt [--script F] [--src base|env] [--lo N] [--hi N] [--poke 0|1] [--maxsize N] [--only FMT]\n");
  exit(2);
}

int main(int argc, char** argv) {
  const char* out = NULL; const char* mode = "env"; const char* script = NULL; const char* src = "env";
  int lo = 0, hi = 4096, poke = 0, maxsize = 160, only = -1;
  for (int i = 1; i < argc; i++) {
    if (!strcmp(argv[i], "--out") && i + 1 < argc) out = argv[++i];
    else if (!strcmp(argv[i], "--mode") && i + 1 < argc) mode = argv[++i];
    else if (!strcmp(argv[i], "--script") && i + 1 < argc) script = argv[++i];
    else if (!strcmp(argv[i], "--src") && i + 1 < argc) src = argv[++i];
    else if (!strcmp(argv[i], "--lo") && i + 1 < argc) lo = atoi(argv[++i]);
    else if (!strcmp(argv[i], "--hi") && i + 1 < argc) hi = atoi(argv[++i]);
    else if (!strcmp(argv[i], "--poke") && i + 1 < argc) poke = atoi(argv[++i]);
    else if (!strcmp(argv[i], "--maxsize") && i + 1 < argc) maxsize = atoi(argv[++i]);
    else if (!strcmp(argv[i], "--only") && i + 1 < argc) only = atoi(argv[++i]);
    else usage();
  }
  if (!out) usage();
  if (hi > GB_PAGES * 4096) hi = GB_PAGES * 4096;
  vf_opts_log_open(out);
  int rc;
  if (!strcmp(mode, "env")) rc = mode_env(script, src);
  else if (!strcmp(mode, "json")) rc = mode_json(lo, hi, poke);
  else if (!strcmp(mode, "print")) rc = mode_print(poke);
  else if (!strcmp(mode, "fmt")) rc = mode_fmt(maxsize, only);
  else { usage(); rc = 2; }
  vf_log_close();
  return rc;
}
