/* drv_sec.c -- C17: hardened builds (MI_SECURE=4, and debug builds) under misuse.  After a random history the program commits ONE
   kind of misuse at a time -- a second free of a thread-local block whose page still holds another live block; a foreign byte
   written just past the requested size; a forged free-list link -- with mi_register_error installed, and records the error
   codes the allocator reports.  Ordinary allocations continue afterwards (validated by the usual ApiTrace guards).
   It drives and measures only; MiSecure.tla decides. */
#include "drv_core.h"

static int errs[64]; static int nerrs = 0;
static int list_truncated = 0;   /* a forged link was detected: the allocator cut the free list there, the blocks behind it are lost
                                    (still counted as used by the page): heap walks are no longer compared after that */
static void on_error(int err, void* arg) { (void)arg; if (nerrs < 64) errs[nerrs++] = err; }
static void log_errs(void) { vf_logf("\"errs\":["); for (int i = 0; i < nerrs; i++) vf_logf("%s%d", i ? "," : "", errs[i]); vf_logf("]"); }

static const size_t sec_sizes[] = {16, 24, 48, 100, 128, 200, 500, 1000, 2000, 4000, 8000};

/* two blocks of one class in the same page (measured), or -1 */
static int two_in_one_page(size_t n, int* s2) {
  for (int tries = 0; tries < 8; tries++) {
    int a = op_alloc_ex(A_malloc, n, 0, 0, 0, 0); int b = op_alloc_ex(A_malloc, n, 0, 0, 0, 0);
    if (a < 0 || b < 0) return -1;
    if (_mi_ptr_page(slots[a].p) == _mi_ptr_page(slots[b].p)) { *s2 = b; return a; }
  }
  return -1;
}
/* a third block of the same class in the same page as `p`, or -1 */
static int third_in_page(size_t n, void* p) {
  for (int tries = 0; tries < 6; tries++) { int c = op_alloc_ex(A_malloc, n, 0, 0, 0, 0); if (c < 0) return -1; if (_mi_ptr_page(slots[c].p) == _mi_ptr_page(p)) return c; }
  return -1;
}
static void misuse_double_free(void) {
  size_t n = sec_sizes[vf_randn(sizeof(sec_sizes) / sizeof(size_t))];
  int other = -1; int s = two_in_one_page(n, &other); if (s < 0) return;
  void* p = slots[s].p; int id = slots[s].id;
  /* position of the block in the page's lists at the second free: head of local_free with an empty / non-empty rest, behind a later
     free, or moved to the free list by a collect (no allocation of this class in between: the block must still be free) */
  int mode = (int)vf_randn(5);
  int third = (mode == 1 || mode == 2 || mode == 4) ? third_in_page(n, p) : -1;
  if (mode == 1 && third >= 0) op_free_slot(third, FR_free);     /* local_free is not empty when the block is freed */
  op_free_slot(s, FR_free);                                       /* the legitimate free */
  if (mode == 2 && third >= 0) op_free_slot(third, FR_free);     /* the block is no longer the head */
  if (mode == 3 || mode == 4) { op_collect(); if (mode == 4 && third >= 0) op_free_slot(third, FR_free); }
  int samepage = (slots[other].p != NULL && _mi_ptr_page(p) == _mi_ptr_page(slots[other].p));
  nerrs = 0;
  vf_in_call = 1; mi_free(p); vf_in_call = 0;          /* the second free */
  vf_logf("{\"e\":\"misuse\",\"kind\":\"double_free\",\"id\":%d,\"samepage_live\":%s,\"cls\":\"m%d\",\"k\":0,", id, samepage ? "true" : "false", mode); log_errs(); vf_logf("}"); vf_log_line_end();
  nerrs = 0;
}
/* the block was first freed by ANOTHER thread and sits on its page's thread-free list (it was not the page's first remote free: that one
   goes through the heap's delayed list); the page is otherwise full; then the owner frees it again */
static void misuse_double_free_remote(void) {
  size_t n = 7000 + (size_t)vf_randn(1000);                      /* seven or eight blocks per 64 KiB page */
  int got[32]; int ng = 0;
  for (int i = 0; i < 32 && ng < 32; i++) { int a = op_alloc_ex(A_malloc, n, 0, 0, 0, 0); if (a >= 0) got[ng++] = a; }
  int pick[4]; int np = 0; mi_page_t* full = NULL;
  for (int i = 0; i < ng && full == NULL; i++) { mi_page_t* pg = _mi_ptr_page(slots[got[i]].p); if (pg->used == pg->capacity && pg->capacity == pg->reserved && pg->capacity >= 3) full = pg; }
  if (full != NULL) for (int i = 0; i < ng && np < 4; i++) if (_mi_ptr_page(slots[got[i]].p) == full) pick[np++] = got[i];
  if (full == NULL || np < 3 || mi_page_thread_free(full) != NULL) { for (int i = 0; i < ng; i++) op_free_slot(got[i], FR_free); return; }
  void* p = slots[pick[1]].p; int id = slots[pick[1]].id;
  vf_free_in_thread = 1; op_free_slot(pick[0], FR_free);          /* the page's first remote free */
  vf_free_in_thread = 1; op_free_slot(pick[1], FR_free);          /* the block in question: onto the page's thread-free list */
  int onlist = 0; for (mi_block_t* b = mi_page_thread_free(full); b != NULL && onlist < 8; b = mi_block_next(full, b)) if ((void*)b == p) { onlist = 1; break; } else onlist += 0;
  int samepage = (slots[pick[2]].p != NULL && _mi_ptr_page(slots[pick[2]].p) == full);
  if (onlist) {
    nerrs = 0;
    vf_in_call = 1; mi_free(p); vf_in_call = 0;          /* the second free, by the owner */
    vf_logf("{\"e\":\"misuse\",\"kind\":\"double_free\",\"id\":%d,\"samepage_live\":%s,\"cls\":\"m5.remote\",\"k\":0,", id, samepage ? "true" : "false"); log_errs(); vf_logf("}"); vf_log_line_end();
    nerrs = 0;
  }
  for (int i = 0; i < ng; i++) if (slots[got[i]].p) op_free_slot(got[i], FR_free);
}
static void misuse_overflow(void) {
  /* sizes: anything up to 3000, with the sizes below one word and around the word multiples over-represented; the block may have been
     shrunk in place before (its padding was adjusted), and it may be freed by another thread */
  size_t n;
  switch (vf_randn(8)) { case 0: case 1: n = 1 + (size_t)vf_randn(8); break; case 2: case 3: n = 8 * (1 + (size_t)vf_randn(16)) + (size_t)vf_randn(3) - 1; break;
                         case 4: n = 3001 + (size_t)vf_randn(62000); break;                         /* medium blocks */
                         case 5: n = 65537 + (size_t)vf_randn(vf_randn(3) ? 900000 : 12000000); break;   /* large blocks (a page of their own, not huge) */
                         default: n = 1 + (size_t)vf_randn(3000); }
  int s = op_alloc_ex(vf_randn(2) ? A_malloc : A_zalloc, n, 0, 0, 0, 0); if (s < 0) return;
  int shrunk = 0;
  if (n > 16 && vf_randn(4) == 0) {      /* shrink in place (less than half of the block is given up): the padding moves with the size */
    size_t n2 = n - 1 - (size_t)vf_randn(n / 4);
    void* before = slots[s].p;
    op_realloc_ex(R_realloc, s, n2, -1, 0);
    if (slots[s].p == NULL) return;
    if (slots[s].p == before) shrunk = 1;
    /* a block that stays in place keeps its size as far as the allocator is concerned (mi_usable_size is unchanged, the program may
       use all of it): the overflow is placed behind that */
    n = (shrunk ? mi_usable_size(slots[s].p) : slots[s].req);
  }
  uint8_t* p = (uint8_t*)slots[s].p; int id = slots[s].id;
  mi_page_t* page = _mi_ptr_page(p);
  size_t ubs = mi_page_usable_block_size(page);            /* the padding structure starts at block + ubs */
  size_t limit = ubs + 4; if (limit > n + 16) limit = n + 16;   /* fill bytes and the canary, at most 16 bytes past the requested size */
  if (limit <= n) { op_free_slot(s, FR_free); return; }
  size_t k = (size_t)vf_randn(limit - n);
  if (vf_randn(3) == 0) k = 0;                              /* the byte right behind the requested size */
  uint8_t oldb = p[n + k];
  uint8_t v; do { v = (uint8_t)vf_rand(); } while (v == oldb || v == 0xDE);
  p[n + k] = v;
  nerrs = 0;
  int remote = (vf_randn(3) == 0);
#if (MI_DEBUG > 0)
  if (n + k >= ubs) remote = 0;     /* debug builds assert in _mi_padding_shrink after they reported a broken canary on a cross-thread free: outside the claim */
#endif
  if (remote) vf_free_in_thread = 1;
  op_free_slot(s, FR_free);
  vf_logf("{\"e\":\"misuse\",\"kind\":\"overflow\",\"id\":%d,\"samepage_live\":false,\"cls\":\"%s%s%s\",\"k\":%zu,", id, (n + k < ubs ? "fill" : "canary"), remote ? ".remote" : "", shrunk ? ".shrunk" : "", k); log_errs(); vf_logf("}"); vf_log_line_end();
  nerrs = 0;
}
static void misuse_forged_link(void) {
  size_t n = sec_sizes[3 + vf_randn(8)];
  int other = -1; int s = two_in_one_page(n, &other); if (s < 0) return;
  void* p = slots[s].p; int id = slots[s].id;
  mi_page_t* page = _mi_ptr_page(p);
  op_free_slot(s, FR_free);
  /* overwrite the link word of the freed block */
  uintptr_t forged;
  int fk = (int)vf_randn(6);
  switch (fk) { case 0: forged = 0; break; case 1: forged = (uintptr_t)slots[other].p; break; case 2: forged = (uintptr_t)&errs[0]; break; default: forged = (uintptr_t)vf_rand(); }
  ((mi_block_t*)p)->next = (mi_encoded_t)forged;
  if (fk >= 4) {
    /* a value that DECODES to a live block in another page of the same segment (a block of another size class), or to the middle of
       a live block of that kind: the worst an overwritten link can be while still pointing outside the block's own area */
    void* target = NULL;
    for (int t = 0; t < MAXSLOTS && target == NULL; t++)
      if (slots[t].p && _mi_ptr_segment(slots[t].p) == _mi_ptr_segment(p) && _mi_ptr_page(slots[t].p) != page && slots[t].us >= 32) target = (uint8_t*)slots[t].p + (fk == 5 ? 16 : 0);
    if (target != NULL) mi_block_set_nextx(page, (mi_block_t*)p, (mi_block_t*)target, page->keys);
  }
  mi_block_t* dec = mi_block_nextx(page, (mi_block_t*)p, page->keys);
  const char* cls = (dec == NULL ? "null" : (mi_is_in_same_page(p, dec) ? "same" : "other"));
  nerrs = 0;
  int got_back = 0, allocs = 0;
  if (strcmp(cls, "same") != 0) {     /* (a forged link that decodes into the same page is outside the claim: do not let the allocator follow it) */
    for (int i = 0; i < 300 && !got_back; i++) { int a = op_alloc_ex(A_malloc, n, 0, 0, 0, 0); allocs++; if (a >= 0 && slots[a].p == p) got_back = 1; }
    for (int i = 0; i < 3; i++) { op_alloc_ex(A_malloc, n, 0, 0, 0, 0); allocs++; }
  } else { ((mi_block_t*)p)->next = 0; mi_block_set_nextx(page, (mi_block_t*)p, NULL, page->keys); }   /* repair */
  list_truncated = 1;
  vf_logf("{\"e\":\"misuse\",\"kind\":\"forged\",\"id\":%d,\"samepage_live\":true,\"cls\":\"%s\",\"k\":%d,\"reached\":%s,", id, cls, allocs, got_back ? "true" : "false"); log_errs(); vf_logf("}"); vf_log_line_end();
  nerrs = 0;
}

int main(int argc, char** argv) {
  const char* out = NULL; uint64_t seed = 1; long ops = 1500; int forged_ok = 1;
  for (int i = 1; i < argc; i++) {
    if (!strcmp(argv[i], "--out") && i + 1 < argc) out = argv[++i];
    else if (!strcmp(argv[i], "--seed") && i + 1 < argc) seed = strtoull(argv[++i], NULL, 10);
    else if (!strcmp(argv[i], "--ops") && i + 1 < argc) ops = atol(argv[++i]);
    else if (!strcmp(argv[i], "--maxlive") && i + 1 < argc) maxlive = atoi(argv[++i]);
    else if (!strcmp(argv[i], "--profile") && i + 1 < argc) { i++; }
    else return 2;
  }
  if (!out) return 2;
#if (MI_DEBUG > 0)
  forged_ok = 0;      /* debug builds may assert after a corrupted list was detected: outside the claim */
  word_offsets = 1;
#endif
  vf_rng_state = seed * 0x9E3779B97F4A7C15ull + 99;
  vf_log_open(out);
  vf_watchdog = 30;
#if MI_PADDING
  padding = 1;
#endif
  mi_register_error(on_error, NULL);
  hps[0].hp = mi_heap_get_backing(); hps[0].id = 1; hps[0].alive = 1;
  vf_logf("{\"e\":\"cfg\",\"build\":\"%s\",\"padding\":%s,\"seed\":%llu,\"profile\":\"c17\",\"shim\":false,\"purge_delay\":%ld,\"segmap_part\":0,\"env\":\"\",\"args\":\"--seed %llu --ops %ld\"}",
          VF_CFG, padding ? "true" : "false", (unsigned long long)seed, mi_option_get(mi_option_purge_delay), (unsigned long long)seed, ops);
  vf_log_line_end();
  max_size = 2000000;
  for (nops = 0; nops < ops; nops++) {
    int r = (int)vf_randn(100);
    if (nops % 400 == 399) op_checkall();
    if (nslots_used >= maxlive) { op_free(); continue; }
    if (r < 42) op_alloc();
    else if (r < 70) op_free();
    else if (r < 78) op_realloc();
    else if (r < 82) op_write();
    else if (r < 84) { op_collect(); if (!list_truncated) op_visit(0, 0); }
    else if (r < 89) misuse_double_free();
    else if (r < 90) misuse_double_free_remote();
    else if (r < 96) misuse_overflow();
    else if (forged_ok && nops > ops / 2) misuse_forged_link();
    /* no error must be left over from legal operations */
    if (nerrs > 0) { vf_logf("{\"e\":\"misuse\",\"kind\":\"none\",\"id\":0,\"samepage_live\":false,\"cls\":\"\",\"k\":0,"); log_errs(); vf_logf("}"); vf_log_line_end(); nerrs = 0; }
  }
  op_checkall();
  if (!list_truncated) op_visit(0, 0);
  for (int s = 0; s < MAXSLOTS; s++) if (slots[s].p) op_free_slot(s, FR_free);
  if (!list_truncated) op_visit(0, 0);
  vf_logf("{\"e\":\"end\"}"); vf_log_line_end();
  vf_log_close();
  return 0;
}
