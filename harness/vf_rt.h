/* vf_rt.h -- harness runtime: trace logger, OS shim (mmap/munmap/mprotect/madvise/clock), fault plans,
   virtual clock, pattern fill/decode.  Included by each driver AFTER vf_mi.c (the allocator as one TU).
   It only drives and measures: no pass/fail decisions are made here; the TLA+ trace specs decide. */
#ifndef VF_RT_H
#define VF_RT_H
#include <stdarg.h>
#include <stdio.h>
#include <stdlib.h>
#include <string.h>
#include <stdint.h>
#include <errno.h>
#include <signal.h>
#include <unistd.h>
#include <fcntl.h>
#include <time.h>
#include <sys/mman.h>
#include <sys/syscall.h>
#include <pthread.h>

/* ------------------------------------------------------------------ logger */
#define VF_LOGBUF (4u << 20)
static int vf_log_fd = -1;
static char vf_logbuf[VF_LOGBUF];
static size_t vf_loglen = 0;
static size_t vf_linestart = 0;   /* start of the line being composed: only complete lines are ever written out */
static long vf_log_lines = 0;
static int vf_log_enabled = 1;
static __thread int vf_in_call = 0;   /* >0 while inside an allocator API call (crash attribution; the scheduler only switches inside API calls) */

static void vf_log_flush_upto(size_t upto) {
  size_t off = 0;
  while (off < upto) {
    ssize_t n = write(vf_log_fd, vf_logbuf + off, upto - off);
    if (n <= 0) break;
    off += (size_t)n;
  }
  memmove(vf_logbuf, vf_logbuf + upto, vf_loglen - upto);
  vf_loglen -= upto; vf_linestart -= (vf_linestart >= upto ? upto : vf_linestart);
}
static void vf_log_flush(void) { vf_log_flush_upto(vf_linestart); }      /* complete lines only */
static void vf_log_raw(const char* s, size_t n) {
  if (!vf_log_enabled) return;
  if (vf_log_fd < 0) {   /* before the trace file is open (allocator start-up): keep in the buffer */
    if (vf_loglen + n <= VF_LOGBUF) { memcpy(vf_logbuf + vf_loglen, s, n); vf_loglen += n; }
    return;
  }
  if (vf_loglen + n > VF_LOGBUF) vf_log_flush();
  if (vf_loglen + n > VF_LOGBUF) { vf_log_flush_upto(vf_loglen); }     /* a single line larger than the buffer: give up line atomicity */
  if (n > VF_LOGBUF) { (void)!write(vf_log_fd, s, n); return; }
  memcpy(vf_logbuf + vf_loglen, s, n);
  vf_loglen += n;
}
/* small private formatter front-end: we use vsnprintf from libc (libc malloc is NOT overridden in harness builds) */
static void vf_logf(const char* fmt, ...) {
  char tmp[8192];
  va_list ap; va_start(ap, fmt);
  int n = vsnprintf(tmp, sizeof(tmp), fmt, ap);
  va_end(ap);
  if (n < 0) return;
  if ((size_t)n >= sizeof(tmp)) n = sizeof(tmp) - 1;
  vf_log_raw(tmp, (size_t)n);
}
static void vf_log_line_end(void) { vf_log_raw("\n", 1); vf_log_lines++; vf_linestart = vf_loglen; }

static void vf_crash_handler(int sig) {
  /* a fault inside (or outside) the allocator under a legal program: log and leave */
  char tmp[128];
  int n = snprintf(tmp, sizeof(tmp), "{\"e\":\"crash\",\"sig\":%d,\"incall\":%d}\n", sig, vf_in_call);
  vf_log_enabled = 1;
  vf_loglen = vf_linestart;            /* drop a line that was being composed when the fault happened */
  vf_log_raw(tmp, (size_t)n); vf_linestart = vf_loglen;
  vf_log_flush();
  _exit(0);
}
static unsigned vf_watchdog = 0;      /* seconds one API call may take before the run is ended with a crash event (signal 14): set by the sequential drivers */
static void vf_log_open(const char* path) {
  vf_log_fd = open(path, O_WRONLY | O_CREAT | O_TRUNC, 0644);
  if (vf_log_fd < 0) { perror("open trace"); exit(3); }
  /* make the whole log buffer resident now, so process residency measurements are not disturbed by the logger later */
  for (size_t i = vf_loglen; i < VF_LOGBUF; i += 4096) ((volatile char*)vf_logbuf)[i] = 0;
  ((volatile char*)vf_logbuf)[VF_LOGBUF - 1] = 0;
  struct sigaction sa; memset(&sa, 0, sizeof(sa));
  sa.sa_handler = vf_crash_handler;
  static char altstack[1 << 16];
  stack_t ss; ss.ss_sp = altstack; ss.ss_size = sizeof(altstack); ss.ss_flags = 0;
  sigaltstack(&ss, NULL);
  sa.sa_flags = SA_ONSTACK;
  sigaction(SIGSEGV, &sa, NULL); sigaction(SIGBUS, &sa, NULL); sigaction(SIGABRT, &sa, NULL);
  sigaction(SIGILL, &sa, NULL); sigaction(SIGFPE, &sa, NULL); sigaction(SIGALRM, &sa, NULL);
}
static void vf_log_close(void) { vf_linestart = vf_loglen; vf_log_flush(); if (vf_log_fd >= 0) close(vf_log_fd); vf_log_fd = -1; }

/* address / length encoding for TLC's 32-bit integers: [hi, lo] = [x >> 20, x & 0xFFFFF] */
#define VF_HI(x) ((long)(((uintptr_t)(x)) >> 20))
#define VF_LO(x) ((long)(((uintptr_t)(x)) & 0xFFFFF))

/* ------------------------------------------------------------------ rng (splitmix64) */
static uint64_t vf_rng_state = 0x9E3779B97F4A7C15ull;
static inline uint64_t vf_rand(void) {
  uint64_t z = (vf_rng_state += 0x9E3779B97F4A7C15ull);
  z = (z ^ (z >> 30)) * 0xBF58476D1CE4E5B9ull;
  z = (z ^ (z >> 27)) * 0x94D049BB133111EBull;
  return z ^ (z >> 31);
}
static inline uint64_t vf_randn(uint64_t n) { return n == 0 ? 0 : vf_rand() % n; }

/* ------------------------------------------------------------------ content pattern
   byte i of block (id, gen) is a hash of (id, gen, i); never 0 for the first byte class so zero runs are distinguishable */
static inline uint8_t vf_pat(uint32_t id, uint32_t gen, size_t i) {
  uint64_t x = ((uint64_t)id << 32) ^ ((uint64_t)gen << 20) ^ (uint64_t)i;
  x *= 0x9E3779B97F4A7C15ull; x ^= x >> 29; x *= 0xBF58476D1CE4E5B9ull; x ^= x >> 32;
  uint8_t b = (uint8_t)x;
  return b == 0 ? 0xA5 : b;    /* pattern bytes are never zero */
}
/* blocks above VF_FULL bytes are written sparsely: the first 4 KiB, a 64-byte chunk at every 4 KiB, and the last 4 KiB of
   the written extent `filln`; matching checks exactly the positions a fill of length `filln` wrote. */
#define VF_FULL 262144
static void vf_fill(void* p, uint32_t id, uint32_t gen, size_t n) {
  uint8_t* q = (uint8_t*)p;
  if (n <= VF_FULL) { for (size_t i = 0; i < n; i++) q[i] = vf_pat(id, gen, i); return; }
  for (size_t i = 0; i < 4096; i++) q[i] = vf_pat(id, gen, i);
  for (size_t i = 4096; i + 4096 < n; i += 4096) for (size_t j = 0; j < 64; j++) q[i + j] = vf_pat(id, gen, i + j);
  for (size_t i = n - 4096; i < n; i++) q[i] = vf_pat(id, gen, i);
}
/* number of leading bytes of p[0..n) that carry pattern (id,gen) as written by vf_fill(.., filln); n <= filln; returns n if all match */
static size_t vf_match(const void* p, uint32_t id, uint32_t gen, size_t n, size_t filln) {
  const uint8_t* q = (const uint8_t*)p;
  if (n > filln) n = filln;
  if (filln <= VF_FULL) { for (size_t i = 0; i < n; i++) if (q[i] != vf_pat(id, gen, i)) return i; return n; }
  for (size_t i = 0; i < 4096 && i < n; i++) if (q[i] != vf_pat(id, gen, i)) return i;
  for (size_t i = 4096; i + 4096 < filln && i < n; i += 4096) for (size_t j = 0; j < 64 && i + j < n; j++) if (q[i + j] != vf_pat(id, gen, i + j)) return i + j;
  for (size_t i = filln - 4096; i < n; i++) if (q[i] != vf_pat(id, gen, i)) return i;
  return n;
}
/* number of leading zero bytes of p[from..upto) */
static size_t vf_zero_run(const void* p, size_t from, size_t upto) {
  const uint8_t* q = (const uint8_t*)p;
  size_t i = from;
  while (i < upto && ((uintptr_t)(q + i) & 7) != 0) { if (q[i] != 0) return i - from; i++; }
  while (i + 8 <= upto) { if (*(const uint64_t*)(q + i) != 0) break; i += 8; }
  while (i < upto) { if (q[i] != 0) return i - from; i++; }
  return upto - from;
}

/* ------------------------------------------------------------------ OS shim */
#if defined(VF_SHIM)
/* fault plan: fail OS call number k (1-based, counted over the selected kinds) once, or from k on */
static long vf_os_count = 0;          /* calls seen so far (all kinds) */
static long vf_os_kcount = 0;         /* calls seen of the selected kind */
static long vf_fault_at = 0;          /* 0 = none */
static int  vf_fault_persist = 0;
static int  vf_fault_kind = 0;        /* 0 = any, 1 = mmap, 2 = munmap, 3 = mprotect, 4 = madvise */
static int  vf_fault_armed = 1;
static int  vf_os_log = 1;
static long vf_os_refused = 0;
static long vf_clock_ms = 1000;       /* virtual clock in milliseconds */
static int  vf_thp_passthrough = 0;
static __thread int vf_cur_thread = 0;

static int vf_should_fail(int kind) {
  vf_os_count++;
  if (vf_fault_kind != 0 && vf_fault_kind != kind) return 0;
  vf_os_kcount++;
  if (!vf_fault_armed || vf_fault_at == 0) return 0;
  if (vf_os_kcount == vf_fault_at || (vf_fault_persist && vf_os_kcount > vf_fault_at)) { vf_os_refused++; return 1; }
  return 0;
}
static const char* vf_prot_name(int prot) {
  if (prot == PROT_NONE) return "NONE";
  if (prot == (PROT_READ | PROT_WRITE)) return "RW";
  return "OTHER";
}
static const char* vf_adv_name(int adv) {
  switch (adv) {
    case MADV_DONTNEED: return "DONTNEED";
    case MADV_FREE: return "FREE";
    case MADV_HUGEPAGE: return "HUGEPAGE";
    case MADV_NOHUGEPAGE: return "NOHUGEPAGE";
    case MADV_DONTDUMP: return "DONTDUMP";
    case MADV_DODUMP: return "DODUMP";
    default: return "OTHER";
  }
}
static long vf_os_in_call = 0;       /* OS calls since the current API call started (reset by the drivers at every call) */
#ifndef VF_OS_RUNAWAY
#define VF_OS_RUNAWAY 1500
#endif
static void vf_os_event(const char* call, void* addr, size_t len, const char* arg, int ok, int fixed) {
  if (vf_in_call && ++vf_os_in_call > VF_OS_RUNAWAY) vf_crash_handler(98);     /* one API call that keeps asking the OS without end: end the run with a crash event */
  if (!vf_os_log) return;
  vf_logf("{\"e\":\"os\",\"t\":%d,\"call\":\"%s\",\"a\":[%ld,%ld],\"len\":[%ld,%ld],\"arg\":\"%s\",\"ok\":%s,\"fixed\":%s,\"k\":%ld}",
          vf_cur_thread, call, VF_HI(addr), VF_LO(addr), VF_HI(len), VF_LO(len), arg, ok ? "true" : "false", fixed ? "true" : "false", vf_os_count);
  vf_log_line_end();
}
static void (*vf_on_mmap)(void*, size_t) = NULL;     /* optional observer (the scheduler tracks allocator memory) */
void* vf_mmap(void* addr, size_t len, int prot, int flags, int fd, off_t off) {
  if (vf_should_fail(1)) { vf_os_event("mmap", addr, len, vf_prot_name(prot), 0, (flags & MAP_FIXED) != 0); errno = ENOMEM; return MAP_FAILED; }
  void* p = (void*)syscall(SYS_mmap, addr, len, prot, flags, fd, off);
  if ((long)p < 0 && (long)p > -4096) { errno = (int)(-(long)p); p = MAP_FAILED; }
  vf_os_event("mmap", (p == MAP_FAILED ? addr : p), len, vf_prot_name(prot), p != MAP_FAILED, (flags & MAP_FIXED) != 0);
  if (p != MAP_FAILED && vf_on_mmap != NULL) vf_on_mmap(p, len);
  return p;
}
int vf_munmap(void* addr, size_t len) {
  if (vf_should_fail(2)) { vf_os_event("munmap", addr, len, "", 0, 0); errno = ENOMEM; return -1; }
  int r = (int)syscall(SYS_munmap, addr, len);
  vf_os_event("munmap", addr, len, "", r == 0, 0);
  return r;
}
int vf_mprotect(void* addr, size_t len, int prot) {
  if (vf_should_fail(3)) { vf_os_event("mprotect", addr, len, vf_prot_name(prot), 0, 0); errno = ENOMEM; return -1; }
  int r = (int)syscall(SYS_mprotect, addr, len, prot);
  vf_os_event("mprotect", addr, len, vf_prot_name(prot), r == 0, 0);
  return r;
}
int vf_madvise(void* addr, size_t len, int advice) {
  if (advice == MADV_HUGEPAGE && !vf_thp_passthrough) { return 0; }     /* keep residency free of THP effects; not a modelled event */
  if (advice != MADV_DONTNEED && advice != MADV_FREE) { return (int)syscall(SYS_madvise, addr, len, advice); }
  if (vf_should_fail(4)) { vf_os_event("madvise", addr, len, vf_adv_name(advice), 0, 0); errno = ENOMEM; return -1; }
  int r = (int)syscall(SYS_madvise, addr, len, advice);
  vf_os_event("madvise", addr, len, vf_adv_name(advice), r == 0, 0);
  return r;
}
int vf_clock_gettime(clockid_t clk, struct timespec* ts) {
  (void)clk;
  ts->tv_sec = vf_clock_ms / 1000;
  ts->tv_nsec = (vf_clock_ms % 1000) * 1000000L;
  return 0;
}
static void vf_clock_advance(long ms) {
  vf_clock_ms += ms;
  vf_logf("{\"e\":\"clock\",\"now\":%ld}", vf_clock_ms); vf_log_line_end();
}
#endif /* VF_SHIM */

#endif
