/* drv_api.c -- single-threaded API driver (main program); the operations live in drv_core.h */
#include "drv_core.h"

/* ------------------------------------------------------------------ main loop */
static void usage(void) { fprintf(stderr, "usage: drv_api --out F [--seed S] [--ops N] [--maxlive L] [--profile P]\n"); exit(2); }

static int scen_arena = -1;
static void* scen_bound_worker(void* arg) {
  worker_t* w = (worker_t*)arg;
  cur_t = w->t; cur_theap = w->heapid;
#if defined(VF_SHIM)
  vf_cur_thread = w->t;
#endif
  vf_logf("{\"e\":\"tstart\",\"t\":%d,\"h\":%d}", w->t, w->heapid); vf_log_line_end();
  int hi = heap_new_in_arena_op(scen_arena);
  if (hi > 0) {
    static const size_t szs[] = {64, 1000, 20000, 300000, 2u << 20};
    for (int j = 0; j < 25; j++) op_alloc_ex(A_heap_malloc, szs[j % 5] + (size_t)vf_randn(64), 0, 0, hi, 0);
    for (int s_ = 0, k = 0; s_ < MAXSLOTS; s_++) if (slots[s_].p && slots[s_].heap == hps[hi].id && (k++ % 3) == 0) op_free_slot(s_, FR_free);
    hps[hi].alive = 0; hps[hi].descid = 0;      /* released by mi_thread_done */
  }
  vf_logf("{\"e\":\"tdone\",\"t\":%d}", w->t); vf_log_line_end();
  vf_in_call = 1; mi_thread_done(); vf_in_call = 0;
  cur_t = 0; cur_theap = 0;
#if defined(VF_SHIM)
  vf_cur_thread = 0;
#endif
  return NULL;
}
int main(int argc, char** argv) {
  const char* out = NULL; const char* profile = "c01"; const char* progpath = NULL; uint64_t seed = 1; long ops = 2000;
  const char* workload = NULL; const char* scenario = NULL; const char* c18pat = NULL; int rounds = 3; long c18step = 100; long fault_at = 0; int fault_persist = 0, fault_kind = 0, recover_after = 0, count_os = 0;
  for (int i = 1; i < argc; i++) {
    if (!strcmp(argv[i], "--out") && i + 1 < argc) out = argv[++i];
    else if (!strcmp(argv[i], "--seed") && i + 1 < argc) seed = strtoull(argv[++i], NULL, 10);
    else if (!strcmp(argv[i], "--ops") && i + 1 < argc) ops = atol(argv[++i]);
    else if (!strcmp(argv[i], "--maxlive") && i + 1 < argc) maxlive = atoi(argv[++i]);
    else if (!strcmp(argv[i], "--segs") && i + 1 < argc) { seg_snap_on = 1; seg_snap_every = atoi(argv[++i]); if (seg_snap_every < 1) seg_snap_every = 1; }
    else if (!strcmp(argv[i], "--maxsize") && i + 1 < argc) max_size = (size_t)atol(argv[++i]);
    else if (!strcmp(argv[i], "--profile") && i + 1 < argc) profile = argv[++i];
    else if (!strcmp(argv[i], "--prog") && i + 1 < argc) progpath = argv[++i];
    else if (!strcmp(argv[i], "--clock") && i + 1 < argc) clock_on = atol(argv[++i]);
    else if (!strcmp(argv[i], "--noheaps")) allow_heaps = -1;
    else if (!strcmp(argv[i], "--workload") && i + 1 < argc) workload = argv[++i];
    else if (!strcmp(argv[i], "--rounds") && i + 1 < argc) rounds = atoi(argv[++i]);
    else if (!strcmp(argv[i], "--c18") && i + 1 < argc) c18pat = argv[++i];
    else if (!strcmp(argv[i], "--scenario") && i + 1 < argc) scenario = argv[++i];
    else if (!strcmp(argv[i], "--step") && i + 1 < argc) c18step = atol(argv[++i]);
    else if (!strcmp(argv[i], "--midclock")) c18_midclock = 1;
    else if (!strcmp(argv[i], "--gentle")) { c18_midclock = 1; c18_gentle = 1; }
    else if (!strcmp(argv[i], "--abandoned")) { c18_midclock = 1; c18_gentle = 1; c18_abandoned = 1; }
    else if (!strcmp(argv[i], "--abandoned2")) { c18_midclock = 1; c18_gentle = 1; c18_abandoned = 2; }
    else if (!strcmp(argv[i], "--fault") && i + 1 < argc) fault_at = atol(argv[++i]);
    else if (!strcmp(argv[i], "--persist")) fault_persist = 1;
    else if (!strcmp(argv[i], "--kind") && i + 1 < argc) fault_kind = atoi(argv[++i]);
    else if (!strcmp(argv[i], "--recover") && i + 1 < argc) recover_after = atoi(argv[++i]);
    else if (!strcmp(argv[i], "--countos")) count_os = 1;
    else if (!strcmp(argv[i], "--scale") && i + 1 < argc) wl_scale = atoi(argv[++i]);
    else if (!strcmp(argv[i], "--wordoffsets")) word_offsets = atoi(argv[++i]);   /* only the backing heap (explicit-heap entry points still used, on the backing heap) */
    else usage();
  }
  if (!out) usage();
  if (maxlive > MAXSLOTS - 64) maxlive = MAXSLOTS - 64;
#if (MI_DEBUG > 0)
  if (word_offsets == 0) word_offsets = 1;    /* default in debug builds; "--wordoffsets -1" switches it off */
#endif
  if (word_offsets < 0) word_offsets = 0;
  vf_rng_state = seed * 0x9E3779B97F4A7C15ull + 12345;
  vf_log_open(out);
  vf_watchdog = 100;
#if MI_PADDING
  padding = 1;
#endif
  if (!strcmp(profile, "c01")) { }
  else if (!strcmp(profile, "c03")) { only_aligned = 1; w_alloc = 40; w_realloc = 20; w_expand = 8; w_query = 10; w_heap = 2; }
  else if (!strcmp(profile, "c04")) { w_chain = 25; w_alloc = 30; w_free = 30; w_realloc = 5; w_write = 8; fill_mode_default = 0; }
  else if (!strcmp(profile, "c05")) { w_realloc = 45; w_alloc = 25; w_free = 15; w_expand = 8; w_bad = 9; w_visit = 3; }   /* failing re-allocations too; the heap walk shows whether the old block was released exactly once */
  else if (!strcmp(profile, "c10")) { w_heap = 20; w_query = 15; w_alloc = 35; w_free = 15; w_realloc = 8; }
  else if (!strcmp(profile, "c06")) { w_bad = 40; w_alloc = 30; w_free = 20; w_realloc = 8; w_visit = 4; }
  else if (!strcmp(profile, "c15")) { w_alloc = 55; w_free = 25; w_realloc = 8; w_heap = 3; w_query = 3; w_visit = 2; max_size = 6u << 20; }
  else if (!strcmp(profile, "big")) { w_alloc = 45; w_free = 35; w_realloc = 6; w_collect = 8; w_visit = 2; w_heap = 2; big_sizes = 1; }
  else if (!strcmp(profile, "bulk")) { w_bulk = 14; w_alloc = 35; w_free = 30; w_realloc = 6; w_visit = 3; w_collect = 4; w_heap = 0; max_size = 200000; }
  else if (!strcmp(profile, "c12")) { w_visit = 12; w_heap = 8; w_collect = 2; w_alloc = 40; w_free = 30; }
  else if (!strcmp(profile, "c16w")) { w_visit = 6; w_alloc = 60; w_free = 34; w_realloc = 0; w_write = 0; w_query = 0; w_heap = 0; w_collect = 0; w_expand = 0; w_chain = 0; w_bad = 0; w_bulk = 0;
                                       max_size = 1100; }      /* pages of many small blocks with scattered holes, walked often (the walk's block arithmetic) */
  else { fprintf(stderr, "unknown profile %s\n", profile); return 2; }

  mi_heap_t* bh = mi_heap_get_backing();
  hps[0].hp = bh; hps[0].id = 1; hps[0].alive = 1;
  int shim_on = 0;
#if defined(VF_SHIM)
  shim_on = 1;
#endif
  vf_logf("{\"e\":\"cfg\",\"build\":\"%s\",\"padding\":%s,\"seed\":%llu,\"profile\":\"%s\",\"shim\":%s,\"purge_delay\":%ld,\"segmap_part\":%zu,\"env\":\"",
          VF_CFG, padding ? "true" : "false", (unsigned long long)seed, profile, shim_on ? "true" : "false", mi_option_get(mi_option_purge_delay), _mi_align_up(sizeof(mi_segmap_part_t), 4096));
  { extern char** environ; for (char** e = environ; *e; e++) if (!strncmp(*e, "MIMALLOC_", 9)) vf_logf("%s ", *e); }
  vf_logf("\",\"args\":\""); for (int i = 1; i < argc; i++) if (strcmp(argv[i], "--out") == 0) i++; else vf_logf("%s ", argv[i]);
  vf_logf("\"}");
  vf_log_line_end();

  if (!strcmp(profile, "c15")) {   /* two managed arenas (one exclusive) + heaps bound to them; a worker thread leaves blocks of a bound heap behind */
    int a1 = arena_setup((96u << 20) + 77777, 4096 * 3 + (size_t)vf_randn(5) * 4096, 1);
    int a2 = arena_setup((72u << 20), 65536 + 4096 * (size_t)vf_randn(9), 0);
    heap_new_in_arena_op(a1); heap_new_in_arena_op(a2); heap_new_in_arena_op(a1);
    heap_new_op();
  }
#if defined(VF_SHIM)
  vf_fault_at = fault_at; vf_fault_persist = fault_persist; vf_fault_kind = fault_kind;
#endif
  if (scenario && !strcmp(scenario, "arenadel")) {
    /* a heap bound to a (non-exclusive) managed arena is deleted while the thread's backing heap has pages in the same segment; then the
       blocks of the deleted heap are freed by the same thread (C10: they stay valid and individually freeable) */
    int ar = arena_setup((64u << 20), 65536, 0);
    int hi = heap_new_in_arena_op(ar);
    if (hi > 0) {
      int b1 = op_alloc_ex(A_malloc, 9000, 0, 0, 0, 0);                       /* backing heap: its page lies in the thread's (only) segment, inside the arena */
      int s1 = op_alloc_ex(A_heap_malloc, 5000, 0, 0, hi, 0), s2 = op_alloc_ex(A_heap_malloc, 300, 0, 0, hi, 0);
      op_checkall();
      allow_arena_heap_delete = 1; heap_delete_op(hi); allow_arena_heap_delete = 0;
      op_checkall();
      if (s1 >= 0) op_free_slot(s1, FR_free);
      if (s2 >= 0) op_free_slot(s2, FR_free);
      if (b1 >= 0) op_free_slot(b1, FR_free);
      op_alloc_ex(A_malloc, 5000, 0, 0, 0, 0);
    }
    op_checkall(); ops = 0;
  }
  if (scenario && !strcmp(scenario, "walkholes")) {
    /* per block size: several pages of many blocks are filled, holes are punched in different patterns (so that groups of 64 blocks are full,
       partially free and empty), and the heap is walked: exactly the live blocks (C12 / the block arithmetic of the walk, C16) */
    static const size_t bss[] = {16, 48, 320};
    for (int b = 0; b < 3; b++) {
      int mine[3200]; int nm = 0; int n = (bss[b] <= 48 ? 520 : 330);
      for (int j = 0; j < n; j++) { int s_ = op_alloc_ex(A_malloc, bss[b], 0, 0, 0, 0); if (s_ >= 0) mine[nm++] = s_; }
      op_visit(0, 0);
      for (int pass = 0; pass < 2; pass++) {
        for (int j = 0; j < nm; j++) if (mine[j] >= 0) {
          int drop = (pass == 0) ? (j % 97 == 5 || (j / 64) % 5 == 3)            /* single holes; every fifth group of 64 emptied */
                   : (pass == 1) ? (vf_randn(4) == 0)                            /* scattered */
                                 : (j % 2 == 0);                                 /* half of what is left */
          if (drop) { op_free_slot(mine[j], FR_free); mine[j] = -1; }
        }
        op_visit(0, 0);
      }
      for (int j = 0; j < nm; j++) if (mine[j] >= 0) op_free_slot(mine[j], FR_free);
      op_visit(0, 0);
    }
    op_checkall(); ops = 0;
  }
  if (scenario && !strcmp(scenario, "arena96")) {
    /* an exclusive arena of 96 blocks (two bitmap fields): single-block objects up to block 61, then a four-block object across the field
       boundary (62-65) and a three-block one; everything is freed again -- the arena can be allocated completely (C14: nothing stays reserved) */
    size_t total = ((size_t)96 << 25) + ((size_t)64 << 20);
    uint8_t* raw = (uint8_t*)syscall(SYS_mmap, NULL, total, PROT_READ | PROT_WRITE, MAP_PRIVATE | MAP_ANONYMOUS | MAP_NORESERVE, -1, 0);
    if (!((long)raw < 0 && (long)raw > -4096) && nars < MAXARENAS) {
#if defined(VF_SHIM)
      vf_os_event("mmap", raw, total, "RW", 1, 0);
#endif
      uint8_t* start = (uint8_t*)(((uintptr_t)raw + ((size_t)32 << 20) - 1) & ~(((uintptr_t)32 << 20) - 1));
      size_t given = (size_t)96 << 25;
      mi_arena_id_t aid = 0;
      vf_in_call = 1; bool ok = mi_manage_os_memory_ex(start, given, true, false, true, -1, true, &aid); vf_in_call = 0;
      if (ok) {
        size_t asz = 0; void* ast = mi_arena_area(aid, &asz);
        ar_t* ar = &ars[nars++]; ar->aid = aid; ar->id = nars; ar->start = ast; ar->size = asz; ar->excl = 1;
        vf_logf("{\"e\":\"arena\",\"id\":%d,\"a\":[%ld,%ld],\"len\":[%ld,%ld],\"ga\":[%ld,%ld],\"glen\":[%ld,%ld],\"excl\":true}", ar->id,
                VF_HI(ast), VF_LO(ast), VF_HI(asz), VF_LO(asz), VF_HI(start), VF_LO(start), VF_HI(given), VF_LO(given));
        vf_log_line_end();
        int hi = heap_new_in_arena_op(nars - 1);
        if (hi > 0) {
          for (int round = 0; round < 2; round++) {
            int mine[80]; int nm = 0;
            for (int k = 0; k < 62; k++) { int s_ = op_alloc_ex(A_heap_malloc, (size_t)20 << 20, 0, 0, hi, 0); if (s_ >= 0) mine[nm++] = s_; }
            int s4 = op_alloc_ex(A_heap_malloc, (size_t)100 << 20, 0, 0, hi, 0); if (s4 >= 0) mine[nm++] = s4;
            int s3 = op_alloc_ex(A_heap_malloc, (size_t)70 << 20, 0, 0, hi, 0); if (s3 >= 0) mine[nm++] = s3;
            op_checkall();
            for (int k = (round ? nm - 1 : 0); k >= 0 && k < nm; k += (round ? -1 : 1)) op_free_slot(mine[k], FR_free);
            { ret_t r; memset(&r, 0, sizeof(r)); log_call_begin("heap_collect", hps[hi].id, 0, 1, 0, 0, 0, "ok", 0, 0); log_obs(-1, -1, 0); log_call_end();
              mi_heap_collect(hps[hi].hp, true); log_ret_begin("heap_collect", &r); log_obs(-1, -1, 0); log_ret_end(); }
            /* which blocks are still in use; then refill with single-block objects */
            mi_arena_t* arena = mi_arena_from_index(mi_arena_id_index(aid));
            size_t nblocks = arena->block_count;
            vf_logf("{\"e\":\"refill\",\"blocks\":%zu,\"inuse\":[", nblocks);
            int first = 1;
            for (size_t i = 0; i < nblocks; i++) if (_mi_bitmap_is_claimed(arena->blocks_inuse, arena->field_count, 1, mi_bitmap_index_create(i / 64, i % 64))) { vf_logf("%s%zu", first ? "" : ",", i); first = 0; }
            vf_logf("],\"areas\":[");
            int got = 0; int saved = vf_log_enabled; vf_log_enabled = 0;
            void* ps[128];
            while (got < 128) { void* p = mi_heap_malloc(hps[hi].hp, (size_t)20 << 20); if (!p) break; ps[got++] = p; }
            for (int i = 0; i < got; i++) mi_free(ps[i]);
            mi_heap_collect(hps[hi].hp, true);
            vf_log_enabled = saved;
            vf_logf("],\"got\":%d}", got); vf_log_line_end();
          }
        }
      }
    }
    op_checkall(); ops = 0;
  }
  if (scenario && !strcmp(scenario, "exclrelease")) {
    /* a thread works in an exclusive arena through a bound heap and exits with live blocks; the main thread (whose heap may not use that
       arena) frees them and force-collects: the segments are released, the arena is empty again (C11 / C09) */
    for (int round = 0; round < 3; round++) {
      static int ar = -1; if (ar < 0) ar = arena_setup((size_t)6 * (32u << 20), 65536, 1);
      if (ar < 0) break;
      scen_arena = ar;
      pthread_t th; worker_t w; memset(&w, 0, sizeof(w)); w.t = next_thread_id++; w.heapid = next_heap_id++;
      pthread_create(&th, NULL, scen_bound_worker, &w); pthread_join(th, NULL);
      for (int s_ = 0; s_ < MAXSLOTS; s_++) if (slots[s_].p && slots[s_].heap != hps[0].id) op_free_slot(s_, FR_free);
      do_collect(1);
#if defined(VF_SHIM)
      vf_clock_advance(500);
#endif
      do_collect(1);
      mi_arena_t* arena = mi_arena_from_index(mi_arena_id_index(ars[ar].aid));
      size_t nblocks = arena->block_count;
      vf_logf("{\"e\":\"refill\",\"blocks\":%zu,\"inuse\":[", nblocks);
      int first = 1, nin = 0;
      for (size_t i = 0; i < nblocks; i++) if (_mi_bitmap_is_claimed(arena->blocks_inuse, arena->field_count, 1, mi_bitmap_index_create(i / 64, i % 64))) { vf_logf("%s%zu", first ? "" : ",", i); first = 0; nin++; }
      vf_logf("],\"areas\":[],\"got\":%d}", (int)nblocks - nin); vf_log_line_end();
    }
    op_checkall(); ops = 0;
  }
  if (scenario && !strcmp(scenario, "span16")) {
    /* blocks of (almost) the largest page size are placed into spans whose parts were freed one after the other and are still scheduled for
       purging; they outlive the purge delay while the segment sees more activity (C01: contents kept; C13: purging never touches live data) */
    static const size_t big[] = {((size_t)16 << 20) - 64, ((size_t)16 << 20) - 70000, ((size_t)15 << 20) + 4096, ((size_t)12 << 20), ((size_t)16 << 20) - 64};
    for (int round = 0; round < 5; round++) {
      int a = op_alloc_ex(A_malloc, (size_t)8 << 20, 0, 0, 0, 0), b = op_alloc_ex(A_malloc, ((size_t)8 << 20) - 70000, 0, 0, 0, 0);
      int c0 = op_alloc_ex(A_malloc, (size_t)1 << 20, 0, 0, 0, 0);
      if (a >= 0) op_free_slot(a, FR_free);
      if (b >= 0) op_free_slot(b, FR_free);
      int d = op_alloc_ex(A_malloc, big[round], 0, 0, 0, 0);
#if defined(VF_SHIM)
      vf_clock_advance(50);
#else
      usleep(30000);
#endif
      for (int k = 0; k < 6; k++) { int e = op_alloc_ex(A_malloc, ((size_t)1 << 20) + 4096 * (size_t)k, 0, 0, 0, 0); if (e >= 0 && k % 2 == 0) op_free_slot(e, FR_free); }
      do_collect(0);
      op_checkall();
      if (c0 >= 0) op_free_slot(c0, FR_free);
      if (d >= 0 && round % 2 == 0) op_free_slot(d, FR_free);
    }
    op_checkall(); ops = 0;
  }
  if (scenario && !strcmp(scenario, "excldel")) {
    /* the only heap bound to an exclusive arena is deleted: its pages cannot go to the unbound backing heap, they are abandoned (whole
       segments: nobody else has pages there); afterwards the default heap allocates the same size classes -- outside the arena (C15) */
    int ar = arena_setup((96u << 20), 65536 + 4096 * (size_t)vf_randn(5), 1);
    int hi = heap_new_in_arena_op(ar);
    if (hi > 0) {
      int mine[40]; int nm = 0;
      static const size_t szs[] = {48, 48, 200, 200, 1000, 5000, 5000, 20000, 70000, 300000};
      for (int j = 0; j < 30; j++) { int s_ = op_alloc_ex(A_heap_malloc, szs[j % 10] + (size_t)vf_randn(8), 0, 0, hi, 0); if (s_ >= 0) mine[nm++] = s_; }
      op_checkall();
      allow_arena_heap_delete = 1; heap_delete_op(hi); allow_arena_heap_delete = 0;
      for (int j = 0; j < 400; j++) op_alloc_ex(A_malloc, szs[j % 10] + (size_t)vf_randn(8), 0, 0, 0, 0);
      op_checkall();
      for (int j = 0; j < nm; j += 2) op_free_slot(mine[j], FR_free);
      for (int j = 0; j < 200; j++) op_alloc_ex(A_malloc, szs[j % 10] + (size_t)vf_randn(8), 0, 0, 0, 0);
      do_collect(1);
      for (int j = 0; j < 100; j++) op_alloc_ex(A_malloc, szs[j % 10], 0, 0, 0, 0);
    }
    op_checkall(); ops = 0;
  }
  if (scenario && !strcmp(scenario, "arena64")) {
    /* an exclusive arena of exactly 64 blocks (no left-over bits behind the last block in its bitmap field), memory not known to be
       zero: the bound heap takes 62 blocks, then asks for more than the two that are left -- NULL, not memory behind the arena (C15) */
    size_t total = ((size_t)64 << 25) + ((size_t)64 << 20);
    uint8_t* raw = (uint8_t*)syscall(SYS_mmap, NULL, total, PROT_READ | PROT_WRITE, MAP_PRIVATE | MAP_ANONYMOUS | MAP_NORESERVE, -1, 0);
    if (!((long)raw < 0 && (long)raw > -4096) && nars < MAXARENAS) {
#if defined(VF_SHIM)
      vf_os_event("mmap", raw, total, "RW", 1, 0);
#endif
      uint8_t* start = (uint8_t*)(((uintptr_t)raw + ((size_t)32 << 20) - 1) & ~(((uintptr_t)32 << 20) - 1));
      size_t given = (size_t)64 << 25;
      mi_arena_id_t aid = 0;
      vf_in_call = 1; bool ok = mi_manage_os_memory_ex(start, given, true, false, false /* not zero */, -1, true, &aid); vf_in_call = 0;
      if (ok) {
        size_t asz = 0; void* ast = mi_arena_area(aid, &asz);
        ar_t* ar = &ars[nars++]; ar->aid = aid; ar->id = nars; ar->start = ast; ar->size = asz; ar->excl = 1;
        vf_logf("{\"e\":\"arena\",\"id\":%d,\"a\":[%ld,%ld],\"len\":[%ld,%ld],\"ga\":[%ld,%ld],\"glen\":[%ld,%ld],\"excl\":true}", ar->id,
                VF_HI(ast), VF_LO(ast), VF_HI(asz), VF_LO(asz), VF_HI(start), VF_LO(start), VF_HI(given), VF_LO(given));
        vf_log_line_end();
        int hi = heap_new_in_arena_op(nars - 1);
        if (hi > 0) {
          op_alloc_ex(A_heap_malloc, 3000, 0, 0, hi, 0);                                                      /* the heap's first segment: block 0 */
          int big = op_alloc_ex(A_heap_malloc, ((size_t)60 << 25) + ((size_t)20 << 20), 0, 0, hi, 0);       /* 61 blocks behind it: two are left */
          for (int k = 0; k < 3; k++) op_alloc_ex(A_heap_malloc, ((size_t)70 << 20) + (size_t)k * ((size_t)30 << 20), 0, 0, hi, 0);   /* 3, 4, 5 blocks: more than is left */
          op_alloc_ex(A_heap_malloc, (size_t)20 << 20, 0, 0, hi, 0);
          op_checkall();
          if (big >= 0) op_free_slot(big, FR_free);
        }
      }
    }
    op_checkall(); ops = 0;
  }
  if (progpath) { run_program(progpath); ops = 0; }
  if (workload) { run_rounds(workload, rounds, recover_after); ops = 0; }
  if (c18pat) { run_c18(c18pat, c18step); ops = 0; }
  int total = w_alloc + w_free + w_realloc + w_write + w_query + w_heap + w_visit + w_collect + w_expand + w_chain + w_bad + w_bulk;
  for (nops = 0; nops < ops; nops++) {
    int r = (int)vf_randn((uint64_t)total);
    if (nops % 500 == 499) op_checkall();
    else if (seg_snap_on && nops % 100 == 50) { emit_segs(); emit_heaps(); }
#if defined(VF_SHIM)
    if (clock_on && vf_randn(3) == 0) vf_clock_advance((long)vf_randn(clock_on));
#endif
    /* steer the live-set size: phases of growth and shrink so pages fill, empty and get retired */
    int phase = (int)((nops / 400) % 4);
    int target = (phase == 0 ? maxlive : phase == 1 ? maxlive / 2 : phase == 2 ? maxlive : 8);
    if (nslots_used >= maxlive || (nslots_used > target && vf_randn(3) != 0)) { op_free(); continue; }
    if (r < w_alloc) { op_alloc(); continue; } r -= w_alloc;
    if (r < w_free) { op_free(); continue; } r -= w_free;
    if (r < w_realloc) { op_realloc(); continue; } r -= w_realloc;
    if (r < w_write) { op_write(); continue; } r -= w_write;
    if (r < w_query) { op_query(); continue; } r -= w_query;
    if (r < w_heap) { if (allow_heaps > 0) op_heap(); continue; } r -= w_heap;
    if (r < w_visit) { op_collect(); op_visit(pick_heap_idx(), vf_randn(4) == 0 ? 1 + (int)vf_randn(5) : (vf_randn(5) == 0 ? -(1 + (int)vf_randn(3)) : 0)); continue; } r -= w_visit;
    if (r < w_collect) { op_collect(); continue; } r -= w_collect;
    if (r < w_expand) { op_expand(); continue; } r -= w_expand;
    if (r < w_bad) { op_bad(); continue; } r -= w_bad;
    if (r < w_bulk) { op_bulk(); continue; } r -= w_bulk;
    op_zero_chain();
  }
  op_checkall();
  for (int i = 0; i < MAXGROUPS; i++) if (grps[i].n > 0) op_free_pattern(i, 0);
  /* wind down: free everything, final visits */
  for (int s = 0; s < MAXSLOTS; s++) if (slots[s].p) op_free_slot(s, FR_free);
  for (int i = 0; i < MAXHEAPS; i++) if (hps[i].alive) op_visit(i, 0);
#if defined(VF_SHIM)
  if (count_os) { fprintf(stdout, "OSCALLS %ld %ld\n", vf_os_count, vf_os_kcount); }
  vf_logf("{\"e\":\"end\",\"oscalls\":%ld,\"refused\":%ld}", vf_os_count, vf_os_refused); vf_log_line_end();
#else
  vf_logf("{\"e\":\"end\"}"); vf_log_line_end();
#endif
  vf_log_close();
  return 0;
}
