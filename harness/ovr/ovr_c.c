/* ovr_c.c -- C19 driver, C flavour: executes TLC-emitted programs of the (allocating x releasing) matrix with nothing but
   the C entry points of the platform.  No mi_ allocation call, no mimalloc header; mimalloc is present only as an override. */
#include "ovr_core.h"
int main(int argc, char** argv) { return ovr_main(argc, argv, "c"); }
