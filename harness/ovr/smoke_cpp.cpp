/* smoke_cpp.cpp -- C19, whole program (C++): an ordinary program using std::vector / std::string / std::map, new/delete
   EXPRESSIONS and the C entry points.  Only explicit calls are traced, plus the storage pointers the containers expose
   ("seen": only their provenance is demanded).  No mi_ call, no mimalloc header. */
#include <vector>
#include <string>
#include <map>
#include <memory>
#include <algorithm>
#include <cstdio>
#include "ovr_core.h"

struct Obj { int a[25]; double d; };

int main(int argc, char** argv) {
  const char* dir;
  if (ovr_x_open(argc, argv, "cpp", &dir) != 0) return 2;
  {
    std::vector<int> v;
    for (int i = 0; i < 3000; i++) v.push_back((i * 7919) % 3001);
    std::sort(v.begin(), v.end());
    ovr_log_seen("vector_data", v.data(), v.capacity() * sizeof(int));
    std::string s(300, 'x');
    s += std::to_string(v[17]);
    ovr_log_seen("string_data", s.data(), s.capacity() + 1);
    std::map<int, std::string> m;
    for (int i = 0; i < 100; i++) m[(i * 31) % 101] = std::string(40 + i, 'a' + (i % 26));
    ovr_log_seen("map_node", &*m.begin(), sizeof(std::pair<const int, std::string>));
    ovr_log_seen("map_value_string", m.begin()->second.data(), m.begin()->second.capacity() + 1);
    auto up = std::make_unique<Obj>();
    ovr_log_seen("unique_ptr", up.get(), sizeof(Obj));
    auto sp = std::make_shared<Obj>();
    ovr_log_seen("shared_ptr", sp.get(), sizeof(Obj));

    /* new / delete expressions */
    int r1 = ovr_x_alloc_begin("new_expr", sizeof(Obj), 0, 0);
    Obj* o = new Obj;
    ovr_x_alloc_end("new_expr", r1, o, sizeof(Obj), 0, NULL);
    int r2 = ovr_x_alloc_begin("new_arr_expr", 100 * sizeof(int), 0, 0);
    int* q = new int[100];
    ovr_x_alloc_end("new_arr_expr", r2, q, 100 * sizeof(int), 0, NULL);
    /* C entry points inside a C++ program; the string's bytes duplicated with strdup */
    int r3 = ovr_x_alloc_begin("strdup", s.size() + 1, 0, 0);
    char* d = strdup(s.c_str());
    ovr_x_alloc_end("strdup", r3, d, s.size() + 1, 0, s.c_str());
    int r4 = ovr_x_alloc_begin("malloc", 1000, 0, 0);
    void* mp = malloc(1000);
    ovr_x_alloc_end("malloc", r4, mp, 1000, 0, NULL);

    void* p;
    if ((p = ovr_x_release_begin("delete_expr", r1)) != NULL) { delete o; ovr_x_release_end("delete_expr"); }
    if ((p = ovr_x_release_begin("delete_arr_expr", r2)) != NULL) { delete[] q; ovr_x_release_end("delete_arr_expr"); }
    if ((p = ovr_x_release_begin("free", r3)) != NULL) { free(p); ovr_x_release_end("free"); }
    if ((p = ovr_x_release_begin("delete", r4)) != NULL) { ::operator delete(p); ovr_x_release_end("delete"); }   /* one allocator */
  }
  ovr_x_close();
  return 0;
}
