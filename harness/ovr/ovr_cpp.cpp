/* ovr_cpp.cpp -- C19 driver, C++ flavour: the C entry points plus every form of operator new / operator delete, called
   directly (so no new-expression can be elided).  No mi_ allocation call, no mimalloc header. */
#include <new>
#include <cstddef>
#include "ovr_core.h"

static void* ovr_cpp_alloc(const char* ep, size_t n, size_t al) {
  std::align_val_t a = static_cast<std::align_val_t>(al);
  try {
    if (ovr_streq(ep, "new")) return ::operator new(n);
    if (ovr_streq(ep, "new_arr")) return ::operator new[](n);
    if (ovr_streq(ep, "new_nothrow")) return ::operator new(n, std::nothrow);
    if (ovr_streq(ep, "new_arr_nothrow")) return ::operator new[](n, std::nothrow);
    if (ovr_streq(ep, "new_al")) return ::operator new(n, a);
    if (ovr_streq(ep, "new_arr_al")) return ::operator new[](n, a);
    if (ovr_streq(ep, "new_al_nothrow")) return ::operator new(n, a, std::nothrow);
    if (ovr_streq(ep, "new_arr_al_nothrow")) return ::operator new[](n, a, std::nothrow);
  } catch (const std::bad_alloc&) { return NULL; }
  return NULL;
}
/* how a form of operator new ends for a size that cannot be satisfied */
static int ovr_cpp_try_new(const char* ep, size_t n, size_t al) {
  std::align_val_t a = static_cast<std::align_val_t>(al);
  void* p = NULL;
  try {
    if (ovr_streq(ep, "new")) p = ::operator new(n);
    else if (ovr_streq(ep, "new_arr")) p = ::operator new[](n);
    else if (ovr_streq(ep, "new_nothrow")) p = ::operator new(n, std::nothrow);
    else if (ovr_streq(ep, "new_arr_nothrow")) p = ::operator new[](n, std::nothrow);
    else if (ovr_streq(ep, "new_al")) p = ::operator new(n, a);
    else if (ovr_streq(ep, "new_arr_al")) p = ::operator new[](n, a);
    else if (ovr_streq(ep, "new_al_nothrow")) p = ::operator new(n, a, std::nothrow);
    else if (ovr_streq(ep, "new_arr_al_nothrow")) p = ::operator new[](n, a, std::nothrow);
    else return 14;
  } catch (const std::bad_alloc&) { return 12; } catch (...) { return 13; }
  return p == NULL ? 10 : 11;
}
static int ovr_cpp_release(const char* ep, void* p, size_t n, size_t al) {
  std::align_val_t a = static_cast<std::align_val_t>(al);
  if (ovr_streq(ep, "delete")) ::operator delete(p);
  else if (ovr_streq(ep, "delete_arr")) ::operator delete[](p);
  else if (ovr_streq(ep, "delete_sz")) ::operator delete(p, n);
  else if (ovr_streq(ep, "delete_arr_sz")) ::operator delete[](p, n);
  else if (ovr_streq(ep, "delete_al")) ::operator delete(p, a);
  else if (ovr_streq(ep, "delete_arr_al")) ::operator delete[](p, a);
  else if (ovr_streq(ep, "delete_sz_al")) ::operator delete(p, n, a);
  else if (ovr_streq(ep, "delete_arr_sz_al")) ::operator delete[](p, n, a);
  else if (ovr_streq(ep, "delete_nothrow")) ::operator delete(p, std::nothrow);
  else if (ovr_streq(ep, "delete_arr_nothrow")) ::operator delete[](p, std::nothrow);
  else if (ovr_streq(ep, "delete_al_nothrow")) ::operator delete(p, a, std::nothrow);
  else if (ovr_streq(ep, "delete_arr_al_nothrow")) ::operator delete[](p, a, std::nothrow);
  else return 0;
  return 1;
}
int main(int argc, char** argv) { return ovr_main(argc, argv, "cpp"); }
