/* ovr_core.h -- C19 drivers (drop-in override).  Shared by ovr_c.c, ovr_cpp.cpp, smoke_c.c, smoke_cpp.cpp.

   These programs contain NO mi_ allocation call and include no mimalloc header: every allocation, release,
   resize and query goes through a standard entry point of the platform (malloc ... operator delete).
   mimalloc gets into the process only as a drop-in override: LD_PRELOAD of libmimalloc.so, or the override
   object linked first.  The observation instruments are resolved at run time -- dlsym(RTLD_DEFAULT, ..), or a
   weak reference when the object is linked statically (its mi_ symbols have hidden visibility) -- and are
   queries only: mi_is_in_heap_region, mi_usable_size, mi_heap_get_default + mi_heap_visit_blocks (the
   allocator's own count of live blocks).

   The driver executes a program emitted by TLC (spec/MiOverrideMC.tla) and logs what it measured as ndjson
   call/ret events in the format of drv_api.c; it makes no pass/fail decision: spec/OverrideTrace.tla decides.
   The logger (vf_rt.h) writes with write(2) from a static buffer and does not allocate.

   Upstream's region map only covers OS-allocated segments below 48 TiB; arena memory is always covered.
   With default options blocks come from arenas, and requests stay below 16 MiB, so inheap is meaningful. */
#ifndef OVR_CORE_H
#define OVR_CORE_H
#ifndef _GNU_SOURCE
#define _GNU_SOURCE
#endif
#include <sys/mman.h>
#include <pthread.h>
#include <stddef.h>
#include <stdlib.h>
#include <string.h>
#include <malloc.h>
#include <dlfcn.h>
#include <limits.h>
#include <sys/wait.h>
#include "vf_rt.h"

#ifdef OVR_HAS_CFREE      /* only where the platform libc still provides it to newly linked programs (glibc < 2.26) */
#ifdef __cplusplus
extern "C"
#endif
void cfree(void*);
#endif

#ifdef __cplusplus
#define OVR_C extern "C"
#else
#define OVR_C
#endif

/* ------------------------------------------------------------------ observation instruments */
#ifdef __cplusplus
typedef bool ovr_bool;
#else
typedef _Bool ovr_bool;
#endif
typedef size_t (*ovr_usable_fn)(const void*);           /* size_t mi_usable_size(const void*) */
typedef void*  (*ovr_defheap_fn)(void);                 /* mi_heap_t* mi_heap_get_default(void) */
typedef ovr_bool  (*ovr_visitor_fn)(const void* heap, const void* area, void* block, size_t bsize, void* arg);
typedef ovr_bool  (*ovr_visit_fn)(const void* heap, ovr_bool all, ovr_visitor_fn v, void* arg); /* mi_heap_visit_blocks */

OVR_C ovr_bool  mi_is_in_heap_region(const void*) __attribute__((weak));
OVR_C size_t mi_usable_size(const void*) __attribute__((weak));
OVR_C void*  mi_heap_get_default(void) __attribute__((weak));
OVR_C ovr_bool  mi_heap_visit_blocks(const void*, ovr_bool, ovr_visitor_fn, void*) __attribute__((weak));

static ovr_bool (*q_inheap)(const void*) = NULL;
static ovr_usable_fn q_usable = NULL;
static ovr_defheap_fn q_defheap = NULL;
static ovr_visit_fn q_visit = NULL;
static int ovr_have_mi = 0;
static int ovr_count_used = 1;
static long ovr_page = 4096;
static int ovr_libcxx = 0;           /* the override library under test was compiled as C++ (told by the check: --lib cxx) */

static void ovr_resolve(void) {
  q_inheap = (ovr_bool (*)(const void*))dlsym(RTLD_DEFAULT, "mi_is_in_heap_region");
  q_usable = (ovr_usable_fn)dlsym(RTLD_DEFAULT, "mi_usable_size");
  q_defheap = (ovr_defheap_fn)dlsym(RTLD_DEFAULT, "mi_heap_get_default");
  q_visit = (ovr_visit_fn)dlsym(RTLD_DEFAULT, "mi_heap_visit_blocks");
  if (!q_inheap) q_inheap = mi_is_in_heap_region;
  if (!q_usable) q_usable = mi_usable_size;
  if (!q_defheap) q_defheap = mi_heap_get_default;
  if (!q_visit) q_visit = mi_heap_visit_blocks;
  ovr_have_mi = (q_inheap != NULL && q_usable != NULL);
  ovr_page = sysconf(_SC_PAGESIZE);
}
static int ovr_inheap(const void* p) { return ovr_have_mi ? (q_inheap(p) ? 1 : 0) : -1; }

static ovr_bool ovr_visitor(const void* heap, const void* area, void* block, size_t bsize, void* arg) {
  (void)heap; (void)area; (void)bsize;
  if (block != NULL) (*(long*)arg)++;
  return 1;
}
/* the allocator's own number of live blocks in the (main) thread's default heap; -1 when not observable */
static long ovr_used(void) {
  if (!ovr_count_used || !ovr_have_mi || !q_defheap || !q_visit) return -1;
  long cnt = 0;
  q_visit(q_defheap(), 1, ovr_visitor, &cnt);
  return cnt;
}

/* ------------------------------------------------------------------ blocks of the running program */
#define OVR_MAXB 64
typedef struct { void* p; int id; size_t req, us, wr; uint32_t gen; size_t al; int foreign; } ovr_blk;
static ovr_blk ovr_b[OVR_MAXB];      /* indexed by the program's relative block id */
static int ovr_base = 0;             /* logged id = ovr_base + relative id */
static int ovr_nextrid = 1;
static int ovr_fill = 1;             /* fill new blocks with a pattern and verify it (matrix runs) */

static void ovr_log_obs(void) {
  vf_logf(",\"obs\":[");
  int first = 1;
  for (int i = 0; i < OVR_MAXB; i++) {
    ovr_blk* b = &ovr_b[i];
    if (!b->p) continue;
    size_t n = vf_match(b->p, (uint32_t)b->id, b->gen, b->wr, b->wr);
    vf_logf("%s[%d,%u,%zu]", first ? "" : ",", b->id, b->gen, n);
    first = 0;
  }
  vf_logf("]");
}
static void ovr_log_call(const char* ep, int id, long n, size_t al, int zero, long used) {
  vf_logf("{\"e\":\"call\",\"t\":0,\"at\":false,\"op\":\"%s\",\"h\":0,\"id\":%d,\"n\":%ld,\"al\":%zu,\"off\":0,\"zero\":%s,\"cls\":\"?\",\"arena\":0,\"stopat\":0,\"used\":%ld",
          ep, id, n, al, zero ? "true" : "false", used);
  ovr_log_obs();
  vf_logf("}"); vf_log_line_end(); vf_in_call = 1;
}
typedef struct { int null; int id; void* a; size_t us, z, wr, keep; uint32_t gen; int rc, err, outkeep, inheap; long used; const char* out; int sig; } ovr_ret;
static void ovr_log_ret(const char* ep, const ovr_ret* r) {
  vf_in_call = 0;
  vf_logf("{\"e\":\"ret\",\"t\":0,\"op\":\"%s\",\"null\":%s,\"id\":%d,\"a\":[%ld,%ld],\"us\":%zu,\"z\":%zu,\"gen\":%u,\"wr\":%zu,\"keep\":%zu,\"rc\":%d,\"errno\":%d,\"outkeep\":%s,\"res\":true,\"h\":0,\"nvisited\":0,\"inheap\":%d,\"used\":%ld,\"out\":\"%s\",\"sig\":%d",
          ep, r->null ? "true" : "false", r->id, VF_HI(r->a), VF_LO(r->a), r->us, r->z, r->gen, r->wr, r->keep, r->rc, r->err,
          r->outkeep ? "true" : "false", r->inheap, r->used, r->out ? r->out : "", r->sig);
  ovr_log_obs();
  vf_logf("}"); vf_log_line_end();
}
static void ovr_log_cfg(const char* mode, const char* lang) {
  vf_logf("{\"e\":\"cfg\",\"mode\":\"%s\",\"lang\":\"%s\",\"have_mi\":%d,\"page\":%ld,\"libcxx\":%d}", mode, lang, ovr_have_mi, ovr_page, ovr_libcxx);
  vf_log_line_end();
}
static void ovr_log_seen(const char* what, const void* p, size_t n) {
  int ih = ovr_inheap(p);
  vf_logf("{\"e\":\"seen\",\"op\":\"%s\",\"a\":[%ld,%ld],\"n\":%zu,\"inheap\":%d}", what, VF_HI(p), VF_LO(p), n, ih);
  vf_log_line_end();
}

/* ------------------------------------------------------------------ entry points */
static int ovr_streq(const char* a, const char* b) { return strcmp(a, b) == 0; }
static int ovr_is_str(const char* ep) { return ovr_streq(ep, "strdup") || ovr_streq(ep, "strndup") || ovr_streq(ep, "realpath"); }
static int ovr_is_alloc_c(const char* ep) {
  static const char* t[] = {"malloc", "calloc", "realloc_null", "posix_memalign", "aligned_alloc", "memalign", "valloc", "pvalloc",
                            "reallocarray_null", "strdup", "strndup", "realpath", NULL};
  for (int i = 0; t[i]; i++) if (ovr_streq(ep, t[i])) return 1;
  return 0;
}
static int ovr_is_resize(const char* ep) {
  return ovr_streq(ep, "realloc") || ovr_streq(ep, "realloc_zero") || ovr_streq(ep, "reallocarray") || ovr_streq(ep, "reallocarray_ovf");
}
static void ovr_split(size_t n, size_t* cnt, size_t* sz) { if (n % 8 == 0 && n > 0) { *cnt = n / 8; *sz = 8; } else { *cnt = n; *sz = 1; } }
#define OVR_HUGE_CNT (((size_t)1) << 62)

static char ovr_strsrc[1 << 22];      /* source string of strdup / strndup (pattern bytes, never 0) */
static char ovr_pathsrc[PATH_MAX];    /* argument of realpath */
static char ovr_pathres[PATH_MAX];    /* its resolution, obtained with the non-allocating form */

#ifdef __cplusplus
static int   ovr_cpp_try_new(const char* ep, size_t n, size_t al);   /* 10 nullptr, 11 a pointer, 12 std::bad_alloc, 13 other exception */
static void* ovr_cpp_alloc(const char* ep, size_t n, size_t al);
static int   ovr_cpp_release(const char* ep, void* p, size_t n, size_t al);
#endif

/* size the block must provide for entry point ep asked with n (realpath: determined by the path) */
static size_t ovr_req(const char* ep, long n) {
  if (ovr_streq(ep, "realpath")) return strlen(ovr_pathres) + 1;
  return n < 0 ? 0 : (size_t)n;
}

static int ovr_huge_variant = 0;      /* which unsatisfiable size a request with n < 0 stands for */
static void* ovr_do_alloc(const char* ep, long n_, size_t al, int* rc, int* outkeep) {
  size_t n = (n_ < 0 ? (ovr_huge_variant == 1 ? SIZE_MAX - 100 : ovr_huge_variant == 2 ? SIZE_MAX - ((size_t)ovr_page - 2) : (size_t)SIZE_MAX / 2 + 4096) : (size_t)n_);
  size_t cnt, sz;
  *rc = 0; *outkeep = 1;
  if (ovr_streq(ep, "malloc")) return malloc(n);
  if (ovr_streq(ep, "calloc")) { ovr_split(n, &cnt, &sz); return calloc(cnt, sz); }
  if (ovr_streq(ep, "realloc_null")) return realloc(NULL, n);
  if (ovr_streq(ep, "posix_memalign")) {
    void* sentinel = (void*)(uintptr_t)0x5EED5EED; void* q = sentinel;
    *rc = posix_memalign(&q, al, n);
    if (*rc != 0) { *outkeep = (q == sentinel); return NULL; }
    return q;
  }
  if (ovr_streq(ep, "aligned_alloc")) return aligned_alloc(al, n);
  if (ovr_streq(ep, "memalign")) return memalign(al, n);
  if (ovr_streq(ep, "valloc")) return valloc(n);
  if (ovr_streq(ep, "pvalloc")) return pvalloc(n);
  if (ovr_streq(ep, "reallocarray_null")) {
    if (n_ < 0) return reallocarray(NULL, OVR_HUGE_CNT, 8);
    ovr_split(n, &cnt, &sz); return reallocarray(NULL, cnt, sz);
  }
  if (ovr_streq(ep, "strdup")) return strdup(ovr_strsrc);
  if (ovr_streq(ep, "strndup")) {
    /* every second time: exactly the first n-1 characters of an UNTERMINATED source that ends right in front of an inaccessible page
       (a legal call; reading source[n-1] faults) */
    static uint8_t* region = NULL; static int flip = 0; const size_t rsz = (size_t)1 << 22;
    if (region == NULL) {
      region = (uint8_t*)mmap(NULL, rsz + 4096, PROT_READ | PROT_WRITE, MAP_PRIVATE | MAP_ANONYMOUS, -1, 0);
      if (region == (uint8_t*)MAP_FAILED) region = NULL; else mprotect(region + rsz, 4096, PROT_NONE);
    }
    if (region != NULL && n >= 2 && n - 1 <= rsz && (flip++ % 2) == 0) {
      char* d = (char*)(region + rsz - (n - 1)); memcpy(d, ovr_strsrc, n - 1);
      return strndup(d, n - 1);
    }
    return strndup(ovr_strsrc, n - 1 + 5);
  }
  if (ovr_streq(ep, "realpath")) return realpath(ovr_pathsrc, NULL);
#ifdef __cplusplus
  return ovr_cpp_alloc(ep, n, al);
#else
  return NULL;
#endif
}

/* after an allocating / resizing entry point returned q for relative id rid: measure, record, fill */
static void ovr_new_block(const char* ep, int rid, void* q, size_t req, size_t al, ovr_ret* r) {
  ovr_blk* b = &ovr_b[rid];
  r->inheap = ovr_inheap(q);
  size_t us;
  if (r->inheap == 1) us = q_usable(q);
  else us = req;              /* not mimalloc's (or no mimalloc at all): only the requested bytes are known to be there */
  memset(b, 0, sizeof(*b));
  b->p = q; b->id = ovr_base + rid; b->req = req; b->us = us; b->al = al; b->foreign = (r->inheap != 1);
  b->gen = 1 + (uint32_t)(b->id % 997);
  b->wr = (ovr_fill ? us : 0);
  r->id = b->id; r->a = q; r->us = us; r->gen = b->gen; r->wr = b->wr;
}

/* one step: an operator new form with an unsatisfiable size (no new-handler installed).  The call runs in a forked copy of
   the process (same allocator state), so that an abort() inside the allocator ends only that copy; how it ended is logged. */
static void ovr_step_failnew(const char* ep, size_t al) {
  ovr_log_call(ep, 0, -1, al, 0, -1);
  ovr_ret r; memset(&r, 0, sizeof(r));
  r.null = 1; r.outkeep = 1; r.used = -1; r.out = "exit";
#ifdef __cplusplus
  vf_log_flush();
  pid_t c = fork();
  if (c == 0) {
    vf_log_fd = -1; vf_loglen = 0;                      /* the copy logs nothing */
    signal(SIGABRT, SIG_DFL); signal(SIGSEGV, SIG_DFL); signal(SIGBUS, SIG_DFL); signal(SIGALRM, SIG_DFL);
    int nul = open("/dev/null", O_WRONLY); if (nul >= 0) dup2(nul, 2);   /* the allocator's diagnostics */
    alarm(20);
    _exit(ovr_cpp_try_new(ep, ((size_t)1) << 62, al));
  }
  int st = 0;
  if (c > 0 && waitpid(c, &st, 0) == c) {
    if (WIFSIGNALED(st)) { r.out = "abort"; r.sig = WTERMSIG(st); }
    else if (WIFEXITED(st)) {
      switch (WEXITSTATUS(st)) { case 10: r.out = "null"; break; case 11: r.out = "nonnull"; break; case 12: r.out = "threw"; break;
                                 case 13: r.out = "threw_other"; break; default: r.out = "exit"; r.sig = WEXITSTATUS(st); }
    }
  }
#endif
  ovr_log_ret(ep, &r);
}

/* one step: an allocating entry point */
static void ovr_step_alloc(const char* ep, long n, size_t al) {
  static int in_variants = 0;
  if (n < 0 && strncmp(ep, "new", 3) != 0 && !in_variants) {
    /* an unsatisfiable size stands for three requests: SIZE_MAX/2 + 4096, SIZE_MAX - 100, SIZE_MAX - (page - 2) -- for the last two
       rounding up to a page or to an alignment wraps around */
    in_variants = 1;
    for (int v = 0; v < 3; v++) { ovr_huge_variant = v; ovr_step_alloc(ep, n, al); }
    in_variants = 0; ovr_huge_variant = 0;
    return;
  }
  int rid = ovr_nextrid++;
  if (rid >= OVR_MAXB) return;
  if (n < 0 && strncmp(ep, "new", 3) == 0) { ovr_step_failnew(ep, al); return; }
  if (ovr_streq(ep, "valloc") || ovr_streq(ep, "pvalloc")) al = (size_t)ovr_page;
  size_t req = ovr_req(ep, n);
  if (ovr_streq(ep, "strndup")) {     /* every second time the copy is truncated at exactly a block size (8, 16, 32, ... characters + the terminator) */
    static unsigned kk = 0; static const size_t cls[] = {8, 16, 32, 48, 64, 80, 128, 1024};
    if ((kk++ % 2) == 0) req = cls[(kk / 2) % 8] + 1;
  }
  if (ovr_is_str(ep) && !ovr_streq(ep, "realpath")) {
    if (req < 1) req = 1;
    if (req > sizeof(ovr_strsrc)) req = sizeof(ovr_strsrc);
    for (size_t i = 0; i + 1 < req; i++) ovr_strsrc[i] = (char)vf_pat((uint32_t)(ovr_base + rid), 0, i);
    ovr_strsrc[req - 1] = 0;
    n = (long)req;
  }
  int zero = ovr_streq(ep, "calloc");
  long logn = (ovr_streq(ep, "realpath") ? (long)req : n);
  ovr_log_call(ep, 0, logn, al, zero, ovr_used());
  int rc, outkeep; errno = 0;
  void* q = ovr_do_alloc(ep, n, al, &rc, &outkeep);
  int err = errno;
  ovr_ret r; memset(&r, 0, sizeof(r));
  r.used = ovr_used();
  r.null = (q == NULL); r.rc = rc; r.err = err; r.outkeep = outkeep; r.inheap = 0;
  if (q != NULL) {
    ovr_new_block(ep, rid, q, req, al, &r);
    ovr_blk* b = &ovr_b[rid];
    if (zero) r.z = vf_zero_run(q, 0, b->us);
    if (ovr_is_str(ep)) {
      const char* src = ovr_streq(ep, "realpath") ? ovr_pathres : ovr_strsrc;
      size_t k = 0; while (k < req && ((const char*)q)[k] == src[k]) k++;
      r.keep = k;
    }
    if (b->wr > 0) vf_fill(q, (uint32_t)b->id, b->gen, b->wr);
  }
  ovr_log_ret(ep, &r);
  if (q != NULL && ovr_b[rid].foreign) {   /* abandon it: handing it to other entry points would only crash this driver */
    vf_logf("{\"e\":\"skip\",\"id\":%d}", ovr_b[rid].id); vf_log_line_end();
    memset(&ovr_b[rid], 0, sizeof(ovr_blk));
  }
}

/* one step: a releasing / resizing / querying entry point applied to relative block rid */
static void ovr_step_release(const char* ep, int rid, long n, size_t al) {
  int newrid = ovr_is_resize(ep) ? ovr_nextrid++ : 0;
  if (rid <= 0 || rid >= OVR_MAXB || newrid >= OVR_MAXB) return;
  ovr_blk* b = &ovr_b[rid];
  if (!b->p) return;                       /* the block was never obtained (reported at its allocation) */
  ovr_blk old = *b;
  ovr_ret r; memset(&r, 0, sizeof(r));
  if (ovr_streq(ep, "malloc_usable_size")) {
    ovr_log_call(ep, old.id, 0, 0, 0, ovr_used());
    r.us = malloc_usable_size(old.p);
    r.used = ovr_used();
    ovr_log_ret(ep, &r);
    return;
  }
  if (ovr_is_resize(ep)) {
    if (ovr_streq(ep, "realloc_zero")) n = 0;
    if (ovr_streq(ep, "reallocarray_ovf")) n = -1;
    /* a block that came from an aligned entry point may sit at an offset inside its block: every second time it is grown to just above
       its usable size (the smallest growth that cannot stay in place) */
    { static unsigned grow_toggle = 0;
      if (ovr_streq(ep, "realloc") && old.al >= 32 && old.us > 0 && old.us < ((size_t)1 << 28) && (grow_toggle++ % 2) == 0) n = (long)(old.us + 1 + (size_t)((grow_toggle / 2) % 3)); }
    ovr_log_call(ep, old.id, n, 0, 0, ovr_used());
    memset(b, 0, sizeof(*b));
    void* q; size_t cnt, sz; errno = 0;
    if (ovr_streq(ep, "realloc") || ovr_streq(ep, "realloc_zero")) q = realloc(old.p, (size_t)n);
    else if (n < 0) q = reallocarray(old.p, OVR_HUGE_CNT, 8);
    else { ovr_split((size_t)n, &cnt, &sz); q = reallocarray(old.p, cnt, sz); }
    r.err = errno;
    r.used = ovr_used();
    r.null = (q == NULL);
    if (q == NULL) {
      *b = old;                            /* the old block must be untouched */
      r.keep = vf_match(old.p, (uint32_t)old.id, old.gen, old.wr, old.wr);
    } else {
      size_t cmp = old.wr < old.req ? old.wr : old.req; if (cmp > (size_t)n) cmp = (size_t)n;
      r.keep = vf_match(q, (uint32_t)old.id, old.gen, cmp, old.wr);
      ovr_new_block(ep, newrid, q, (size_t)n, 0, &r);
      if (ovr_b[newrid].wr > 0) vf_fill(q, (uint32_t)ovr_b[newrid].id, ovr_b[newrid].gen, ovr_b[newrid].wr);
    }
    ovr_log_ret(ep, &r);
    if (q != NULL && ovr_b[newrid].foreign) {
      vf_logf("{\"e\":\"skip\",\"id\":%d}", ovr_b[newrid].id); vf_log_line_end();
      memset(&ovr_b[newrid], 0, sizeof(ovr_blk));
    }
    return;
  }
  /* release */
  int sized = (strstr(ep, "_sz") != NULL);
  int aligned = (strstr(ep, "_al") != NULL);
  ovr_log_call(ep, old.id, sized ? (long)old.req : 0, aligned ? al : 0, 0, ovr_used());
  memset(b, 0, sizeof(*b));
  if (ovr_streq(ep, "free")) free(old.p);
#ifdef OVR_HAS_CFREE
  else if (ovr_streq(ep, "cfree")) cfree(old.p);
#endif
  else {
#ifdef __cplusplus
    ovr_cpp_release(ep, old.p, old.req, al);
#endif
  }
  r.used = ovr_used();
  ovr_log_ret(ep, &r);
}

/* ------------------------------------------------------------------ program file: "P ae re flavour std" / "C ep rid n al" */
static char ovr_progbuf[1 << 24];
static int ovr_pairs_run = 0;

static void ovr_run_program(const char* path) {
  int fd = open(path, O_RDONLY);
  if (fd < 0) { _exit(3); }
  size_t len = 0;
  for (;;) { ssize_t k = read(fd, ovr_progbuf + len, sizeof(ovr_progbuf) - 1 - len); if (k <= 0) break; len += (size_t)k; }
  close(fd);
  ovr_progbuf[len] = 0;
  char* s = ovr_progbuf;
  while (*s) {
    char* eol = strchr(s, '\n'); if (eol) *eol = 0;
    char* f[6]; int nf = 0;
    for (char* t = s; *t && nf < 6; ) { while (*t == ' ') t++; if (!*t) break; f[nf++] = t; while (*t && *t != ' ') t++; if (*t) *t++ = 0; }
    if (nf >= 5 && f[0][0] == 'P') {
      /* blocks a broken pair left behind (a request that had to fail returned a block ...) are abandoned, and said so */
      for (int i = 0; i < OVR_MAXB; i++) if (ovr_b[i].p) { vf_logf("{\"e\":\"abandon\",\"id\":%d}", ovr_b[i].id); vf_log_line_end(); }
      memset(ovr_b, 0, sizeof(ovr_b));
      ovr_base += 16; ovr_nextrid = 1; ovr_pairs_run++;
      vf_logf("{\"e\":\"pair\",\"ae\":\"%s\",\"re\":\"%s\",\"flavour\":\"%s\",\"std\":%s}", f[1], f[2], f[3], f[4]);
      vf_log_line_end();
    } else if (nf >= 5 && f[0][0] == 'C') {
      const char* ep = f[1]; int rid = atoi(f[2]); long n = atol(f[3]); size_t al = (size_t)atol(f[4]);
      int is_alloc = ovr_is_alloc_c(ep) || strncmp(ep, "new", 3) == 0;
      if (is_alloc) ovr_step_alloc(ep, n, al); else ovr_step_release(ep, rid, n, al);
    }
    if (!eol) break;
    s = eol + 1;
  }
}

/* a thread obtains over-aligned blocks (pointers at an offset inside their block) and exits; the main thread then queries, resizes and
   releases them: they are served like any other pointer (C19: one allocator behind every entry point, whoever calls it) */
static void* ovr_episode_thread(void* arg) {
  (void)arg;
  ovr_step_alloc("posix_memalign", 40, 64);
  ovr_step_alloc("memalign", 100, 128);
  ovr_step_alloc("aligned_alloc", 192, 64);
  ovr_step_alloc("posix_memalign", 40, 64);
  return NULL;
}
static void ovr_thread_episode(void) {
  for (int i = 0; i < OVR_MAXB; i++) if (ovr_b[i].p) { vf_logf("{\"e\":\"abandon\",\"id\":%d}", ovr_b[i].id); vf_log_line_end(); }
  memset(ovr_b, 0, sizeof(ovr_b));
  ovr_base += 16; ovr_nextrid = 1; ovr_pairs_run++;
  vf_logf("{\"e\":\"pair\",\"ae\":\"posix_memalign\",\"re\":\"free\",\"flavour\":\"c\",\"std\":true}"); vf_log_line_end();
  int saved = ovr_count_used; ovr_count_used = 0;       /* (the blocks change hands: the count of the calling thread's heap says nothing here) */
  pthread_t th;
  if (pthread_create(&th, NULL, ovr_episode_thread, NULL) == 0) {
    pthread_join(th, NULL);
    for (int rid = 1; rid <= 4; rid++) ovr_step_release("malloc_usable_size", rid, 0, 0);
    ovr_step_release("realloc", 1, 41, 0);            /* -> block 5 */
    ovr_step_release("malloc_usable_size", 5, 0, 0);
    ovr_step_release("free", 2, 0, 0); ovr_step_release("free", 3, 0, 0); ovr_step_release("free", 4, 0, 0); ovr_step_release("free", 5, 0, 0);
  }
  ovr_count_used = saved;
}

static void ovr_setup_realpath(const char* dir) {
  /* an existing directory reached through a non-canonical spelling */
  size_t k = strlen(dir);
  if (k + 8 < sizeof(ovr_pathsrc)) { memcpy(ovr_pathsrc, dir, k); memcpy(ovr_pathsrc + k, "/./.", 5); }
  if (realpath(ovr_pathsrc, ovr_pathres) == NULL) { ovr_pathsrc[0] = '/'; ovr_pathsrc[1] = 0; ovr_pathres[0] = '/'; ovr_pathres[1] = 0; }
}

/* a call that never returns (a corrupted free list ...) ends like a crash: logged as {"e":"crash","sig":14} */
static void ovr_watchdog(unsigned seconds) {
  struct sigaction sa; memset(&sa, 0, sizeof(sa));
  sa.sa_handler = vf_crash_handler; sa.sa_flags = SA_ONSTACK;
  sigaction(SIGALRM, &sa, NULL);
  alarm(seconds);
}

/* usage: <exe> --out trace --prog file --mode preload|static --dir existing-directory */
static int ovr_main(int argc, char** argv, const char* lang) {
  const char* out = NULL; const char* prog = NULL; const char* mode = "?"; const char* dir = "/"; unsigned wd = 60;
  for (int i = 1; i + 1 < argc; i += 2) {
    if (ovr_streq(argv[i], "--watchdog")) wd = (unsigned)atoi(argv[i + 1]);
    if (ovr_streq(argv[i], "--lib")) ovr_libcxx = ovr_streq(argv[i + 1], "cxx");
    if (ovr_streq(argv[i], "--out")) out = argv[i + 1];
    else if (ovr_streq(argv[i], "--prog")) prog = argv[i + 1];
    else if (ovr_streq(argv[i], "--mode")) mode = argv[i + 1];
    else if (ovr_streq(argv[i], "--dir")) dir = argv[i + 1];
  }
  if (!out || !prog) { static const char m[] = "usage: --out trace --prog file --mode m --dir d\n"; (void)!write(2, m, sizeof(m) - 1); return 2; }
  ovr_resolve();
  ovr_setup_realpath(dir);
  vf_log_open(out);
  ovr_watchdog(wd);
  ovr_log_cfg(mode, lang);
  ovr_run_program(prog);
  ovr_thread_episode();
  vf_logf("{\"e\":\"end\",\"pairs\":%d}", ovr_pairs_run); vf_log_line_end();
  vf_log_close();
  return 0;
}
/* ------------------------------------------------------------------ whole-program runs (smoke_c.c, smoke_cpp.cpp): explicit calls only
   The program calls the entry point itself, between begin/end; contents are not patterned (wr = 0) and the allocator's block
   count is not compared (the libraries allocate behind the program's back). */
static int ovr_x_alloc_begin(const char* ep, size_t n, size_t al, int zero) {
  int rid = ovr_nextrid++;
  if (rid >= OVR_MAXB) return 0;
  ovr_log_call(ep, 0, (long)n, al, zero, -1);
  return rid;
}
static void ovr_x_alloc_end(const char* ep, int rid, void* q, size_t req, size_t al, const char* strsrc) {
  ovr_ret r; memset(&r, 0, sizeof(r));
  r.used = -1; r.null = (q == NULL); r.outkeep = 1;
  if (q != NULL && rid > 0) {
    ovr_new_block(ep, rid, q, req, al, &r);
    if (strsrc) { size_t k = 0; while (k < req && ((const char*)q)[k] == strsrc[k]) k++; r.keep = k; }
  }
  ovr_log_ret(ep, &r);
  if (q != NULL && rid > 0 && ovr_b[rid].foreign) {
    vf_logf("{\"e\":\"skip\",\"id\":%d}", ovr_b[rid].id); vf_log_line_end();
    memset(&ovr_b[rid], 0, sizeof(ovr_blk));
  }
}
/* returns the pointer to release, or NULL when the block must not be passed on (never obtained / not mimalloc's) */
static void* ovr_x_release_begin(const char* ep, int rid) {
  if (rid <= 0 || rid >= OVR_MAXB || !ovr_b[rid].p) return NULL;
  ovr_blk old = ovr_b[rid];
  ovr_log_call(ep, old.id, 0, 0, 0, -1);
  memset(&ovr_b[rid], 0, sizeof(ovr_blk));
  return old.p;
}
static void ovr_x_release_end(const char* ep) {
  ovr_ret r; memset(&r, 0, sizeof(r)); r.used = -1;
  ovr_log_ret(ep, &r);
}
static int ovr_x_open(int argc, char** argv, const char* lang, const char** dir) {
  const char* out = NULL; const char* mode = "?"; *dir = "/";
  for (int i = 1; i + 1 < argc; i += 2) {
    if (ovr_streq(argv[i], "--out")) out = argv[i + 1];
    else if (ovr_streq(argv[i], "--mode")) mode = argv[i + 1];
    else if (ovr_streq(argv[i], "--dir")) *dir = argv[i + 1];
    else if (ovr_streq(argv[i], "--lib")) ovr_libcxx = ovr_streq(argv[i + 1], "cxx");
  }
  if (!out) return 2;
  ovr_resolve();
  ovr_fill = 0; ovr_count_used = 0; ovr_base = 16;
  vf_log_open(out);
  ovr_watchdog(60);
  ovr_log_cfg(mode, lang);
  return 0;
}
static void ovr_x_close(void) { vf_logf("{\"e\":\"end\",\"pairs\":0}"); vf_log_line_end(); vf_log_close(); }
#endif
