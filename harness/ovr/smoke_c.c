/* smoke_c.c -- C19, whole program (C): an ordinary program using stdio, getline, qsort, asprintf, open_memstream, strdup.
   Only its EXPLICIT calls are traced (what the libraries allocate internally is not); memory the C library hands to the
   program (getline / asprintf / open_memstream buffers) is released by the program with free().  No mi_ call, no mimalloc header. */
#include <stdio.h>
#include "ovr_core.h"

#define NLINES 40
static int cmp_str(const void* a, const void* b) { return strcmp(*(char* const*)a, *(char* const*)b); }
static int cmp_int(const void* a, const void* b) { int x = *(const int*)a, y = *(const int*)b; return (x > y) - (x < y); }
static int mkline(char* buf, size_t cap, int i) { return snprintf(buf, cap, "%0*d line %d of the smoke file\n", 70 - i, (i * 7919) % 1000, i); }

int main(int argc, char** argv) {
  const char* dir;
  if (ovr_x_open(argc, argv, "c", &dir) != 0) return 2;
  char path[PATH_MAX]; snprintf(path, sizeof(path), "%s/smoke_c_%d.txt", dir, (int)getpid());
  char tmp[256];
  FILE* f = fopen(path, "w");
  if (!f) return 3;
  for (int i = 0; i < NLINES; i++) { mkline(tmp, sizeof(tmp), i); fputs(tmp, f); }
  fclose(f);

  f = fopen(path, "r");
  if (!f) return 3;
  char* line = NULL; size_t cap = 0; char* arr[NLINES]; int rids[NLINES]; int nl = 0;
  int len0 = mkline(tmp, sizeof(tmp), 0);
  int rline = ovr_x_alloc_begin("getline", (size_t)len0 + 1, 0, 0);
  ssize_t k = getline(&line, &cap, f);                     /* the library allocates the buffer */
  ovr_x_alloc_end("getline", rline, line, (size_t)len0 + 1, 0, NULL);
  while (k > 0 && nl < NLINES) {
    rids[nl] = ovr_x_alloc_begin("strdup", (size_t)k + 1, 0, 0);
    arr[nl] = strdup(line);
    ovr_x_alloc_end("strdup", rids[nl], arr[nl], (size_t)k + 1, 0, line);
    nl++;
    k = getline(&line, &cap, f);                           /* lines get shorter: the buffer is not re-allocated */
  }
  fclose(f);
  qsort(arr, (size_t)nl, sizeof(char*), cmp_str);
  static int big[5000];
  for (int i = 0; i < 5000; i++) big[i] = (i * 7919) % 5003;
  qsort(big, 5000, sizeof(int), cmp_int);                  /* glibc allocates a temporary array */

  char* a = NULL;
  int want = snprintf(tmp, sizeof(tmp), "%d:%s", big[17], "asprintf result of the smoke program");
  int ra = ovr_x_alloc_begin("asprintf", (size_t)want + 1, 0, 0);
  int got = asprintf(&a, "%d:%s", big[17], "asprintf result of the smoke program");
  ovr_x_alloc_end("asprintf", ra, got >= 0 ? a : NULL, (size_t)want + 1, 0, NULL);

  char* mbuf = NULL; size_t msz = 0;
  int rm = ovr_x_alloc_begin("open_memstream", 3000, 0, 0);
  FILE* m = open_memstream(&mbuf, &msz);
  if (m) { for (int i = 0; i < 100; i++) fprintf(m, "%029d\n", i); fclose(m); }
  ovr_x_alloc_end("open_memstream", rm, m ? mbuf : NULL, 3000, 0, NULL);

  /* release everything through free(): also what the library allocated */
  void* p;
  if ((p = ovr_x_release_begin("free", rline)) != NULL) { free(p); ovr_x_release_end("free"); }
  for (int i = 0; i < nl; i++) {
    /* arr was sorted: find the block by pointer */
    for (int j = 0; j < nl; j++) if (ovr_b[rids[j]].p == arr[i]) { p = ovr_x_release_begin("free", rids[j]); free(p); ovr_x_release_end("free"); break; }
  }
  if ((p = ovr_x_release_begin("free", ra)) != NULL) { free(p); ovr_x_release_end("free"); }
  if ((p = ovr_x_release_begin("free", rm)) != NULL) { free(p); ovr_x_release_end("free"); }
  unlink(path);
  ovr_x_close();
  return 0;
}
