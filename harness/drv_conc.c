/* drv_conc.c -- concurrent driver: small multi-threaded programs executed under the deterministic scheduler
   (vf_sched.h; hook + shim build).  One forked child per execution (fresh allocator state, deterministic per seed);
   all children append to one ndjson trace, separated by {"e":"reset"} lines.
   Programs:  page  (C02 C08 C10): owner heap with one page of 7-8 blocks, blocks handed to remote threads that free them
              pc    (C08)        : producer / consumer with a bounded number of live blocks, many rounds
              exit  (C09)        : threads that exit with live blocks; others free them, allocate (reclaim), collect
   It drives and measures only. */
#include "drv_core.h"
#include "vf_sched.h"
#include <sys/wait.h>

/* ---- snapshots of the delayed-free machinery (refinement level): for every page of the observed heaps the blocks on the free,
   local-free and thread-free lists, the heap's delayed-free list, the blocks the program holds and the blocks being released right
   now -- as block indices.  Taken after hooked atomic steps (sampled) and decided by the BlockConservation guard. */
#if MI_ENCODE_FREELIST
#define SNAP_NEXT(owner, b)  mi_block_nextx(owner, b, (owner)->keys)
#else
#define SNAP_NEXT(owner, b)  mi_block_nextx(owner, b, NULL)
#endif
static int snap_heap = -1;      /* index in hps of the observed (owner) heap, -1 = snapshots off */
static int snap_rate = 3;
static long nsnaps = 0;
#define SNAP_MAXPAGES 24
static int snap_list(mi_page_t* page, mi_block_t* head, const char* name) {
  vf_logf(",\"%s\":[", name);
  int n = 0; size_t bs = mi_page_block_size(page);
  for (mi_block_t* b = head; b != NULL && n <= (int)page->capacity + 1; n++) {
    size_t idx = ((uintptr_t)b - (uintptr_t)page->page_start) / bs;
    vf_logf("%s%zu", n ? "," : "", ((uintptr_t)b >= (uintptr_t)page->page_start ? idx : 99999));
    b = SNAP_NEXT(page, b);
    if (b != NULL && !mi_is_in_same_page(page->page_start, b) && _mi_ptr_page(b) != page) { vf_logf(",99998"); break; }   /* link leaves the page */
  }
  vf_logf("]");
  return n;
}
static void emit_snap(void) {
  if (snap_heap < 0) return;
  if (!hps[snap_heap].alive) snap_heap = 0;     /* the observed heap was deleted: its pages now belong to the backing heap */
  mi_page_t* pages[SNAP_MAXPAGES]; int np = 0;
  int hidxs[2] = { snap_heap, 0 };
  for (int hh = 0; hh < 2; hh++) {
    if (hh == 1 && snap_heap == 0) break;
    if (!hps[hidxs[hh]].alive || hidxs[hh] == heap_dying) continue;
    mi_heap_t* heap = hps[hidxs[hh]].hp;
    for (size_t bin = 0; bin <= MI_BIN_FULL && np < SNAP_MAXPAGES; bin++)
      for (mi_page_t* pg = heap->pages[bin].first; pg != NULL && np < SNAP_MAXPAGES; pg = pg->next) { if (mi_page_block_size(pg) >= 64 && pg->capacity <= 1100) pages[np++] = pg; }
  }
  vf_logf("{\"e\":\"snap\",\"t\":%d,\"owner_busy\":%s,\"pages\":[", cur_t, owner_busy ? "true" : "false");
  for (int i = 0; i < np; i++) {
    mi_page_t* pg = pages[i]; size_t bs = mi_page_block_size(pg);
    vf_logf("%s{\"cap\":%u,\"used\":%u,\"flag\":%d", i ? "," : "", (unsigned)pg->capacity, (unsigned)pg->used, (int)mi_page_thread_free_flag(pg));
    snap_list(pg, pg->free, "free"); snap_list(pg, pg->local_free, "lfree"); snap_list(pg, mi_page_thread_free(pg), "tfree");
    vf_logf(",\"live\":["); int first = 1;
    for (int s = 0; s < MAXSLOTS; s++) if (slots[s].p && slots[s].id > 0 && (uintptr_t)slots[s].p >= (uintptr_t)pg->page_start && (uintptr_t)slots[s].p < (uintptr_t)pg->page_start + (size_t)pg->capacity * bs) {
      vf_logf("%s%zu", first ? "" : ",", ((uintptr_t)slots[s].p - (uintptr_t)pg->page_start) / bs); first = 0; }
    for (int h = 1; h < MAXHEAPS; h++) if (hps[h].alive && h != heap_dying && hps[h].hp && (uintptr_t)hps[h].hp >= (uintptr_t)pg->page_start && (uintptr_t)hps[h].hp < (uintptr_t)pg->page_start + (size_t)pg->capacity * bs) {
      vf_logf("%s%zu", first ? "" : ",", ((uintptr_t)hps[h].hp - (uintptr_t)pg->page_start) / bs); first = 0; }      /* heap descriptors are blocks too */
    vf_logf("],\"flight\":["); first = 1;
    for (int t = 0; t < 16; t++) if (vf_flight[t] && (uintptr_t)vf_flight[t] >= (uintptr_t)pg->page_start && (uintptr_t)vf_flight[t] < (uintptr_t)pg->page_start + (size_t)pg->capacity * bs) {
      vf_logf("%s%zu", first ? "" : ",", ((uintptr_t)vf_flight[t] - (uintptr_t)pg->page_start) / bs); first = 0; }
    vf_logf("],\"delayed\":["); first = 1;
    for (int hh = 0; hh < 2; hh++) {
      if (hh == 1 && snap_heap == 0) break;
      if (!hps[hidxs[hh]].alive || hidxs[hh] == heap_dying) continue;
      mi_heap_t* heap = hps[hidxs[hh]].hp; int guard = 0;
      for (mi_block_t* b = mi_atomic_load_ptr_relaxed(mi_block_t, &heap->thread_delayed_free); b != NULL && guard < 2000; guard++) {
        if ((uintptr_t)b >= (uintptr_t)pg->page_start && (uintptr_t)b < (uintptr_t)pg->page_start + (size_t)pg->capacity * bs) { vf_logf("%s%zu", first ? "" : ",", ((uintptr_t)b - (uintptr_t)pg->page_start) / bs); first = 0; }
        b = SNAP_NEXT(heap, b);
      }
    }
    vf_logf("]}");
  }
  vf_logf("]}"); vf_log_line_end();
  nsnaps++;
}
/* ---- step log (refinement level, StepTrace.tla): every atomic operation the allocator performs on a page's xthread_free / xheap
   word or on a heap's thread_delayed_free word, with the allocator function it belongs to, the value observed and the value
   written.  Words are recognised by address arithmetic only (segment header layout), pages and heaps get small ids on first
   sight, list heads are given as (page id, block index, remainder). */
#include <sys/mman.h>
static int conc_quiet(void) { return !vf_active; }     /* no virtual thread besides the main one is running */
static int steps_on = 0;
static long nsteps = 0;
#define STEP_MAXSEG 128
static struct { uintptr_t sg; int ok; } step_segs[STEP_MAXSEG]; static int step_nsegs = 0;
#define STEP_MAXPG 1024
static struct { uintptr_t sg; int idx; } step_pages[STEP_MAXPG]; static int step_npages = 0;
#define STEP_MAXHP 64
static uintptr_t step_heaps[STEP_MAXHP]; static int step_nheaps = 0;
static int step_seg_ok(uintptr_t sg) {     /* is there a segment header at sg?  (checked once: mapped, cookie) */
  for (int i = 0; i < step_nsegs; i++) if (step_segs[i].sg == sg) return step_segs[i].ok;
  unsigned char vec[1]; int ok = 0;
  if (sg != 0 && mincore((void*)sg, 4096, vec) == 0) { mi_segment_t* seg = (mi_segment_t*)sg; ok = (_mi_ptr_cookie(seg) == seg->cookie); }
  if (ok && step_nsegs < STEP_MAXSEG) { step_segs[step_nsegs].sg = sg; step_segs[step_nsegs].ok = ok; step_nsegs++; }   /* (only positive answers are kept: memory may become a segment later) */
  return ok;
}
static int step_pgid(uintptr_t sg, int idx) {
  for (int i = 0; i < step_npages; i++) if (step_pages[i].sg == sg && step_pages[i].idx == idx) return i + 1;
  if (step_npages >= STEP_MAXPG) return 0;
  step_pages[step_npages].sg = sg; step_pages[step_npages].idx = idx; return ++step_npages;
}
static int step_hpid(uintptr_t h) {
  if (h == 0) return 0;
  for (int i = 0; i < step_nheaps; i++) if (step_heaps[i] == h) return i + 1;
  if (step_nheaps >= STEP_MAXHP) return 0;
  step_heaps[step_nheaps] = h; return ++step_nheaps;
}
/* (page id, block index, remainder) of an address inside a page area; pg = 0: NULL, pg = -1: not inside a known page */
typedef struct { int pg; long idx; long rem; } bref_t;
static bref_t step_bref(uintptr_t p, mi_page_t* hint) {
  bref_t r = { 0, 0, 0 };
  if (p == 0) return r;
  r.pg = -1;
  mi_page_t* page = hint; uintptr_t sg = 0;
  if (page == NULL || page->page_start == NULL || p < (uintptr_t)page->page_start || p >= (uintptr_t)page->page_start + (size_t)page->reserved * mi_page_block_size(page) + 1) {
    sg = (p - 1) & ~(uintptr_t)MI_SEGMENT_MASK;
    if (!step_seg_ok(sg)) return r;
    mi_segment_t* seg = (mi_segment_t*)sg;
    size_t si = (p - sg) >> MI_SEGMENT_SLICE_SHIFT; if (si >= seg->slice_entries) si = 0;   /* (huge blocks: the first page) */
    if (seg->kind == MI_SEGMENT_HUGE) si = seg->segment_info_slices;                       /* (a huge segment has one page, right behind its header; an over-aligned pointer lies deep inside it) */
    mi_slice_t* sl = &seg->slices[si]; sl = (mi_slice_t*)((uint8_t*)sl - sl->slice_offset);
    if ((uintptr_t)sl < (uintptr_t)&seg->slices[0] || (uintptr_t)sl >= (uintptr_t)&seg->slices[MI_SLICES_PER_SEGMENT + 1]) return r;
    page = (mi_page_t*)sl;
  }
  size_t bs = mi_page_block_size(page);
  if (bs == 0 || page->page_start == NULL || p < (uintptr_t)page->page_start) return r;
  uintptr_t psg = (uintptr_t)page & ~(uintptr_t)MI_SEGMENT_MASK;
  r.pg = step_pgid(psg, (int)(((uintptr_t)page - (uintptr_t)&((mi_segment_t*)psg)->slices[0]) / sizeof(mi_slice_t)));
  r.idx = (long)((p - (uintptr_t)page->page_start) / bs); r.rem = (long)((p - (uintptr_t)page->page_start) % bs);
  return r;
}
/* ---- abandonment words (AbandonTrace.tla): a segment's thread_id, the abandoned bits of the arenas, the abandoned counters of the
   (main) sub-process.  Segments are numbered on first sight; threads by their virtual id + 1 (0 = nobody). */
#define STEP_MAXASEG 512
static uintptr_t step_asegs[STEP_MAXASEG]; static int step_nasegs = 0;
static int step_asegid(uintptr_t sg) {
  for (int i = 0; i < step_nasegs; i++) if (step_asegs[i] == sg) return i + 1;
  if (step_nasegs >= STEP_MAXASEG) return 0;
  step_asegs[step_nasegs] = sg; return ++step_nasegs;
}
#define STEP_MAXTID 32
static uintptr_t step_tids[STEP_MAXTID];      /* allocator thread id of virtual thread i (learned when the thread itself stores it) */
static int step_tidof(uintptr_t v) {
  if (v == 0) return 0;
  if (v == _mi_thread_id() && cur_t >= 0 && cur_t < STEP_MAXTID) { step_tids[cur_t] = v; return cur_t + 1; }
  for (int i = 0; i < STEP_MAXTID; i++) if (step_tids[i] == v) return i + 1;
  return 99;      /* a thread that has not stored its id itself yet */
}
static int astep_log(const char* fn, int kind, const volatile void* addr, uintptr_t oldv, uintptr_t newv, int ok) {
  uintptr_t a = (uintptr_t)addr;
  static const char* kn[] = {"?", "ld", "st", "xchg", "casw", "cass", "add", "sub", "and", "or"};
  if (kind > VF_K_OR) return 0;
  if (a == (uintptr_t)&mi_subproc_default.abandoned_count || a == (uintptr_t)&mi_subproc_default.abandoned_os_list_count) {
    if (kind != VF_K_ADD && kind != VF_K_SUB) return 1;
    vf_logf("{\"e\":\"astep\",\"t\":%d,\"f\":\"%s\",\"k\":\"%s\",\"w\":\"%s\",\"old\":%ld}", cur_t, fn, kn[kind],
            a == (uintptr_t)&mi_subproc_default.abandoned_count ? "cnt" : "oscnt", (long)oldv); vf_log_line_end();
    return 1;
  }
  /* ---- the words of the purge schedule (PurgeStepTrace.tla): the global expiry, an arena's expiry, the purge marks, the guard of
     mi_arenas_try_purge (a function-local static: recognised by the function the operation sits in) */
  if (a == (uintptr_t)&mi_arenas_purge_expire) {
    vf_logf("{\"e\":\"pstep\",\"t\":%d,\"f\":\"%s\",\"k\":\"%s\",\"w\":\"g\",\"arena\":0,\"ok\":%s,\"o\":%d,\"n\":%d,\"hit\":[]}", cur_t, fn, kn[kind], ok ? "true" : "false",
            kind == VF_K_STORE ? -1 : (oldv != 0), newv != 0); vf_log_line_end();
    return 1;
  }
  if (!strcmp(fn, "mi_arenas_try_purge") && (kind == VF_K_CASS || kind == VF_K_CASW || kind == VF_K_STORE) && newv <= 1) {
    int known = 0; size_t nn = mi_arena_get_count();
    for (size_t i = 0; i < nn; i++) { mi_arena_t* ar = mi_arena_from_index(i); if (ar != NULL && a == (uintptr_t)&ar->purge_expire) known = 1; }
    if (!known) {
      vf_logf("{\"e\":\"pstep\",\"t\":%d,\"f\":\"%s\",\"k\":\"%s\",\"w\":\"guard\",\"arena\":0,\"ok\":%s,\"o\":%d,\"n\":%d,\"hit\":[]}", cur_t, fn, kn[kind], ok ? "true" : "false",
              kind == VF_K_STORE ? -1 : (oldv != 0), newv != 0); vf_log_line_end();
      return 1;
    }
  }
  size_t na = mi_arena_get_count();
  for (size_t i = 0; i < na; i++) {
    mi_arena_t* ar = mi_arena_from_index(i);
    if (ar == NULL) continue;
    if (a == (uintptr_t)&ar->purge_expire) {
      vf_logf("{\"e\":\"pstep\",\"t\":%d,\"f\":\"%s\",\"k\":\"%s\",\"w\":\"a\",\"arena\":%d,\"ok\":%s,\"o\":%d,\"n\":%d,\"hit\":[]}", cur_t, fn, kn[kind], (int)i + 1, ok ? "true" : "false",
              kind == VF_K_STORE ? -1 : (oldv != 0), newv != 0); vf_log_line_end();
      return 1;
    }
    if (ar->blocks_purge != NULL && a >= (uintptr_t)ar->blocks_purge && a < (uintptr_t)(ar->blocks_purge + ar->field_count)) {
      if (kind != VF_K_AND && kind != VF_K_OR) return 1;
      size_t f = (a - (uintptr_t)ar->blocks_purge) / sizeof(mi_bitmap_field_t);
      uintptr_t target = (kind == VF_K_OR ? newv : ~newv);
      uintptr_t hit = (kind == VF_K_OR ? (target & ~oldv) : (target & oldv));
      vf_logf("{\"e\":\"pstep\",\"t\":%d,\"f\":\"%s\",\"k\":\"%s\",\"w\":\"pm\",\"arena\":%d,\"ok\":true,\"o\":0,\"n\":0,\"hit\":[", cur_t, fn, kn[kind], (int)i + 1);
      int first = 1;
      for (int b = 0; b < 64; b++) if (hit & ((uintptr_t)1 << b)) { vf_logf("%s%zu", first ? "" : ",", f * 64 + (size_t)b); first = 0; }
      vf_logf("]}"); vf_log_line_end();
      return 1;
    }
  }
  for (size_t i = 0; i < na; i++) {
    mi_arena_t* ar = mi_arena_from_index(i);
    if (ar == NULL || ar->blocks_abandoned == NULL) continue;
    if (a >= (uintptr_t)ar->blocks_inuse && a < (uintptr_t)(ar->blocks_inuse + ar->field_count)) {
      if (kind != VF_K_AND) return 1;        /* arena blocks given back (their segment is gone: a later segment at the same address is a new one) */
      size_t f = (a - (uintptr_t)ar->blocks_inuse) / sizeof(mi_bitmap_field_t);
      uintptr_t hit = (~newv) & oldv;
      vf_logf("{\"e\":\"astep\",\"t\":%d,\"f\":\"%s\",\"k\":\"and\",\"w\":\"free\",\"hit\":[", cur_t, fn);
      int first = 1;
      for (int b = 0; b < 64; b++) if (hit & ((uintptr_t)1 << b)) { vf_logf("%s%d", first ? "" : ",", step_asegid((uintptr_t)ar->start + (f * 64 + (size_t)b) * MI_ARENA_BLOCK_SIZE)); first = 0; }
      vf_logf("],\"miss\":[],\"key\":["); first = 1;
      for (int b = 0; b < 64; b++) if (hit & ((uintptr_t)1 << b)) { vf_logf("%s%ld", first ? "" : ",", (long)(((uintptr_t)ar->start + (f * 64 + (size_t)b) * MI_ARENA_BLOCK_SIZE) >> 25)); first = 0; }
      vf_logf("]}"); vf_log_line_end();
      return 1;
    }
    if (a >= (uintptr_t)ar->blocks_abandoned && a < (uintptr_t)(ar->blocks_abandoned + ar->field_count)) {
      if (kind != VF_K_AND && kind != VF_K_OR) return 1;       /* (loads of the cursor scan are not logged) */
      size_t f = (a - (uintptr_t)ar->blocks_abandoned) / sizeof(mi_bitmap_field_t);
      uintptr_t target = (kind == VF_K_OR ? newv : ~newv);      /* the bits the operation is about */
      uintptr_t hit = (kind == VF_K_OR ? (target & ~oldv) : (target & oldv));
      vf_logf("{\"e\":\"astep\",\"t\":%d,\"f\":\"%s\",\"k\":\"%s\",\"w\":\"ab\",\"hit\":[", cur_t, fn, kn[kind]);
      int first = 1;
      for (int b = 0; b < 64; b++) if (hit & ((uintptr_t)1 << b)) { vf_logf("%s%d", first ? "" : ",", step_asegid((uintptr_t)ar->start + (f * 64 + (size_t)b) * MI_ARENA_BLOCK_SIZE)); first = 0; }
      vf_logf("],\"miss\":["); first = 1;
      for (int b = 0; b < 64; b++) if ((target & ~hit) & ((uintptr_t)1 << b)) { vf_logf("%s%d", first ? "" : ",", step_asegid((uintptr_t)ar->start + (f * 64 + (size_t)b) * MI_ARENA_BLOCK_SIZE)); first = 0; }
      vf_logf("],\"key\":["); first = 1;     /* address of the segments in `hit` in units of 32 MiB (to relate OS calls to them) */
      for (int b = 0; b < 64; b++) if (hit & ((uintptr_t)1 << b)) { vf_logf("%s%ld", first ? "" : ",", (long)(((uintptr_t)ar->start + (f * 64 + (size_t)b) * MI_ARENA_BLOCK_SIZE) >> 25)); first = 0; }
      vf_logf("]}"); vf_log_line_end();
      return 1;
    }
  }
  uintptr_t sg = a & ~(uintptr_t)MI_SEGMENT_MASK;
  if (a - sg == offsetof(mi_segment_t, thread_id) && (kind == VF_K_STORE || kind == VF_K_LOAD || kind == VF_K_CASS || kind == VF_K_CASW) && step_seg_ok(sg)) {
    if (kind == VF_K_LOAD) return 1;
    mi_segment_t* seg = (mi_segment_t*)sg;
    vf_logf("{\"e\":\"astep\",\"t\":%d,\"f\":\"%s\",\"k\":\"%s\",\"w\":\"tid\",\"seg\":%d,\"key\":[%ld],\"arena\":%s,\"ok\":%s,\"o\":%d,\"n\":%d}", cur_t, fn, kn[kind], step_asegid(sg), (long)(sg >> 25),
            seg->memid.memkind == MI_MEM_ARENA ? "true" : "false", ok ? "true" : "false", kind == VF_K_STORE ? -1 : step_tidof(oldv), step_tidof(newv)); vf_log_line_end();
    return 1;
  }
  return 0;
}
static void step_log(const char* fn, int kind, const volatile void* addr, uintptr_t oldv, uintptr_t newv, int ok) {
  uintptr_t a = (uintptr_t)addr;
  const char* w = NULL; int id = 0; mi_page_t* page = NULL;
  if (astep_log(fn, kind, addr, oldv, newv, ok)) return;
  if (kind > VF_K_CASS) return;
  for (int i = 0; i < step_nheaps && w == NULL; i++) if (a == step_heaps[i] + offsetof(mi_heap_t, thread_delayed_free)) { w = "dh"; id = i + 1; }
  if (w == NULL) {
    uintptr_t sg = a & ~(uintptr_t)MI_SEGMENT_MASK; size_t off = a - sg;
    if (off < offsetof(mi_segment_t, slices) || off >= sizeof(mi_segment_t)) return;
    size_t fo = (off - offsetof(mi_segment_t, slices)) % sizeof(mi_slice_t);
    if (fo != offsetof(mi_page_t, xthread_free) && fo != offsetof(mi_page_t, xheap)) return;
    if (!step_seg_ok(sg)) return;
    int idx = (int)((off - offsetof(mi_segment_t, slices)) / sizeof(mi_slice_t));
    page = (mi_page_t*)&((mi_segment_t*)sg)->slices[idx];
    w = (fo == offsetof(mi_page_t, xthread_free) ? "xtf" : "xheap"); id = step_pgid(sg, idx);
  }
  static const char* kn[] = {"?", "ld", "st", "xchg", "casw", "cass", "add", "sub", "and", "or", "yield", "lock", "unlock"};
  vf_logf("{\"e\":\"step\",\"t\":%d,\"f\":\"%s\",\"k\":\"%s\",\"w\":\"%s\",\"id\":%d,\"ok\":%s", cur_t, fn, kn[kind < 13 ? kind : 0], w, id, ok ? "true" : "false");
  if (w[0] == 'x' && w[1] == 't') {
    bref_t o = step_bref(oldv & ~(uintptr_t)3, page), n = step_bref(newv & ~(uintptr_t)3, page);
    vf_logf(",\"o\":[%d,%d,%ld,%ld],\"n\":[%d,%d,%ld,%ld]", (int)(oldv & 3), o.pg, o.idx, o.rem, (int)(newv & 3), n.pg, n.idx, n.rem);
  }
  else if (w[0] == 'd') {
    bref_t o = step_bref(oldv, NULL), n = step_bref(newv, NULL);
    vf_logf(",\"o\":[0,%d,%ld,%ld],\"n\":[0,%d,%ld,%ld]", o.pg, o.idx, o.rem, n.pg, n.idx, n.rem);
  }
  else {
    int ho = step_hpid(oldv), hn = step_hpid(newv);
    vf_logf(",\"o\":[%d,0,0,0],\"n\":[%d,0,0,0]", ho, hn);
  }
  void* fp = (cur_t >= 0 && cur_t < 16) ? vf_flight[cur_t] : NULL;
  bref_t f = step_bref((uintptr_t)fp, NULL);
  vf_logf(",\"fl\":[%d,%ld]}", fp ? f.pg : 0, f.idx); vf_log_line_end();
  nsteps++;
}
static int park_k = 0;      /* --park K: a thread that has just set DELAYED_FREEING is (sometimes) not scheduled for the next K yields of the others */
static void vf_trace_step(const char* fn, int kind, const volatile void* addr, uintptr_t oldv, uintptr_t newv, int ok) {
  if (park_k > 0 && kind == VF_K_CASW && ok && (newv & 3) == MI_DELAYED_FREEING && (oldv & 3) == MI_USE_DELAYED_FREE && vf_park_left == 0
      && fn[0] == 'm' && !strcmp(fn, "mi_free_block_delayed_mt") && (vf_srand() % 2) == 0) { vf_park_tid = vf_self; vf_park_left = park_k; }
  if (steps_on && kind >= VF_K_LOAD && kind <= VF_K_OR) { vf_in_hook = 1; int saved = vf_in_call; vf_in_call = 0; step_log(fn, kind, addr, oldv, newv, ok); vf_in_call = saved; vf_in_hook = 0; }
  if (snap_heap < 0 || kind == VF_K_LOAD) return;
  if ((vf_srand() % (uint64_t)snap_rate) != 0) return;
  vf_in_hook = 1; int saved = vf_in_call; vf_in_call = 0;
  emit_snap();
  vf_in_call = saved; vf_in_hook = 0;
}

typedef struct { int t; int heapid; int give[64]; int ngive; int own_allocs; size_t own_lo, own_hi; int exit_with_live; int collect; } role_t;
static role_t roles[VF_MAXT];
static int snapshots_on = 0;
static int exit_aligned = 0;
static int exit_ownfree = 0;
static int page_aligned = 0;     /* program page-aligned: two thirds of the blocks of the contended page are over-aligned (interior pointers) */
static int page_alloc(int hi, size_t n) {
  static const size_t als[] = {32, 64, 64, 128, 256};
  if (page_aligned && vf_randn(3) != 0) return op_alloc_ex(hi >= 0 ? A_heap_malloc_aligned : A_malloc_aligned, n, als[vf_randn(5)], 0, hi >= 0 ? hi : 0, 0);
  return op_alloc_ex(hi >= 0 ? A_heap_malloc : A_malloc, n, 0, 0, hi >= 0 ? hi : 0, 0);
}
static size_t blk_lo = 8000, blk_hi = 8192;
static int page_nblk = 0;        /* program page-huge: a few single-block (huge) pages instead of one page of 7-9 blocks */

static void visit_expect_clean(int hidx) {
  /* like op_visit, with n = 1: the heap is expected to hold no page areas if the model says it has no live block */
  ret_t r; memset(&r, 0, sizeof(r));
  visit_t v; memset(&v, 0, sizeof(v)); v.first = 1; v.afirst = 1; v.stopat = 0;
  vlen = 0; alen = 0; bufcat(&vbuf, &vlen, &vcap, ""); bufcat(&abuf, &alen, &acap, "");
  log_call_begin("visit", hps[hidx].id, 0, 1, 0, 0, 0, "ok", 0, 0); log_obs(-1, -1, 0); log_call_end();
  r.res = mi_heap_visit_blocks(hps[hidx].hp, true, visitor, &v);
  r.nvisited = v.count; r.h = hps[hidx].id;
  log_ret_begin("visit", &r);
  vf_logf(",\"after\":%ld,\"nareas\":%ld,\"blocks\":[", v.after, v.areas); vf_log_raw(vbuf, vlen); vf_logf("],\"areas\":["); vf_log_raw(abuf, alen); vf_logf("]");
  log_obs(-1, -1, 0); log_ret_end();
}

/* a remote thread: frees the blocks it was given (checking their contents first), allocates and frees blocks of its own */
static void* remote_main(void* arg) {
  role_t* r = (role_t*)arg;
  cur_t = r->t; cur_theap = r->heapid; vf_cur_thread = r->t;
  vf_logf("{\"e\":\"tstart\",\"t\":%d,\"h\":%d}", r->t, r->heapid); vf_log_line_end();
  vf_point();
  int own[8], nown = 0;
  for (int i = 0; i < r->ngive; i++) {
    int s = r->give[i];
    if (s >= 0 && slots[s].p) op_free_slot(s, FR_free);
    vf_point();
    if (r->own_allocs > 0 && nown < 8 && (vf_randn(2) == 0)) {
      int ns_ = page_alloc(-1, r->own_lo + (size_t)vf_randn(r->own_hi - r->own_lo + 1)); if (ns_ >= 0) { own[nown++] = ns_; }r->own_allocs--;
    }
    if (nown > 0 && vf_randn(2) == 0) { int s2 = own[--nown]; if (slots[s2].p) op_free_slot(s2, FR_free); }
  }
  if (r->collect) { do_collect(0); }
  if (!r->exit_with_live) { while (nown > 0) { int s2 = own[--nown]; if (slots[s2].p) op_free_slot(s2, FR_free); } }
  vf_logf("{\"e\":\"tdone\",\"t\":%d}", r->t); vf_log_line_end();   /* logged first: the thread's heap descriptors are released inside mi_thread_done */
  vf_in_call = 1; mi_thread_done(); vf_in_call = 0;
  return NULL;
}

/* ---- program "page": C02 / C08 / C10 */
static void prog_page(int nremote, int owner_ops, int variant /* 0 plain, 1 heap_delete in the middle, 2 heap_collect storms */, int use_user_heap) {
  int hi = 0;
  if (use_user_heap) { heap_new_op(); for (hi = 1; hi < MAXHEAPS && !hps[hi].alive; hi++) { } if (hi >= MAXHEAPS) hi = 0; }
  /* fill one page (and a bit) of the owner heap */
  int nblk = page_nblk ? page_nblk : 7 + (int)vf_randn(3);
  int mine[64], nm = 0;
  if (page_aligned) nblk += 6;
  for (int i = 0; i < nblk; i++) { int ns_ = page_alloc(hi, blk_lo + (size_t)vf_randn(blk_hi - blk_lo + 1)); if (ns_ >= 0) { mine[nm++] = ns_; } }
  /* hand blocks to the remotes */
  for (int k = 0; k < nremote; k++) {
    role_t* r = &roles[k + 1]; memset(r, 0, sizeof(*r));
    r->t = k + 1; r->heapid = next_heap_id++; r->own_allocs = (int)vf_randn(3); r->own_lo = blk_lo; r->own_hi = blk_hi; r->collect = (int)vf_randn(2);
    int g = 1 + (int)vf_randn(3);
    while (g-- > 0 && nm > 0) { int j = (int)vf_randn((uint64_t)nm); r->give[r->ngive++] = mine[j]; mine[j] = mine[--nm]; }
  }
  for (int k = 0; k < nremote; k++) vf_spawn(remote_main, &roles[k + 1]);
  if (snapshots_on) snap_heap = hi;
  vf_sched_go();
  /* the owner: malloc / free / collect (and heap delete) racing with the remote frees */
  int deleted = 0;
  for (int i = 0; i < owner_ops; i++) {
    vf_point();
    int c = (int)vf_randn(10);
    if (variant == 1 && !deleted && hi > 0 && i == owner_ops / 2) { heap_delete_op(hi); deleted = 1; hi = 0; continue; }
    if (c < 4) { int ns_ = page_alloc(hi, blk_lo + (size_t)vf_randn(blk_hi - blk_lo + 1)); if (ns_ >= 0 && nm < 64) { mine[nm++] = ns_; } }
    else if (c < 7 && nm > 0) { int j = (int)vf_randn((uint64_t)nm); int s = mine[j]; mine[j] = mine[--nm]; if (slots[s].p) op_free_slot(s, FR_free); }
    else if (c < 9 || variant == 2) {
      ret_t r; memset(&r, 0, sizeof(r)); int force = (int)vf_randn(2);
      log_call_begin("heap_collect", hps[hi].id, 0, force, 0, 0, 0, "ok", 0, 0); log_obs(-1, -1, 1); log_call_end();
      mi_heap_collect(hps[hi].hp, force);
      log_ret_begin("heap_collect", &r); log_obs(-1, -1, 2); log_ret_end();
    }
    else { op_write(); }
  }
  vf_wait_all();
  if (snap_heap >= 0) { vf_in_hook = 1; emit_snap(); vf_in_hook = 0; snap_heap = -1; }
  /* quiescence: everything is freed by whoever, the owner collects: the heap holds no live pages (C08) */
  for (int s = 0; s < MAXSLOTS; s++) if (slots[s].p) op_free_slot(s, FR_free);
  { ret_t r; memset(&r, 0, sizeof(r));
    log_call_begin("heap_collect", hps[hi].id, 0, 1, 0, 0, 0, "ok", 0, 0); log_obs(-1, -1, 0); log_call_end();
    mi_heap_collect(hps[hi].hp, true);
    log_ret_begin("heap_collect", &r); log_obs(-1, -1, 0); log_ret_end(); }
  if (hi > 0) visit_expect_clean(hi);
  else { op_visit(0, 0); }
}

/* ---- program "pc": producer (main) / consumers; bounded live blocks; `rounds` rounds; reports the number of page areas per round */
static volatile int pc_box[8]; static volatile int pc_nbox = 0; static volatile int pc_stop = 0;
static void* consumer_main(void* arg) {
  role_t* r = (role_t*)arg;
  cur_t = r->t; cur_theap = r->heapid; vf_cur_thread = r->t;
  vf_logf("{\"e\":\"tstart\",\"t\":%d,\"h\":%d}", r->t, r->heapid); vf_log_line_end();
  while (!pc_stop || pc_nbox > 0) {
    if (pc_nbox > 0) { int s = pc_box[--pc_nbox]; if (slots[s].p) op_free_slot(s, FR_free); }
    else vf_hook_yield();
    vf_point();
  }
  vf_logf("{\"e\":\"tdone\",\"t\":%d}", r->t); vf_log_line_end();   /* logged first: the thread's heap descriptors are released inside mi_thread_done */
  vf_in_call = 1; mi_thread_done(); vf_in_call = 0;
  return NULL;
}
static long count_areas(mi_heap_t* h) { areas_t v; v.count = 0; v.first = 1; int saved = vf_log_enabled; vf_log_enabled = 0; mi_heap_visit_blocks(h, false, areas_visitor, &v); vf_log_enabled = saved; return v.count; }
static void prog_pc(int nconsumers, int rounds, size_t lo, size_t hi_) {
  for (int k = 0; k < nconsumers; k++) { role_t* r = &roles[k + 1]; memset(r, 0, sizeof(*r)); r->t = k + 1; r->heapid = next_heap_id++; vf_spawn(consumer_main, r); }
  vf_sched_go();
  for (int i = 1; i <= rounds; i++) {
    while (pc_nbox >= 6) { vf_hook_yield(); }
    int ns_ = op_alloc_ex(A_malloc, lo + (size_t)vf_randn(hi_ - lo + 1), 0, 0, 0, 0); if (ns_ >= 0) { pc_box[pc_nbox++] = ns_; }
    vf_point();
    long areas = count_areas(hps[0].hp);
    vf_logf("{\"e\":\"round\",\"k\":%d,\"n\":%d,\"areas\":%ld,\"mapped\":%ld}", i, rounds, areas, statm_pages(0)); vf_log_line_end();
    if (i % 120 == 60) { heap_dump_owner = 1; emit_heaps(); emit_heaps(); heap_dump_owner = 0; }    /* the producer's page queues (it is the owner; consumers only push remote frees) */
  }
  pc_stop = 1;
  vf_wait_all();
  for (int s = 0; s < MAXSLOTS; s++) if (slots[s].p) op_free_slot(s, FR_free);
}

/* ---- program "exit": C09 */
static void* exiter_main(void* arg) {
  role_t* r = (role_t*)arg;
  cur_t = r->t; cur_theap = r->heapid; vf_cur_thread = r->t;
  vf_logf("{\"e\":\"tstart\",\"t\":%d,\"h\":%d}", r->t, r->heapid); vf_log_line_end();
  vf_point();
  int n = 3 + (int)vf_randn(6);
  for (int i = 0; i < n; i++) {
    if (exit_aligned && vf_randn(3) != 0) {   /* over-aligned blocks: interior pointers that must stay valid after this thread is gone (C03) */
      static const size_t als[] = {32, 64, 256, 256, 1024, 4096};
      op_alloc_ex(vf_randn(2) ? A_malloc_aligned : A_zalloc_aligned, 20 + (size_t)vf_randn(400), als[vf_randn(6)], 0, 0, 0);
    }
    else op_alloc_ex(vf_randn(3) ? A_malloc : A_zalloc, r->own_lo + (size_t)vf_randn(r->own_hi - r->own_lo + 1), 0, 0, 0, 0);
    vf_point();
  }
  /* free some of its own blocks and some foreign ones, leave the rest behind */
  for (int i = 0; i < 4; i++) { int s = pick_live(); if (s >= 0 && vf_randn(2) == 0) op_free_slot(s, FR_free); vf_point(); }
  /* --ownfree: also about half of the blocks it allocated itself (whole pages become free: purges are pending when the thread exits) */
  if (exit_ownfree) for (int s = 0; s < MAXSLOTS; s++) if (slots[s].p && slots[s].heap == r->heapid && vf_randn(2) == 0) { op_free_slot(s, FR_free); vf_point(); }
  if (r->collect) do_collect((int)vf_randn(2));
  vf_logf("{\"e\":\"tdone\",\"t\":%d}", r->t); vf_log_line_end();   /* logged first: the thread's heap descriptors are released inside mi_thread_done */
  vf_in_call = 1; mi_thread_done(); vf_in_call = 0;
  return NULL;
}
static void prog_exit(int nthreads, int main_ops, size_t lo, size_t hi_) {
  for (int k = 0; k < nthreads; k++) { role_t* r = &roles[k + 1]; memset(r, 0, sizeof(*r)); r->t = k + 1; r->heapid = next_heap_id++; r->own_lo = lo; r->own_hi = hi_; r->collect = (int)vf_randn(2); vf_spawn(exiter_main, r); }
  vf_sched_go();
  for (int i = 0; i < main_ops; i++) {
    vf_point();
    int c = (int)vf_randn(10);
    if (c < 4) { op_alloc_ex(A_malloc, lo + (size_t)vf_randn(hi_ - lo + 1), 0, 0, 0, 0); }       /* may reclaim abandoned segments */
    else if (c < 8) { int s = pick_live(); if (s >= 0) op_free_slot(s, FR_free); }               /* may free into an abandoned segment */
    else if (c < 9) { do_collect((int)vf_randn(2)); }
    else { op_write(); }
    if (exit_aligned && vf_randn(2)) {     /* the interior pointer is queried like any other pointer */
      int s = pick_live();
      if (s >= 0) { ret_t r; memset(&r, 0, sizeof(r)); slots[s].pin++; log_call_begin("usable_size", 0, slots[s].id, 0, 0, 0, 0, "ok", 0, 0); log_obs(-1, -1, 0); log_call_end();
                    r.us = mi_usable_size(slots[s].p); vf_in_call = 0; slots[s].pin--; log_ret_begin("usable_size", &r); log_obs(-1, -1, 0); log_ret_end(); }
    }
  }
  vf_wait_all();
  op_checkall();
  if (exit_aligned) {   /* every block left behind: usable size unchanged, expand within it, then freed by the main thread */
    for (int s = 0; s < MAXSLOTS; s++) if (slots[s].p) {
      ret_t r; memset(&r, 0, sizeof(r)); log_call_begin("usable_size", 0, slots[s].id, 0, 0, 0, 0, "ok", 0, 0); log_obs(-1, -1, 0); log_call_end();
      r.us = mi_usable_size(slots[s].p); vf_in_call = 0; log_ret_begin("usable_size", &r); log_obs(-1, -1, 0); log_ret_end();
    }
    for (int i = 0; i < 12; i++) op_alloc_ex(A_malloc_aligned, 20 + (size_t)vf_randn(400), 256, 0, 0, 0);   /* reuse of freed slots next to live neighbours */
  }
  for (int s = 0; s < MAXSLOTS; s++) if (slots[s].p) op_free_slot(s, FR_free);
  do_collect(1);
  ev_quiesce(2);      /* born >= 2 semantics are not used here: only DirtyAllReleased / QuiesceNoLive apply meaningfully */
}

/* ---- program "arena": C14 (and the adoption part of C15): threads with heaps bound to one shared managed arena allocate and
   free segment-sized and multi-block huge objects while another thread triggers purges; at the end the arena must be
   completely allocatable again */
static int arena_idx = -1;
static const size_t arena_sizes[] = { 20u << 20, 20u << 20, 40u << 20, 70u << 20, 130u << 20, 1u << 20, 200000 };
static void* arena_worker(void* arg) {
  role_t* r = (role_t*)arg;
  cur_t = r->t; cur_theap = r->heapid; vf_cur_thread = r->t;
  vf_logf("{\"e\":\"tstart\",\"t\":%d,\"h\":%d}", r->t, r->heapid); vf_log_line_end();
  vf_point();
  int hi = heap_new_in_arena_op(arena_idx);
  int own[8], nown = 0;
  if (hi >= 0) {
    for (int i = 0; i < r->own_allocs; i++) {
      int ns_ = op_alloc_ex(vf_randn(4) == 0 ? A_heap_zalloc : A_heap_malloc, arena_sizes[vf_randn(sizeof(arena_sizes) / sizeof(size_t))] + vf_randn(4096), 0, 0, hi, 0); if (ns_ >= 0 && nown < 8) { own[nown++] = ns_; }vf_point();
      if (nown > 0 && vf_randn(2) == 0) { int j = (int)vf_randn((uint64_t)nown); int s2 = own[j]; own[j] = own[--nown]; if (slots[s2].p) op_free_slot(s2, FR_free); }
    }
    if (!r->exit_with_live) while (nown > 0) { int s2 = own[--nown]; if (slots[s2].p) op_free_slot(s2, FR_free); vf_point(); }
    /* either delete the heap explicitly (blocks left behind migrate to the thread's backing heap; the model then stops treating the
       arena as private) or let mi_thread_done release it: the arena stays private and adoption of the abandoned segments by
       unbound heaps must not hand its memory out (C15) */
    if (r->collect) heap_delete_op(hi); else { hps[hi].alive = 0; hps[hi].descid = 0; }
  }
  vf_logf("{\"e\":\"tdone\",\"t\":%d}", r->t); vf_log_line_end();   /* logged first: the thread's heap descriptors are released inside mi_thread_done */
  vf_in_call = 1; mi_thread_done(); vf_in_call = 0;
  return NULL;
}
static void* purger_main(void* arg) {
  role_t* r = (role_t*)arg;
  cur_t = r->t; cur_theap = r->heapid; vf_cur_thread = r->t;
  vf_logf("{\"e\":\"tstart\",\"t\":%d,\"h\":%d}", r->t, r->heapid); vf_log_line_end();
  for (int i = 0; i < 6; i++) { vf_point(); vf_clock_advance(60 + (long)vf_randn(200)); do_collect((int)vf_randn(3) == 0); }
  vf_logf("{\"e\":\"tdone\",\"t\":%d}", r->t); vf_log_line_end();   /* logged first: the thread's heap descriptors are released inside mi_thread_done */
  vf_in_call = 1; mi_thread_done(); vf_in_call = 0;
  return NULL;
}
typedef struct { int first; uintptr_t a0; size_t nblocks; unsigned char hit[256]; } ablk_t;
static bool ablk_visitor(const mi_heap_t* heap, const mi_heap_area_t* area, void* block, size_t bsize, void* arg) {
  ablk_t* v = (ablk_t*)arg; (void)heap; (void)bsize;
  if (block != NULL) return true;
  uintptr_t x = (uintptr_t)area->blocks;
  if (x >= v->a0 && x < v->a0 + v->nblocks * MI_ARENA_BLOCK_SIZE) { size_t i0 = (x - v->a0) / MI_ARENA_BLOCK_SIZE, i1 = (x + area->reserved - 1 - v->a0) / MI_ARENA_BLOCK_SIZE; for (size_t i = i0; i <= i1 && i < 256; i++) v->hit[i] = 1; }
  return true;
}
static void prog_arena(int nworkers) {
  max_fill = 8192;
  arena_idx = arena_setup((size_t)10 * (32u << 20) + 12345, 4096 * 5, 1);
  if (arena_idx < 0) return;
  int hm = heap_new_in_arena_op(arena_idx);
  for (int k = 0; k < nworkers; k++) { role_t* r = &roles[k + 1]; memset(r, 0, sizeof(*r)); r->t = k + 1; r->heapid = next_heap_id++; r->own_allocs = 2 + (int)vf_randn(3); r->exit_with_live = (int)vf_randn(3) == 0; r->collect = (int)vf_randn(4) == 0; vf_spawn(arena_worker, r); }
  { role_t* r = &roles[nworkers + 1]; memset(r, 0, sizeof(*r)); r->t = nworkers + 1; r->heapid = next_heap_id++; vf_spawn(purger_main, r); }
  vf_sched_go();
  for (int i = 0; i < 6 && hm >= 0; i++) {
    vf_point();
    if (vf_randn(2)) op_alloc_ex(A_heap_malloc, arena_sizes[vf_randn(sizeof(arena_sizes) / sizeof(size_t))], 0, 0, hm, 0);
    else { int s = pick_live(); if (s >= 0) op_free_slot(s, FR_free); }
    if (vf_randn(3) == 0) op_alloc_ex(A_malloc, 100 + vf_randn(100000), 0, 0, 0, 0);     /* default heap: must stay outside the exclusive arena */
  }
  vf_wait_all();
  op_checkall();
  /* adoption: the exited threads may have left blocks of their bound heaps behind (abandoned segments inside the exclusive arena);
     a forced collect of the (unbound) main heap reclaims abandoned segments; its later allocations of the same size classes must
     still come from outside the exclusive arena */
  do_collect(1);
  for (int i = 0; i < 6; i++) op_alloc_ex(A_malloc, (i % 2 ? 200000 : (1u << 20)) + vf_randn(4096), 0, 0, 0, 0);
  op_checkall();
  for (int s = 0; s < MAXSLOTS; s++) if (slots[s].p) op_free_slot(s, FR_free);
  do_collect(1);
  vf_clock_advance(5000); do_collect(1);
  if (hm >= 0) {   /* mi_collect only collects the default heap: blocks of the bound heap freed by other threads are still pending there */
    ret_t r; memset(&r, 0, sizeof(r));
    log_call_begin("heap_collect", hps[hm].id, 0, 1, 0, 0, 0, "ok", 0, 0); log_obs(-1, -1, 0); log_call_end();
    mi_heap_collect(hps[hm].hp, true);
    log_ret_begin("heap_collect", &r); log_obs(-1, -1, 0); log_ret_end();
  }
  /* measure: which arena blocks are still in use, which of them hold a page area of an existing heap; then refill with 1-block objects */
  mi_arena_t* arena = mi_arena_from_index(mi_arena_id_index(ars[arena_idx].aid));
  size_t nblocks = arena->block_count;
  ablk_t v; memset(&v, 0, sizeof(v)); v.a0 = (uintptr_t)arena->start; v.nblocks = nblocks;
  int saved = vf_log_enabled; vf_log_enabled = 0;
  for (int i = 0; i < MAXHEAPS; i++) if (hps[i].alive && hps[i].hp != NULL && (i == 0 || i == hm)) mi_heap_visit_blocks(hps[i].hp, false, ablk_visitor, &v);
  vf_log_enabled = saved;
  vf_logf("{\"e\":\"refill\",\"blocks\":%zu,\"inuse\":[", nblocks);
  int first = 1;
  for (size_t i = 0; i < nblocks; i++) if (_mi_bitmap_is_claimed(arena->blocks_inuse, arena->field_count, 1, mi_bitmap_index_create(i / 64, i % 64))) { vf_logf("%s%zu", first ? "" : ",", i); first = 0; }
  vf_logf("],\"areas\":["); first = 1;
  for (size_t i = 0; i < nblocks && i < 256; i++) if (v.hit[i]) { vf_logf("%s%zu", first ? "" : ",", i); first = 0; }
  int got = 0;
  vf_log_enabled = 0;
  void* ps[64];
  while (got < 64 && hm >= 0) { void* p = mi_heap_malloc(hps[hm].hp, 20u << 20); if (!p) break; ps[got++] = p; }
  for (int i = 0; i < got; i++) mi_free(ps[i]);
  vf_log_enabled = saved;
  vf_logf("],\"got\":%d}", got); vf_log_line_end();
}

/* ---- program "adopt" (C15, adoption): threads leave partly used small/medium pages behind, some in an exclusive arena (bound heap),
   some in ordinary memory (default heap).  The main thread then needs fresh segments many times -- every such request visits the
   abandoned segments again -- first with its unbound default heap, then with a heap bound to the arena, and allocates in the
   size classes that were left behind: unbound allocations must stay outside the exclusive arena, bound ones inside. */
static const size_t adopt_sizes[] = { 64, 64, 1000, 1000, 20000, 100000 };
static void* adopt_worker(void* arg) {
  role_t* r = (role_t*)arg;
  cur_t = r->t; cur_theap = r->heapid; vf_cur_thread = r->t;
  vf_logf("{\"e\":\"tstart\",\"t\":%d,\"h\":%d}", r->t, r->heapid); vf_log_line_end();
  vf_point();
  int hi = r->collect ? heap_new_in_arena_op(arena_idx) : -1;     /* collect: this worker uses a heap bound to the exclusive arena */
  int own[48], nown = 0;
  if (!r->collect || hi >= 0) {
    int n = 12 + (int)vf_randn(30);
    for (int i = 0; i < n; i++) {
      size_t sz = adopt_sizes[vf_randn(sizeof(adopt_sizes) / sizeof(size_t))];
      int ns_ = r->collect ? op_alloc_ex(A_heap_malloc, sz, 0, 0, hi, 0) : op_alloc_ex(A_malloc, sz, 0, 0, 0, 0);
      if (ns_ >= 0 && nown < 48) own[nown++] = ns_;
      if (vf_randn(4) == 0) vf_point();
    }
    for (int i = 0; i < nown; i++) if (vf_randn(3) == 0 && slots[own[i]].p) op_free_slot(own[i], FR_free);   /* holes: pages with free blocks */
    if (hi >= 0) { hps[hi].alive = 0; hps[hi].descid = 0; }     /* released by mi_thread_done; the arena stays private */
  }
  vf_logf("{\"e\":\"tdone\",\"t\":%d}", r->t); vf_log_line_end();
  vf_in_call = 1; mi_thread_done(); vf_in_call = 0;
  return NULL;
}
static void adopt_phase(int bound, int hb) {
  /* frees of blocks left behind come first (with reclaim on free they adopt the block's segment into the default heap -- if it may use it) */
  if (!bound) for (int i = 0; i < 4; i++) { int f = pick_live(); if (f >= 0) op_free_slot(f, FR_free); }
  /* fresh segments: large (12 MiB) pages, two per segment; every fresh segment request first tries to reclaim abandoned segments */
  int big[12], nbig = 0;
  int nfresh = 8 + (int)vf_randn(5);
  for (int i = 0; i < nfresh; i++) {
    int s = bound ? op_alloc_ex(A_heap_malloc, (12u << 20) + vf_randn(4096), 0, 0, hb, 0) : op_alloc_ex(A_malloc, (12u << 20) + vf_randn(4096), 0, 0, 0, 0);
    if (s >= 0 && nbig < 12) big[nbig++] = s;
    if (nbig > 4 && vf_randn(2) == 0) { int j = (int)vf_randn((uint64_t)nbig); int s2 = big[j]; big[j] = big[--nbig]; if (slots[s2].p) op_free_slot(s2, FR_free); }
  }
  for (size_t k = 0; k < sizeof(adopt_sizes) / sizeof(size_t); k++) {
    int n = adopt_sizes[k] <= 1000 ? 40 : 6;
    for (int i = 0; i < n; i++) { if (bound) op_alloc_ex(A_heap_malloc, adopt_sizes[k], 0, 0, hb, 0); else op_alloc_ex(A_malloc, adopt_sizes[k], 0, 0, 0, 0); }
  }
  op_checkall();
  while (nbig > 0) { int s2 = big[--nbig]; if (slots[s2].p) op_free_slot(s2, FR_free); }
}
static void prog_adopt(int nworkers) {
  max_fill = 4096;
  arena_idx = arena_setup((size_t)12 * (32u << 20) + 12345, 4096 * 3, 1);
  if (arena_idx < 0) return;
  int hb = heap_new_in_arena_op(arena_idx);
  for (int k = 0; k < nworkers; k++) { role_t* r = &roles[k + 1]; memset(r, 0, sizeof(*r)); r->t = k + 1; r->heapid = next_heap_id++; r->collect = (k % 2 == 0); vf_spawn(adopt_worker, r); }
  vf_sched_go();
  vf_wait_all();
  op_checkall();
  /* a forced collect of the main thread adopts abandoned segments wholesale (mi_collect(true) -> _mi_abandoned_reclaim_all) */
  if (vf_randn(2)) do_collect(1);
  int order = (int)vf_randn(2);
  for (int ph = 0; ph < 2; ph++) { int bound = (ph ^ order); if (!bound || hb >= 0) adopt_phase(bound, hb); }
  for (int s = 0; s < MAXSLOTS; s++) if (slots[s].p) op_free_slot(s, FR_free);
  do_collect(1);
}

/* ---- program "exit-heap" (C09 x C10): threads exit with live blocks; the main thread then works with a first-class heap of its own
   -- fresh-segment requests (each visits the abandoned segments), allocations in the size classes left behind, with reclaim on free
   also frees of foreign blocks while that heap is the default -- and destroys (or deletes) it: the blocks of the exited threads are
   not blocks of that heap, they must survive with their contents and must not be attributed to it. */
static void prog_exit_heap(int nthreads) {
  max_fill = 8192;
  static const size_t szs[] = {64, 64, 200, 1000, 5000, 20000};
  for (int i = 0; i < 20; i++) op_alloc_ex(A_malloc, szs[vf_randn(6)], 0, 0, 0, 0);      /* the main thread has segments of its own */
  heap_new_op(); int hi = 1; while (hi < MAXHEAPS && !hps[hi].alive) hi++;
  if (hi >= MAXHEAPS) return;
  op_alloc_ex(A_heap_malloc, 100, 0, 0, hi, 0);
  for (int k = 0; k < nthreads; k++) { role_t* r = &roles[k + 1]; memset(r, 0, sizeof(*r)); r->t = k + 1; r->heapid = next_heap_id++; r->collect = 0; vf_spawn(adopt_worker, r); }
  vf_sched_go();
  vf_wait_all();
  op_checkall();
  int as_default = (int)vf_randn(2);
  if (as_default) heap_set_default_op(hi);
  int big[12], nbig = 0;
  int nfresh = 6 + (int)vf_randn(6);
  for (int i = 0; i < nfresh; i++) {
    int s = op_alloc_ex(A_heap_malloc, (12u << 20) + vf_randn(4096), 0, 0, hi, 0);
    if (s >= 0 && nbig < 12) big[nbig++] = s;
    if (vf_randn(3) == 0) { int f = pick_live(); if (f >= 0 && slots[f].heap != hps[hi].id) op_free_slot(f, FR_free); }     /* (reclaim on free: into the default heap) */
  }
  for (size_t k = 0; k < sizeof(adopt_sizes) / sizeof(size_t); k++)
    for (int i = 0; i < (adopt_sizes[k] <= 1000 ? 30 : 5); i++) op_alloc_ex(A_heap_malloc, adopt_sizes[k], 0, 0, hi, 0);
  /* whose blocks are they? */
  for (int q = 0; q < 12; q++) {
    int s = pick_live(); if (s < 0) break;
    ret_t r; memset(&r, 0, sizeof(r)); slots[s].pin++;
    log_call_begin("heap_contains_block", hps[hi].id, slots[s].id, 0, 0, 0, 0, "ok", 0, 0); log_obs(-1, -1, 0); log_call_end();
    r.res = mi_heap_contains_block(hps[hi].hp, slots[s].p); vf_in_call = 0; slots[s].pin--;
    log_ret_begin("heap_contains_block", &r); log_obs(-1, -1, 0); log_ret_end();
  }
  op_checkall();
  if (vf_randn(3) != 0) heap_destroy_op(hi); else heap_delete_op(hi);
  op_checkall();
  vf_clock_advance(500); do_collect(1);       /* whatever the destroy released is purged now */
  op_checkall();
  for (int i = 0; i < 200; i++) op_alloc_ex(A_malloc, adopt_sizes[vf_randn(4)], 0, 0, 0, 0);     /* memory released by the destroy is re-used */
  op_checkall();
  for (int s = 0; s < MAXSLOTS; s++) if (slots[s].p) op_free_slot(s, FR_free);
  do_collect(1);
}

/* ---- program "abvisit" (C12, second half): threads leave blocks behind; mi_abandoned_visit_blocks must report exactly them,
   a visitor returning false stops the walk, and a later walk is complete again (needs MIMALLOC_VISIT_ABANDONED=1) */
static void visit_abandoned(int stopat) {
  ret_t r; memset(&r, 0, sizeof(r));
  visit_t v; memset(&v, 0, sizeof(v)); v.first = 1; v.afirst = 1; v.stopat = stopat;
  vlen = 0; alen = 0; bufcat(&vbuf, &vlen, &vcap, ""); bufcat(&abuf, &alen, &acap, "");
  log_call_begin("visit_abandoned", 0, 0, 0, 0, 0, 0, "ok", 0, stopat); log_obs(-1, -1, 0); log_call_end();
  r.res = mi_abandoned_visit_blocks(mi_subproc_main(), -1, true, visitor, &v);
  vf_in_call = 0;
  r.nvisited = v.count;
  log_ret_begin("visit_abandoned", &r);
  vf_logf(",\"after\":%ld,\"nareas\":%ld,\"blocks\":[", v.after, v.areas); vf_log_raw(vbuf, vlen); vf_logf("],\"areas\":["); vf_log_raw(abuf, alen); vf_logf("]");
  log_obs(-1, -1, 0); log_ret_end();
}
static void* leaver_main(void* arg) {
  role_t* r = (role_t*)arg;
  cur_t = r->t; cur_theap = r->heapid; vf_cur_thread = r->t;
  vf_logf("{\"e\":\"tstart\",\"t\":%d,\"h\":%d}", r->t, r->heapid); vf_log_line_end();
  vf_point();
  int own[64], nown = 0;
  int n = 4 + (int)vf_randn(20);
  /* some threads work in a second (non-exclusive, managed) arena through a heap bound to it: abandoned segments in more than one arena */
  int hb = (r->collect && arena_idx >= 0) ? heap_new_in_arena_op(arena_idx) : -1;
  for (int i = 0; i < n; i++) {
    static const size_t szs[] = {16, 100, 1000, 8000, 8192, 70000, 300000, 2u << 20, 20u << 20};
    int ns_ = (hb >= 0 && vf_randn(4) != 0) ? op_alloc_ex(A_heap_malloc, szs[vf_randn(8)] + vf_randn(64), 0, 0, hb, 0)
                                            : op_alloc_ex(vf_randn(3) ? A_malloc : A_zalloc, szs[vf_randn(9)] + vf_randn(64), 0, 0, 0, 0);
    if (ns_ >= 0 && nown < 64) own[nown++] = ns_;
    vf_point();
  }
  /* every second thread also leaves a block behind whose segment was mapped directly (alignment 32 MiB): abandoned segments on the list of
     the sub-process next to those in the arena bitmaps */
  if (r->t % 2 == 1) { int ns_ = op_alloc_ex(A_malloc_aligned, ((size_t)1 << 20) + (size_t)vf_randn(4096), (size_t)32 << 20, 0, 0, 0); if (ns_ >= 0 && nown < 64) own[nown++] = ns_; vf_point(); }
  /* free some of the own blocks again (hole patterns), leave the rest behind */
  for (int i = 0; i < nown; i++) if (vf_randn(3) == 0 && slots[own[i]].p) { op_free_slot(own[i], FR_free); vf_point(); }
  if (hb >= 0) { hps[hb].alive = 0; hps[hb].descid = 0; }     /* released by mi_thread_done */
  vf_logf("{\"e\":\"tdone\",\"t\":%d}", r->t); vf_log_line_end();
  vf_in_call = 1; mi_thread_done(); vf_in_call = 0;
  return NULL;
}
static void prog_abvisit(int nthreads) {
  max_fill = 16384;
  arena_idx = (vf_randn(3) != 0) ? arena_setup((size_t)6 * (32u << 20) + 4096, 4096 * 2, 0) : -1;
  /* blocks of the main thread itself must never be reported as abandoned */
  for (int i = 0; i < 5; i++) op_alloc_ex(A_malloc, 100 + vf_randn(20000), 0, 0, 0, 0);
  for (int k = 0; k < nthreads; k++) { role_t* r = &roles[k + 1]; memset(r, 0, sizeof(*r)); r->t = k + 1; r->heapid = next_heap_id++; r->collect = (int)vf_randn(2); vf_spawn(leaver_main, r); }
  vf_sched_go();
  vf_wait_all();
  visit_abandoned(0);                                   /* exactly the blocks left behind */
  visit_abandoned(1 + (int)vf_randn(6));                /* the visitor stops the walk */
  visit_abandoned(-(1 + (int)vf_randn(3)));             /* ... at an area announcement */
  visit_abandoned(0);                                   /* and a later walk is complete again */
  /* free half of what was left behind (into the abandoned segments), collect, walk again */
  int k = 0; for (int s = 0; s < MAXSLOTS; s++) if (slots[s].p && slots[s].heap != hps[0].id && (k++ % 2) == 0) op_free_slot(s, FR_free);
  visit_abandoned(0);
  for (int s = 0; s < MAXSLOTS; s++) if (slots[s].p) op_free_slot(s, FR_free);
  do_collect(1);
  visit_abandoned(0);
}

/* ---- one execution (in a forked child) */
static int run_one(const char* out, const char* prog, uint64_t seed, int argc, char** argv) {
  vf_rng_state = seed * 0x9E3779B97F4A7C15ull + 777;
  vf_log_fd = open(out, O_WRONLY | O_APPEND | O_CREAT, 0644);
  if (vf_log_fd < 0) { perror("open"); return 3; }
  { struct sigaction sa; memset(&sa, 0, sizeof(sa)); sa.sa_handler = vf_crash_handler; sigaction(SIGSEGV, &sa, NULL); sigaction(SIGBUS, &sa, NULL); sigaction(SIGABRT, &sa, NULL); sigaction(SIGFPE, &sa, NULL); sigaction(SIGALRM, &sa, NULL); }
  alarm(20);    /* a livelock / deadlock under the scheduler arrives as a crash event (signal 14) */
#if MI_PADDING
  padding = 1;
#endif
  vf_on_mmap = vf_region_add;
  vf_sched_begin(seed);
  hps[0].hp = mi_heap_get_backing(); hps[0].id = 1; hps[0].alive = 1;
  vf_logf("{\"e\":\"cfg\",\"build\":\"%s\",\"padding\":%s,\"seed\":%llu,\"profile\":\"%s\",\"shim\":true,\"purge_delay\":%ld,\"segmap_part\":%zu,\"env\":\"",
          VF_CFG, padding ? "true" : "false", (unsigned long long)seed, prog, mi_option_get(mi_option_purge_delay), _mi_align_up(sizeof(mi_segmap_part_t), 4096));
  { extern char** environ; for (char** e = environ; *e; e++) if (!strncmp(*e, "MIMALLOC_", 9)) vf_logf("%s ", *e); }
  vf_logf("\",\"args\":\""); for (int i = 1; i < argc; i++) vf_logf("%s ", argv[i]);
  vf_logf("\",\"strategy\":%d}", vf_strategy); vf_log_line_end();
  int nremote = 2 + (int)vf_randn(2);
  if (!strcmp(prog, "page")) prog_page(nremote, 10 + (int)vf_randn(10), 0, 1);
  else if (!strcmp(prog, "page-aligned")) { page_aligned = 1; if (blk_lo == 8000) { blk_lo = 24; blk_hi = 200; } prog_page(nremote, 14 + (int)vf_randn(10), 0, (int)vf_randn(2)); }
  else if (!strcmp(prog, "page-huge")) { blk_lo = (size_t)17 << 20; blk_hi = (size_t)19 << 20; max_fill = 32768; page_nblk = 3; prog_page(nremote, 8, 0, (int)vf_randn(2)); }
  else if (!strcmp(prog, "page-main")) prog_page(nremote, 10 + (int)vf_randn(10), 0, 0);
  else if (!strcmp(prog, "page-delete")) prog_page(nremote, 10 + (int)vf_randn(8), 1, 1);
  else if (!strcmp(prog, "page-collect")) prog_page(nremote, 12, 2, 1);
  else if (!strcmp(prog, "pc")) prog_pc(1 + (int)vf_randn(2), 2400, blk_lo, blk_hi);
  else if (!strcmp(prog, "abvisit")) prog_abvisit(2 + (int)vf_randn(3));
  else if (!strcmp(prog, "exit-heap")) prog_exit_heap(1 + (int)vf_randn(3));
  else if (!strcmp(prog, "adopt")) prog_adopt(2 + (int)vf_randn(3));
  else if (!strcmp(prog, "arena")) prog_arena(2 + (int)vf_randn(2));
  else if (!strcmp(prog, "exit-aligned")) { exit_aligned = 1; prog_exit(2 + (int)vf_randn(2), 14 + (int)vf_randn(10), 100, 400); }
  else if (!strcmp(prog, "exit")) prog_exit(2 + (int)vf_randn(2), 14 + (int)vf_randn(10), blk_lo, blk_hi);
  else { fprintf(stderr, "unknown program %s\n", prog); return 2; }
  vf_logf("{\"e\":\"end\",\"steps\":%ld,\"switches\":%ld,\"ophash\":%lu}", vf_step, vf_switches, vf_ophash % 1000000007ul); vf_log_line_end();
  vf_log_flush();
  return 0;
}

int main(int argc, char** argv) {
  const char* out = NULL; const char* prog = "page"; uint64_t seed = 1; int runs = 1; const char* strat = "random"; const char* schedfile = NULL;
  for (int i = 1; i < argc; i++) {
    if (!strcmp(argv[i], "--out") && i + 1 < argc) out = argv[++i];
    else if (!strcmp(argv[i], "--prog") && i + 1 < argc) prog = argv[++i];
    else if (!strcmp(argv[i], "--seed") && i + 1 < argc) seed = strtoull(argv[++i], NULL, 10);
    else if (!strcmp(argv[i], "--runs") && i + 1 < argc) runs = atoi(argv[++i]);
    else if (!strcmp(argv[i], "--strategy") && i + 1 < argc) strat = argv[++i];
    else if (!strcmp(argv[i], "--rate") && i + 1 < argc) vf_switch_rate = atoi(argv[++i]);
    else if (!strcmp(argv[i], "--spurious") && i + 1 < argc) { vf_spurious_left = atoi(argv[++i]); vf_spurious_rate = 6; }
    else if (!strcmp(argv[i], "--size") && i + 2 < argc) { blk_lo = (size_t)atol(argv[++i]); blk_hi = (size_t)atol(argv[++i]); }
    else if (!strcmp(argv[i], "--sched") && i + 1 < argc) schedfile = argv[++i];
    else if (!strcmp(argv[i], "--steps") && i + 1 < argc) { steps_on = atoi(argv[++i]); }
    else if (!strcmp(argv[i], "--ownfree") && i + 1 < argc) exit_ownfree = atoi(argv[++i]);
    else if (!strcmp(argv[i], "--park") && i + 1 < argc) { park_k = atoi(argv[++i]); }
    else if (!strcmp(argv[i], "--segs") && i + 1 < argc) { seg_snap_on = 1; seg_snap_every = atoi(argv[++i]); if (seg_snap_every < 1) seg_snap_every = 1; seg_quiet = conc_quiet; }
    else if (!strcmp(argv[i], "--snap") && i + 1 < argc) { snapshots_on = 1; snap_rate = atoi(argv[++i]); if (snap_rate < 1) snap_rate = 1; }
    else { fprintf(stderr, "usage: drv_conc --out F [--prog P] [--seed S] [--runs N] [--strategy random|pct|guided|replay|dfs] [--sched file]\n"); return 2; }
  }
  if (!out) return 2;
  if (!strcmp(strat, "pct")) { vf_strategy = VF_S_PCT; vf_pct_d = 3; }
  else if (!strcmp(strat, "guided")) vf_strategy = VF_S_GUIDED;
  else if (!strcmp(strat, "replay")) vf_strategy = VF_S_REPLAY;
  else if (!strcmp(strat, "dfs")) vf_strategy = VF_S_DFS;
  /* schedules: one per line ("t:n t:n ..." for guided, "t t t" for replay, "step:t step:t" for dfs); run r uses line r */
  FILE* sf = schedfile ? fopen(schedfile, "r") : NULL;
  { int fd = open(out, O_WRONLY | O_CREAT | O_TRUNC, 0644); if (fd < 0) { perror("open out"); return 3; } close(fd); }
  int spur0 = vf_spurious_left;
  for (int r = 0; r < runs; r++) {
    vf_sched_len = 0; vf_sched_pos = 0;
    if (sf) {
      char line[16384];
      if (!fgets(line, sizeof(line), sf)) break;
      char* tok = strtok(line, " \n");
      while (tok && vf_sched_len < VF_MAXSCHED - 2) {
        int a = 0, b = 1;
        if (sscanf(tok, "%d:%d", &a, &b) == 2) { if (vf_strategy == VF_S_DFS) { vf_sched_list[vf_sched_len++] = a; vf_sched_list[vf_sched_len++] = b; } else { vf_sched_list[vf_sched_len] = a; vf_sched_cnt[vf_sched_len] = b; vf_sched_len++; } }
        else { vf_sched_list[vf_sched_len] = atoi(tok); vf_sched_cnt[vf_sched_len] = 1; vf_sched_len++; }
        tok = strtok(NULL, " \n");
      }
    }
    if (r > 0) { int fd = open(out, O_WRONLY | O_APPEND); if (fd >= 0) { (void)!write(fd, "{\"e\":\"reset\"}\n", 14); close(fd); } }
    pid_t pid = fork();
    if (pid == 0) { vf_spurious_left = spur0; int rc = run_one(out, prog, seed + (uint64_t)r, argc, argv); _exit(rc); }
    int st = 0; waitpid(pid, &st, 0);
  }
  if (sf) fclose(sf);
  return 0;
}
