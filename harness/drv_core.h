/* drv_core.h -- shared driver core (block table, entry-point tables, logging, operations, OS-level workloads); see drv_api.c.
   drv_api.c -- single-threaded API driver: executes a seeded random (or externally given) program of
   public-API calls against the real allocator and writes an ndjson trace for ApiTrace.tla.
   It drives and measures only: addresses, usable sizes, decoded content patterns, zero runs. */
#include "vf_mi.c"
#include "vf_rt.h"

#define MAXSLOTS 4096
#define MAXHEAPS 12
#define MAXARENAS 4

typedef struct { void* p; int id; size_t req, us, wr; uint32_t gen; int heap; int zl; size_t al, off; int big; int pin; } blk_t;   /* pin: a thread is using the block in a call: others must not pick it */
typedef struct { mi_heap_t* hp; int id; int alive; int arena; int descid; } hp_t;
typedef struct { mi_arena_id_t aid; int id; void* start; size_t size; int excl; } ar_t;

static blk_t slots[MAXSLOTS];
static int nslots_used = 0;
static int maxlive = 200;
static hp_t hps[MAXHEAPS];
static ar_t ars[MAXARENAS];
static int nars = 0;
static int next_id = 1, next_heap_id = 2;
static int dflt_idx = 0;      /* index in hps of the current default heap */
static int padding = 0;
static long nops = 0;
static int word_offsets = 0;    /* only offsets that keep the result word-aligned (debug builds reject other pointers) */
static void maybe_clock(void);
static long clock_on = 0;      /* > 0: advance the virtual clock by up to this many ms between calls */

/* ---- op table */
#define F_HEAP 1
#define F_ZERO 2
#define F_AL 4
#define F_AT 8
#define F_CNT 16
#define F_SMALL 32
#define F_STR 64
#define F_PAGEAL 128
enum { A_malloc, A_zalloc, A_calloc, A_mallocn, A_malloc_small, A_zalloc_small, A_malloc_aligned, A_malloc_aligned_at,
       A_zalloc_aligned, A_zalloc_aligned_at, A_calloc_aligned, A_calloc_aligned_at, A_posix_memalign, A_memalign,
       A_aligned_alloc, A_valloc, A_pvalloc, A_strdup, A_strndup, A_new, A_new_aligned, A_new_nothrow, A_new_aligned_nothrow, A_new_n,
       A_heap_malloc, A_heap_zalloc, A_heap_calloc, A_heap_mallocn, A_heap_malloc_small, A_heap_malloc_aligned,
       A_heap_malloc_aligned_at, A_heap_zalloc_aligned, A_heap_zalloc_aligned_at, A_heap_calloc_aligned,
       A_heap_calloc_aligned_at, A_heap_strdup, A_heap_strndup, A_heap_alloc_new, A_heap_alloc_new_n, A_COUNT };
static const struct { const char* name; int fl; } aops[A_COUNT] = {
  {"malloc",0},{"zalloc",F_ZERO},{"calloc",F_ZERO|F_CNT},{"mallocn",F_CNT},{"malloc_small",F_SMALL},{"zalloc_small",F_SMALL|F_ZERO},
  {"malloc_aligned",F_AL},{"malloc_aligned_at",F_AL|F_AT},{"zalloc_aligned",F_AL|F_ZERO},{"zalloc_aligned_at",F_AL|F_AT|F_ZERO},
  {"calloc_aligned",F_AL|F_ZERO|F_CNT},{"calloc_aligned_at",F_AL|F_AT|F_ZERO|F_CNT},{"posix_memalign",F_AL},{"memalign",F_AL},
  {"aligned_alloc",F_AL},{"valloc",F_PAGEAL},{"pvalloc",F_PAGEAL},{"strdup",F_STR},{"strndup",F_STR},{"new",0},{"new_aligned",F_AL},
  {"new_nothrow",0},{"new_aligned_nothrow",F_AL},{"new_n",F_CNT},
  {"heap_malloc",F_HEAP},{"heap_zalloc",F_HEAP|F_ZERO},{"heap_calloc",F_HEAP|F_ZERO|F_CNT},{"heap_mallocn",F_HEAP|F_CNT},
  {"heap_malloc_small",F_HEAP|F_SMALL},{"heap_malloc_aligned",F_HEAP|F_AL},{"heap_malloc_aligned_at",F_HEAP|F_AL|F_AT},
  {"heap_zalloc_aligned",F_HEAP|F_AL|F_ZERO},{"heap_zalloc_aligned_at",F_HEAP|F_AL|F_AT|F_ZERO},
  {"heap_calloc_aligned",F_HEAP|F_AL|F_ZERO|F_CNT},{"heap_calloc_aligned_at",F_HEAP|F_AL|F_AT|F_ZERO|F_CNT},
  {"heap_strdup",F_HEAP|F_STR},{"heap_strndup",F_HEAP|F_STR},{"heap_alloc_new",F_HEAP},{"heap_alloc_new_n",F_HEAP|F_CNT} };

enum { R_realloc, R_reallocn, R_reallocf, R_reallocarray, R_reallocarr, R_rezalloc, R_recalloc, R_realloc_aligned,
       R_realloc_aligned_at, R_rezalloc_aligned, R_rezalloc_aligned_at, R_recalloc_aligned, R_recalloc_aligned_at,
       R_new_realloc, R_new_reallocn,
       R_heap_realloc, R_heap_reallocn, R_heap_reallocf, R_heap_rezalloc, R_heap_recalloc, R_heap_realloc_aligned,
       R_heap_realloc_aligned_at, R_heap_rezalloc_aligned, R_heap_rezalloc_aligned_at, R_heap_recalloc_aligned,
       R_heap_recalloc_aligned_at, R_COUNT };
static const struct { const char* name; int fl; } rops[R_COUNT] = {
  {"realloc",0},{"reallocn",F_CNT},{"reallocf",0},{"reallocarray",F_CNT},{"reallocarr",F_CNT},{"rezalloc",F_ZERO},{"recalloc",F_ZERO|F_CNT},
  {"realloc_aligned",F_AL},{"realloc_aligned_at",F_AL|F_AT},{"rezalloc_aligned",F_AL|F_ZERO},{"rezalloc_aligned_at",F_AL|F_AT|F_ZERO},
  {"recalloc_aligned",F_AL|F_ZERO|F_CNT},{"recalloc_aligned_at",F_AL|F_AT|F_ZERO|F_CNT},{"new_realloc",0},{"new_reallocn",F_CNT},
  {"heap_realloc",F_HEAP},{"heap_reallocn",F_HEAP|F_CNT},{"heap_reallocf",F_HEAP},{"heap_rezalloc",F_HEAP|F_ZERO},
  {"heap_recalloc",F_HEAP|F_ZERO|F_CNT},{"heap_realloc_aligned",F_HEAP|F_AL},{"heap_realloc_aligned_at",F_HEAP|F_AL|F_AT},
  {"heap_rezalloc_aligned",F_HEAP|F_AL|F_ZERO},{"heap_rezalloc_aligned_at",F_HEAP|F_AL|F_AT|F_ZERO},
  {"heap_recalloc_aligned",F_HEAP|F_AL|F_ZERO|F_CNT},{"heap_recalloc_aligned_at",F_HEAP|F_AL|F_AT|F_ZERO|F_CNT} };

enum { FR_free, FR_free_size, FR_free_size_aligned, FR_free_aligned, FR_cfree, FR_COUNT };
static const char* frops[FR_COUNT] = {"free","free_size","free_size_aligned","free_aligned","cfree"};

/* ---- helpers */
static int heap_id_of(mi_heap_t* h) { for (int i = 0; i < MAXHEAPS; i++) if (hps[i].alive && hps[i].hp == h) return hps[i].id; return -1; }
static int heap_idx_of_id(int id) { for (int i = 0; i < MAXHEAPS; i++) if (hps[i].alive && hps[i].id == id) return i; return -1; }

static int pick_live(void) {   /* random used slot or -1 */
  if (nslots_used == 0) return -1;
  for (int tries = 0; tries < 64; tries++) { int s = (int)vf_randn(MAXSLOTS); if (slots[s].p && !slots[s].pin) return s; }
  for (int s = 0; s < MAXSLOTS; s++) if (slots[s].p && !slots[s].pin) return s;
  return -1;
}
/* a free slot, reserved for the caller (id = -1) until set_block / unreserve: under the scheduler another thread may run
   between picking the slot and the return of the allocator call */
static int pick_free_slot(void) {
  for (int tries = 0; tries < 64; tries++) { int s = (int)vf_randn(MAXSLOTS); if (!slots[s].p && slots[s].id != -1) { slots[s].id = -1; return s; } }
  for (int s = 0; s < MAXSLOTS; s++) if (!slots[s].p && slots[s].id != -1) { slots[s].id = -1; return s; }
  return -1;
}
static void unreserve_slot(int s) { if (s >= 0 && !slots[s].p && slots[s].id == -1) slots[s].id = 0; }

/* observation list: the blocks in `must` plus `extra` random others; appended as "obs":[[id,gen,n],...] */
static void log_obs(int must1, int must2, int extra) {
  vf_logf(",\"obs\":[");
  int first = 1, seen[16], ns = 0;
  int cand[16], nc = 0;
  if (must1 >= 0) cand[nc++] = must1;
  if (must2 >= 0 && must2 != must1) cand[nc++] = must2;
  for (int i = 0; i < extra && nc < 12; i++) { int s = pick_live(); if (s >= 0) cand[nc++] = s; }
  for (int i = 0; i < nc; i++) {
    int s = cand[i], dup = 0;
    for (int j = 0; j < ns; j++) if (seen[j] == s) dup = 1;
    if (dup || !slots[s].p) continue;
    seen[ns++] = s;
    size_t n = vf_match(slots[s].p, (uint32_t)slots[s].id, slots[s].gen, slots[s].wr, slots[s].wr);
    vf_logf("%s[%d,%u,%zu]", first ? "" : ",", slots[s].id, slots[s].gen, n);
    first = 0;
  }
  vf_logf("]");
}
static void* vf_flight[16];          /* per virtual thread: the block it is currently releasing (free / realloc in progress) */
static int heap_dying = -1;          /* index in hps of a heap whose delete/destroy call is in progress (its descriptor may already be freed) */
static int owner_busy = 0;           /* the main thread is inside an API call */
static __thread int cur_t = 0;            /* virtual thread id of the running thread (0 = main) */
static __thread int cur_theap = 0;        /* heap id of the running worker thread's backing heap (0 on the main thread) */
static int call_at = 0;   /* the op takes an explicit offset argument */
static void log_call_begin(const char* op, int h, int id, long n, size_t al, size_t off, int zero, const char* cls, int arena, int stopat) {
  vf_logf("{\"e\":\"call\",\"t\":%d,\"at\":%s,\"op\":\"%s\",\"h\":%d,\"id\":%d,\"n\":%ld,\"al\":%zu,\"off\":%zu,\"zero\":%s,\"cls\":\"%s\",\"arena\":%d,\"stopat\":%d",
          cur_t, call_at ? "true" : "false", op, h, id, n, al, off, zero ? "true" : "false", cls, arena, stopat);
  call_at = 0;
}
static void log_call_end(void) { vf_logf("}"); vf_log_line_end(); if (vf_watchdog) alarm(vf_watchdog);
#if defined(VF_SHIM)
  vf_os_in_call = 0;
#endif
  vf_in_call = 1; if (cur_t == 0) owner_busy = 1; }
typedef struct { int null; int id; void* a; size_t us, z, wr, keep; uint32_t gen; int rc, err, outkeep, res, h; long nvisited; } ret_t;
static void log_ret_begin(const char* op, const ret_t* r) {
  vf_in_call = 0; if (cur_t == 0) owner_busy = 0;
  vf_logf("{\"e\":\"ret\",\"t\":%d,\"op\":\"%s\",\"null\":%s,\"id\":%d,\"a\":[%ld,%ld],\"us\":%zu,\"z\":%zu,\"gen\":%u,\"wr\":%zu,\"keep\":%zu,\"rc\":%d,\"errno\":%d,\"outkeep\":%s,\"res\":%s,\"h\":%d,\"nvisited\":%ld",
          cur_t, op, r->null ? "true" : "false", r->id, VF_HI(r->a), VF_LO(r->a), r->us, r->z, r->gen, r->wr, r->keep, r->rc, r->err,
          r->outkeep ? "true" : "false", r->res ? "true" : "false", r->h, r->nvisited);
}
static void log_ret_end(void) { vf_logf("}"); vf_log_line_end(); }

/* size menu reaching the mechanisms: small / medium / large pages, huge, multi-segment */
static const size_t size_menu[] = { 0, 1, 7, 8, 9, 15, 16, 17, 24, 32, 48, 64, 100, 128, 200, 224, 512, 1000, 1024, 1025, 2000, 4096,
  8192, 8193, 16384, 32768, 65536, 65537, 100000, 131072, 131073, 262144, 524288, 1048576, 4194304, 16777216, 16777217, 20971520, 41943040, 104857600 };
#define NMENU (sizeof(size_menu)/sizeof(size_menu[0]))
static size_t big_budget = 0;      /* bytes currently in blocks > 1 MiB (kept bounded) */
static size_t max_size = 104857600;
static int big_sizes = 0;      /* profile "big": mostly objects of one to five arena blocks (17 - 140 MiB) next to small ones */
static size_t pick_size(void) {
  uint64_t r = vf_randn(100);
  size_t n;
  if (big_sizes && r < 45) {
    static const size_t bs[] = {17u << 20, 33u << 20, 40u << 20, 70u << 20, 100u << 20, 130u << 20, 20u << 20, 66u << 20};
    n = bs[vf_randn(8)] + (size_t)vf_randn(65536);
    if (big_budget + n > 700u * 1048576u) n = 1000 + (size_t)vf_randn(100000);
    return n;
  }
  if (r < 45) n = size_menu[vf_randn(22)];                 /* small */
  else if (r < 75) n = size_menu[22 + vf_randn(9)];        /* medium / large */
  else if (r < 80) n = size_menu[31 + vf_randn(NMENU - 31)]; /* large / huge */
  else if (r < 90) n = (size_t)vf_randn(1200);
  else if (r < 97) n = (size_t)vf_randn(200000);
  else n = (size_t)vf_randn(3000000);
  if (vf_randn(8) == 0 && n > 16) n += (size_t)vf_randn(17) - 8;
  if (n > max_size) n = max_size;
  if (n > 1048576 && big_budget + n > (big_sizes ? 700u : 300u) * 1048576u) n = 1000 + (size_t)vf_randn(100000);
  return n;
}
static size_t pick_align(size_t n) {
  uint64_t r = vf_randn(100);
  int k;
  if (r < 55) k = (int)vf_randn(8);            /* 1..128 */
  else if (r < 85) k = 8 + (int)vf_randn(9);   /* 256..64K */
  else if (r < 96) k = 17 + (int)vf_randn(6);  /* 128K..4M */
  else k = 23 + (int)vf_randn(6);              /* 8M..256M : beyond MI_BLOCK_ALIGNMENT_MAX (16M) uses the huge path */
  if (k > 22 && (n > 4194304 || big_budget > 200u * 1048576u)) k = 12;
  return (size_t)1 << k;
}

static size_t max_fill = (size_t)-1;    /* cap on the number of bytes the program writes into a block (huge blocks in the arena programs) */
static void set_block(int s, void* p, size_t req, int heap, int zl, size_t al, size_t off, int fillmode) {
  blk_t* b = &slots[s];
  b->p = p; b->id = next_id++; b->req = req; b->us = mi_usable_size(p); b->heap = heap; b->al = al; b->off = off;
  b->gen = 1 + (uint32_t)vf_randn(1000);
  b->wr = (fillmode == 0 ? b->us : (fillmode == 1 ? req : (size_t)vf_randn(req + 1)));
  if (b->wr > b->us) b->wr = b->us;
  if (b->wr > max_fill) b->wr = max_fill;
  b->zl = zl && b->wr <= req;
  b->big = (b->us > 1048576);
  if (b->big) big_budget += b->us;
  nslots_used++;
}
static void clear_block(int s) { if (slots[s].big) big_budget -= slots[s].us; memset(&slots[s], 0, sizeof(blk_t)); nslots_used--; }

/* ------------------------------------------------------------------ allocation */
static char* strsrc = NULL; static size_t strsrc_len = 0;
/* strndup of an UNTERMINATED source: the first `strmax` characters lie right in front of an inaccessible page (reading source[strmax] faults) */
static const char* strarg = NULL; static size_t strmax = 0;
static char* str_edge(const char* src, size_t len) {
  static uint8_t* region = NULL; const size_t rsz = (size_t)32 * 4096;
  if (region == NULL) {
    region = (uint8_t*)syscall(SYS_mmap, NULL, rsz + 4096, PROT_READ | PROT_WRITE, MAP_PRIVATE | MAP_ANONYMOUS, -1, 0);
    if (region == (uint8_t*)MAP_FAILED) { region = NULL; return NULL; }
    syscall(SYS_mprotect, region + rsz, (size_t)4096, PROT_NONE);
  }
  if (len == 0 || len > rsz) return NULL;
  char* d = (char*)(region + rsz - len); memcpy(d, src, len); return d;
}
static void* do_alloc(int op, mi_heap_t* hp, size_t n, size_t cnt, size_t sz, size_t al, size_t off, int* rc, int* outkeep) {
  *rc = 0; *outkeep = 1;
  switch (op) {
    case A_malloc: return mi_malloc(n);
    case A_zalloc: return mi_zalloc(n);
    case A_calloc: return mi_calloc(cnt, sz);
    case A_mallocn: return mi_mallocn(cnt, sz);
    case A_malloc_small: return mi_malloc_small(n);
    case A_zalloc_small: return mi_zalloc_small(n);
    case A_malloc_aligned: return mi_malloc_aligned(n, al);
    case A_malloc_aligned_at: return mi_malloc_aligned_at(n, al, off);
    case A_zalloc_aligned: return mi_zalloc_aligned(n, al);
    case A_zalloc_aligned_at: return mi_zalloc_aligned_at(n, al, off);
    case A_calloc_aligned: return mi_calloc_aligned(cnt, sz, al);
    case A_calloc_aligned_at: return mi_calloc_aligned_at(cnt, sz, al, off);
    case A_posix_memalign: { void* sentinel = (void*)(uintptr_t)0x5EED5EED; void* q = sentinel; *rc = mi_posix_memalign(&q, al, n);
                             if (*rc != 0) { *outkeep = (q == sentinel); return NULL; } return q; }
    case A_memalign: return mi_memalign(al, n);
    case A_aligned_alloc: return mi_aligned_alloc(al, n);
    case A_valloc: return mi_valloc(n);
    case A_pvalloc: return mi_pvalloc(n);
    case A_strdup: return mi_strdup(strsrc);
    case A_strndup: return mi_strndup(strarg, strmax);
    case A_new: return mi_new(n);
    case A_new_aligned: return mi_new_aligned(n, al);
    case A_new_nothrow: return mi_new_nothrow(n);
    case A_new_aligned_nothrow: return mi_new_aligned_nothrow(n, al);
    case A_new_n: return mi_new_n(cnt, sz);
    case A_heap_malloc: return mi_heap_malloc(hp, n);
    case A_heap_zalloc: return mi_heap_zalloc(hp, n);
    case A_heap_calloc: return mi_heap_calloc(hp, cnt, sz);
    case A_heap_mallocn: return mi_heap_mallocn(hp, cnt, sz);
    case A_heap_malloc_small: return mi_heap_malloc_small(hp, n);
    case A_heap_malloc_aligned: return mi_heap_malloc_aligned(hp, n, al);
    case A_heap_malloc_aligned_at: return mi_heap_malloc_aligned_at(hp, n, al, off);
    case A_heap_zalloc_aligned: return mi_heap_zalloc_aligned(hp, n, al);
    case A_heap_zalloc_aligned_at: return mi_heap_zalloc_aligned_at(hp, n, al, off);
    case A_heap_calloc_aligned: return mi_heap_calloc_aligned(hp, cnt, sz, al);
    case A_heap_calloc_aligned_at: return mi_heap_calloc_aligned_at(hp, cnt, sz, al, off);
    case A_heap_strdup: return mi_heap_strdup(hp, strsrc);
    case A_heap_strndup: return mi_heap_strndup(hp, strarg, strmax);
    case A_heap_alloc_new: return mi_heap_alloc_new(hp, n);
    case A_heap_alloc_new_n: return mi_heap_alloc_new_n(hp, cnt, sz);
  }
  return NULL;
}
static const size_t cnt_sizes[] = {1, 2, 3, 4, 8, 12, 16, 24, 40, 100, 4096};

/* profile knobs */
static int w_alloc = 40, w_free = 25, w_realloc = 12, w_write = 5, w_query = 5, w_heap = 4, w_visit = 2, w_collect = 3, w_expand = 2, w_bad = 0, w_chain = 0, w_bulk = 0;
static int fill_mode_default = 0;  /* 0 = fill whole usable size, 1 = requested size */
static int only_zero_ops = 0, only_aligned = 0, allow_heaps = 1;

static int pick_heap_idx(void) {  /* a live heap of this thread */
  for (int tries = 0; tries < 16; tries++) { int i = (int)vf_randn(MAXHEAPS); if (hps[i].alive) return i; }
  return 0;
}

static int last_alloc_slot = -1;   /* slot of the block returned by the most recent op_alloc_ex / op_realloc_ex of THIS thread, or -1 */
static int op_alloc_ex(int op, size_t n, size_t al, size_t off, int hidx, int fillmode) {
  int s = pick_free_slot(); if (s < 0) return -1;
  { /* the throwing `new` entry points abort on exhaustion: not with heaps bound to a (possibly full) arena */
    int eff = ((aops[op].fl & F_HEAP) ? hidx : dflt_idx);
    if (eff >= 0 && hps[eff].arena != 0) {
      if (op == A_new || op == A_new_n) op = A_malloc; else if (op == A_new_aligned) op = A_malloc_aligned;
      else if (op == A_heap_alloc_new || op == A_heap_alloc_new_n) op = A_heap_malloc;
    }
  }
  int fl = aops[op].fl;
  size_t cnt = 0, sz = 0;
  if (fl & F_SMALL) { if (n > 1024) n = (size_t)vf_randn(1025); }
  if (fl & F_CNT) { sz = cnt_sizes[vf_randn(sizeof(cnt_sizes) / sizeof(size_t))]; cnt = n / sz; n = cnt * sz; }
  if (!(fl & (F_AL | F_PAGEAL))) al = 0;
  if (!(fl & F_AT)) off = 0;
  if (fl & F_PAGEAL) al = 4096;
  if (op == A_posix_memalign && al < 8) al = 8;
  if ((op == A_new || op == A_new_aligned || op == A_new_n || op == A_heap_alloc_new || op == A_heap_alloc_new_n) && n > (64u << 20)) n = 1000; /* abort on failure: stay moderate */
  if (fl & F_STR) {
    if (n == 0) n = 1;
    if (n > 100000) n = 100000;
    strsrc_len = n - 1; strsrc = (char*)realloc(strsrc, n);
    for (size_t i = 0; i + 1 < n; i++) strsrc[i] = (char)(1 + (vf_rand() % 255));
    strsrc[n - 1] = 0;
    strarg = strsrc; strmax = strsrc_len + 5;
    if ((op == A_strndup || op == A_heap_strndup) && n > 1 && vf_randn(2) == 0) {     /* exactly the first n-1 characters of an unterminated source */
      char* e = str_edge(strsrc, n - 1); if (e != NULL) { strarg = e; strmax = n - 1; }
    }
  }
  const char* cls = "ok";
  if (al > (16u << 20) && off != 0) cls = "bigalign-offset";   /* documented: offset must be 0 beyond half a segment */
  if (!(fl & F_HEAP)) hidx = -1;
  mi_heap_t* hp = (hidx >= 0 ? hps[hidx].hp : NULL);
  size_t logn = (op == A_pvalloc ? n : n);
  log_call_begin(aops[op].name, hidx >= 0 ? hps[hidx].id : 0, 0, (long)logn, al, off, (fl & F_ZERO) != 0, cls, 0, 0);
  log_obs(-1, -1, 2); log_call_end();
  int rc, outkeep; errno = 0;
  void* p = do_alloc(op, hp, n, cnt, sz, al, off, &rc, &outkeep);
  vf_in_call = 0;     /* what follows is driver bookkeeping: atomic with respect to the scheduler */
  ret_t r; memset(&r, 0, sizeof(r)); r.null = (p == NULL); r.rc = rc; r.err = errno; r.outkeep = outkeep;
  if (p != NULL) {
    size_t us = mi_usable_size(p);
    if (fl & F_ZERO) r.z = vf_zero_run(p, 0, us);
    if (fl & F_STR) r.keep = (memcmp(p, strsrc, n) == 0 ? n : 0);
    int heapid = (hidx >= 0 ? hps[hidx].id : (cur_theap ? cur_theap : hps[dflt_idx].id));
    set_block(s, p, n, heapid, (fl & F_ZERO) != 0, al, off, (fl & F_ZERO) ? 1 : fillmode);
    /* touch and fill: the whole usable size must be writable */
    vf_fill(p, (uint32_t)slots[s].id, slots[s].gen, slots[s].wr);
    if (slots[s].wr < us && !(fl & F_ZERO) && max_fill == (size_t)-1) { ((volatile uint8_t*)p)[us - 1] = 0x5A; }
    r.id = slots[s].id; r.a = p; r.us = us; r.gen = slots[s].gen; r.wr = slots[s].wr;
  }
  else unreserve_slot(s);
  log_ret_begin(aops[op].name, &r); log_obs(-1, -1, 3); log_ret_end();
  return (p != NULL ? s : -1);
}
/* the small-size fast path of the aligned entry points: it takes the head of an existing page's free list if that block happens to
   satisfy (p + offset) % alignment == 0.  Blocks of a class whose size is not a multiple of the alignment cycle through all
   residues, so a burst of requests (after a few plain blocks of the class made sure the page exists) meets heads of every residue. */
static void op_free(void);
static void op_aligned_small_burst(void) {
  static const size_t cls[] = {48, 80, 112, 144, 176, 208, 240, 272, 336, 400, 464, 528, 656, 784, 912};
  size_t n = cls[vf_randn(sizeof(cls) / sizeof(size_t))] - (size_t)vf_randn(8);
  size_t al = (size_t)16 << vf_randn(4);            /* 16 .. 128 */
  while (al > n) al >>= 1;
  size_t off = 8 * (1 + (size_t)vf_randn(al >= 16 ? al / 8 - 1 : 1));      /* a multiple of 8 in (0, al) */
  if (!word_offsets && vf_randn(3) == 0) off = 1 + (size_t)vf_randn(al - 1);
  int hi = pick_heap_idx();
  for (int i = 0; i < 3; i++) op_alloc_ex(A_heap_malloc, n, 0, 0, hi, fill_mode_default);
  for (int i = 0; i < 7; i++) {
    if (nslots_used + 2 >= maxlive) { op_free(); }
    op_alloc_ex(vf_randn(2) ? A_heap_malloc_aligned_at : A_heap_zalloc_aligned_at, n, al, off, hi, fill_mode_default);
    if (vf_randn(3) == 0) op_alloc_ex(A_heap_malloc, n, 0, 0, hi, fill_mode_default);
  }
}
static void op_alloc(void) {
  int op;
  if (only_aligned && vf_randn(12) == 0) { op_aligned_small_burst(); return; }
  do { op = (int)vf_randn(A_COUNT); }
  while ((only_zero_ops && !(aops[op].fl & F_ZERO)) || (only_aligned && !(aops[op].fl & (F_AL | F_PAGEAL))) || (allow_heaps == 0 && (aops[op].fl & F_HEAP)));
  size_t n = pick_size();
  if ((aops[op].fl & F_STR) && vf_randn(2)) {      /* strings whose length is exactly a block size: the terminator needs the next class */
    static const size_t cls[] = {8, 16, 32, 48, 64, 80, 96, 112, 128, 160, 192, 224, 256, 320, 384, 448, 512, 640, 768, 896, 1024, 1280, 2048, 4096, 8192};
    n = cls[vf_randn(sizeof(cls) / sizeof(size_t))] + 1;
  }
  size_t al = pick_align(n);
  size_t off = 0;
  if (aops[op].fl & F_AT) {
    switch (vf_randn(6)) { case 0: off = 0; break; case 1: off = 8; break; case 2: off = 24; break; case 3: off = al / 2; break;
                           case 4: off = (n > 0 ? n - 1 : 0); break; default: off = n + 8; break; }
    if (al > (16u << 20) && vf_randn(4) != 0) off = 0;
    if (word_offsets) { off &= ~(size_t)7; if (al < 8) off = 0; }
  }
  op_alloc_ex(op, n, al, off, pick_heap_idx(), fill_mode_default);
}

/* ------------------------------------------------------------------ free */
/* let a helper thread perform the next plain mi_free (a free by a thread that does not own the page); the caller waits for it */
static int vf_free_in_thread = 0;
static void* vf_free_thread_main(void* p) { mi_free(p); return NULL; }
static void op_free_slot(int s, int fop) {
  blk_t* b = &slots[s];
  if (fop == FR_free_size_aligned || fop == FR_free_aligned) { if (b->al == 0 || b->off != 0 || ((uintptr_t)b->p % b->al) != 0) fop = FR_free; }
  if (fop == FR_cfree && !mi_is_in_heap_region(b->p)) fop = FR_free;   /* mi_cfree is documented as "free if in heap region" (region map covers < 48 TiB) */
  log_call_begin(frops[fop], 0, b->id, (long)b->req, b->al, 0, 0, "ok", 0, 0);
  log_obs(s, -1, 1); log_call_end();
  void* p = b->p; size_t req = b->req, al = b->al;
  clear_block(s);
  if (cur_t >= 0 && cur_t < 16) vf_flight[cur_t] = p;
  switch (fop) {
    case FR_free:
      if (vf_free_in_thread) { vf_free_in_thread = 0; pthread_t th; if (pthread_create(&th, NULL, vf_free_thread_main, p) == 0) pthread_join(th, NULL); else mi_free(p); }
      else mi_free(p);
      break;
    case FR_free_size: mi_free_size(p, req); break;
    case FR_free_size_aligned: mi_free_size_aligned(p, req, al); break;
    case FR_free_aligned: mi_free_aligned(p, al); break;
    case FR_cfree: mi_cfree(p); break;
  }
  vf_in_call = 0;
  if (cur_t >= 0 && cur_t < 16) vf_flight[cur_t] = NULL;
  ret_t r; memset(&r, 0, sizeof(r));
  log_ret_begin(frops[fop], &r); log_obs(-1, -1, 2); log_ret_end();
}
static void op_free(void) { int s = pick_live(); if (s < 0) return; op_free_slot(s, (int)vf_randn(FR_COUNT)); }

/* ------------------------------------------------------------------ realloc family */
static void op_realloc_ex(int op, int s /* slot or -1 for NULL input */, size_t n, int hidx, int fillmode) {
  int rarr_outkeep = 1;
  if ((op == R_new_realloc || op == R_new_reallocn) && hps[dflt_idx].arena != 0) op = R_realloc;   /* (aborts on exhaustion) */
  int fl = rops[op].fl;
  size_t cnt = 0, sz = 0, al = 0, off = 0;
  if (fl & F_CNT) { sz = cnt_sizes[vf_randn(sizeof(cnt_sizes) / sizeof(size_t))]; cnt = n / sz; n = cnt * sz; }
  blk_t old; memset(&old, 0, sizeof(old));
  int ns = s;
  if (s >= 0) old = slots[s]; else { ns = pick_free_slot(); if (ns < 0) return; }
  if (fl & F_AL) {   /* re-allocating with the same alignment keeps the alignment */
    al = (s >= 0 && old.al > 0 ? old.al : pick_align(n));
    if (fl & F_AT) off = (s >= 0 && old.al > 0 ? old.off : (vf_randn(2) ? 8 : 0));
    else if (s >= 0 && old.off != 0) { al = 1; }
    if (al > (16u << 20)) off = 0;
    /* every third _at re-allocation of an existing block asks for ANOTHER alignment / offset and a size the block could hold as it is
       (50-100% of its usable size): staying in place is only right if the old address happens to satisfy the new request */
    if ((fl & F_AT) && s >= 0 && old.us >= 64 && old.us < (1u << 20) && al <= 4096 && vf_randn(3) == 0) {
      al = (old.al >= 16 && old.al < 2048 ? old.al * 2 : 64); off = 8 * (1 + (size_t)vf_randn(5));
      n = old.us - (size_t)vf_randn(old.us / 3 + 1);
      if (fl & F_CNT) { cnt = n / sz; if (cnt == 0) cnt = 1; n = cnt * sz; }
    }
  }
  if ((op == R_new_realloc || op == R_new_reallocn) && n > (64u << 20)) n = 1000;
  if (!(fl & F_HEAP)) hidx = -1;
  mi_heap_t* hp = (hidx >= 0 ? hps[hidx].hp : NULL);
  call_at = (fl & F_AT) != 0;
  /* beyond half a segment only offset 0 is supported; the plain aligned variants re-use the old pointer's residue as offset */
  const char* rcls = "ok";
  if (al > (16u << 20) && ((fl & F_AT) ? (off != 0) : (s >= 0 && ((uintptr_t)old.p % al) != 0))) rcls = "bigalign-offset";
  log_call_begin(rops[op].name, hidx >= 0 ? hps[hidx].id : 0, s >= 0 ? old.id : 0, (long)n, al, off, (fl & F_ZERO) != 0, rcls, 0, 0);
  log_obs(s, -1, 1); log_call_end();
  void* p = (s >= 0 ? old.p : NULL); void* q = NULL;
  if (s >= 0) { clear_block(s); slots[s].id = -1; }     /* keep the slot reserved for the result */
  errno = 0; int rc = 0;
  switch (op) {
    case R_realloc: q = mi_realloc(p, n); break;
    case R_reallocn: q = mi_reallocn(p, cnt, sz); break;
    case R_reallocf: q = mi_reallocf(p, n); break;
    case R_reallocarray: q = mi_reallocarray(p, cnt, sz); break;
    case R_reallocarr: { void* pp = p; rc = mi_reallocarr(&pp, cnt, sz); q = (rc == 0 ? pp : NULL); rarr_outkeep = (rc == 0 || pp == p); break; }
    case R_rezalloc: q = mi_rezalloc(p, n); break;
    case R_recalloc: q = mi_recalloc(p, cnt, sz); break;
    case R_realloc_aligned: q = mi_realloc_aligned(p, n, al); break;
    case R_realloc_aligned_at: q = mi_realloc_aligned_at(p, n, al, off); break;
    case R_rezalloc_aligned: q = mi_rezalloc_aligned(p, n, al); break;
    case R_rezalloc_aligned_at: q = mi_rezalloc_aligned_at(p, n, al, off); break;
    case R_recalloc_aligned: q = mi_recalloc_aligned(p, cnt, sz, al); break;
    case R_recalloc_aligned_at: q = mi_recalloc_aligned_at(p, cnt, sz, al, off); break;
    case R_new_realloc: q = mi_new_realloc(p, n); break;
    case R_new_reallocn: q = mi_new_reallocn(p, cnt, sz); break;
    case R_heap_realloc: q = mi_heap_realloc(hp, p, n); break;
    case R_heap_reallocn: q = mi_heap_reallocn(hp, p, cnt, sz); break;
    case R_heap_reallocf: q = mi_heap_reallocf(hp, p, n); break;
    case R_heap_rezalloc: q = mi_heap_rezalloc(hp, p, n); break;
    case R_heap_recalloc: q = mi_heap_recalloc(hp, p, cnt, sz); break;
    case R_heap_realloc_aligned: q = mi_heap_realloc_aligned(hp, p, n, al); break;
    case R_heap_realloc_aligned_at: q = mi_heap_realloc_aligned_at(hp, p, n, al, off); break;
    case R_heap_rezalloc_aligned: q = mi_heap_rezalloc_aligned(hp, p, n, al); break;
    case R_heap_rezalloc_aligned_at: q = mi_heap_rezalloc_aligned_at(hp, p, n, al, off); break;
    case R_heap_recalloc_aligned: q = mi_heap_recalloc_aligned(hp, p, cnt, sz, al); break;
    case R_heap_recalloc_aligned_at: q = mi_heap_recalloc_aligned_at(hp, p, cnt, sz, al, off); break;
  }
  vf_in_call = 0;
  ret_t r; memset(&r, 0, sizeof(r)); r.null = (q == NULL); r.rc = rc; r.err = errno; r.outkeep = rarr_outkeep;
  if (q == NULL) {
    unreserve_slot(ns);
    if (s >= 0 && op != R_reallocf && op != R_heap_reallocf) {   /* old block must be untouched */
      slots[s] = old; nslots_used++; if (old.big) big_budget += old.us;
      r.keep = vf_match(old.p, (uint32_t)old.id, old.gen, old.wr, old.wr);
    }
  } else {
    size_t us = mi_usable_size(q);
    size_t cmp = (s >= 0 ? (old.wr < old.req ? old.wr : old.req) : 0); if (cmp > n) cmp = n;
    if (s >= 0) r.keep = vf_match(q, (uint32_t)old.id, old.gen, cmp, old.wr);
    size_t zfrom = (s >= 0 ? (old.req < n ? old.req : n) : 0);
    if (fl & F_ZERO) r.z = vf_zero_run(q, zfrom, us);
    int heapid = (s >= 0 && q == old.p) ? old.heap : (hidx >= 0 ? hps[hidx].id : (cur_theap ? cur_theap : hps[dflt_idx].id));
    int zl = (fl & F_ZERO) && (s >= 0 ? (old.zl && n >= old.req) : 1);
    set_block(ns, q, n, heapid, zl, al, off, (fl & F_ZERO) || (s >= 0 && old.zl) ? 1 : fillmode);
    vf_fill(q, (uint32_t)slots[ns].id, slots[ns].gen, slots[ns].wr);
    r.id = slots[ns].id; r.a = q; r.us = us; r.gen = slots[ns].gen; r.wr = slots[ns].wr;
  }
  log_ret_begin(rops[op].name, &r); log_obs(-1, -1, 3); log_ret_end();
}
static void op_realloc(void) {
  int op;
  do { op = (int)vf_randn(R_COUNT); } while ((only_zero_ops && !(rops[op].fl & F_ZERO)) || (allow_heaps == 0 && (rops[op].fl & F_HEAP)));
  int s = (vf_randn(12) == 0 ? -1 : pick_live());
  size_t n;
  if (s >= 0 && vf_randn(3) != 0) {   /* around the old size: in-place window, 50%-waste rule, class boundaries */
    size_t o = slots[s].req, us = slots[s].us;
    switch (vf_randn(8)) { case 0: n = us; break; case 1: n = us + 1; break; case 2: n = us / 2; break; case 3: n = us / 2 + 1; break;
                           case 4: n = (us / 2 > 0 ? us / 2 - 1 : 0); break; case 5: n = o + 1 + vf_randn(64); break; case 6: n = o * 2 + vf_randn(16); break; default: n = (o > 0 ? vf_randn(o) : 0); }
    if (n > max_size) n = max_size;
    if (n > 1048576 && big_budget + n > 300u * 1048576u) n = slots[s].req;
  } else n = pick_size();
  /* heap variants on a block of another heap are legal (the block moves to the given heap when it moves) */
  op_realloc_ex(op, s, n, pick_heap_idx(), fill_mode_default);
}

/* C04: monotone zero growth chain on dirtied memory */
static void op_zero_chain(void) {
  static const int zops[] = { A_zalloc, A_calloc, A_zalloc_aligned, A_heap_zalloc, A_heap_calloc, A_zalloc_small, A_calloc_aligned };
  static const int gops[] = { R_rezalloc, R_recalloc, R_heap_rezalloc, R_heap_recalloc, R_rezalloc_aligned, R_recalloc_aligned };
  size_t n = pick_size(); if (n > 3000000) n = vf_randn(300000);
  size_t limit = max_size;
  if (vf_randn(10) == 0 && nslots_used + 3 < maxlive) {
    /* a chain of huge blocks (one block per segment, usable size rounded far above the request): first dirty the memory such a
       block will get -- a plain block of that size, written up to its usable size and freed -- then start the chain just below it */
    size_t hn = ((size_t)17 << 20) + (size_t)vf_randn((size_t)7 << 20);
    int d = op_alloc_ex(A_malloc, hn, 0, 0, 0, 0);
    if (d >= 0) op_free_slot(d, FR_free);
    n = hn - 1 - (size_t)vf_randn(300000);
    limit = (size_t)64 << 20;
  }
  int before = next_id;
  int op = zops[vf_randn(7)];
  if (limit > max_size && op == A_zalloc_small) op = A_zalloc;
  size_t al = (aops[op].fl & F_AL) ? pick_align(n) : 0; if (al > 65536) al = 64;
  op_alloc_ex(op, n, al, 0, pick_heap_idx(), 1);
  if (next_id == before) return;
  int s = -1; for (int i = 0; i < MAXSLOTS; i++) if (slots[i].p && slots[i].id == next_id - 1) { s = i; break; }
  int links = 2 + (int)vf_randn(5);
  for (int k = 0; k < links && s >= 0; k++) {
    size_t o = slots[s].req, us = slots[s].us, nn;
    switch (vf_randn(5)) { case 0: nn = o + 1 + vf_randn(8); break; case 1: nn = us; break; case 2: nn = us + 1 + vf_randn(32); break;
                           case 3: nn = o + (us > o ? vf_randn(us - o + 1) : 0); break; default: nn = o + o / 2 + vf_randn(64); }
    if (nn < o) nn = o; if (nn > limit) break;
    int gop = gops[vf_randn(6)];
    if ((rops[gop].fl & F_AL) && slots[s].al == 0) gop = R_rezalloc;
    int id_before = next_id;
    op_realloc_ex(gop, s, nn, pick_heap_idx(), 1);
    if (next_id == id_before) break;
    s = -1; for (int i = 0; i < MAXSLOTS; i++) if (slots[i].p && slots[i].id == next_id - 1) { s = i; break; }
  }
}

/* ------------------------------------------------------------------ C06: malformed / oversized requests
   (entry point x argument class); values beyond 2^31 are logged by class + description only */
static const char* bad_desc = "";
static size_t bad_size_value(void) {   /* sizes beyond MI_MAX_ALLOC_SIZE = PTRDIFF_MAX */
  static const size_t ks[] = {0, 1, 7, 8, 9, 15, 16, 17, 31, 32, 63, 64, 4095, 4096, 4097, 65535, 65536, (1u << 25) - 1, (1u << 25)};
  size_t k = ks[vf_randn(sizeof(ks) / sizeof(ks[0]))];
  switch (vf_randn(5)) {
    case 0: bad_desc = "PTRDIFF_MAX+1+k"; return (size_t)PTRDIFF_MAX + 1 + k;
    case 1: bad_desc = "SIZE_MAX-k"; return SIZE_MAX - k;
    case 2: bad_desc = "2^63+2^32+k"; return ((size_t)1 << 63) + ((size_t)1 << 32) + k;
    case 3: bad_desc = "SIZE_MAX/2+2+k"; return SIZE_MAX / 2 + 2 + k;
    default: bad_desc = "3*2^62+k"; return ((size_t)3 << 62) + k;
  }
}
static void bad_count_size(size_t* cnt, size_t* sz, const char** cls) {
  static const size_t szs[] = {2, 3, 8, 24, 100, 4096, 65536};
  size_t z = szs[vf_randn(7)];
  switch (vf_randn(7)) {
    case 0: *cnt = SIZE_MAX; *sz = z; *cls = "overflow"; bad_desc = "SIZE_MAX*sz"; break;
    case 1: *cnt = (size_t)1 << 32; *sz = (size_t)1 << 32; *cls = "overflow"; bad_desc = "2^32*2^32"; break;
    case 2: *cnt = SIZE_MAX / z + 1 + vf_randn(3); *sz = z; *cls = "overflow"; bad_desc = "(SIZE_MAX/sz+1+k)*sz"; break;
    case 3: *cnt = (size_t)1 << 63; *sz = 2; *cls = "overflow"; bad_desc = "2^63*2"; break;
    case 4: *cnt = z; *sz = SIZE_MAX / z + 1; *cls = "overflow"; bad_desc = "sz*(SIZE_MAX/sz+1)"; break;
    case 5: *cnt = SIZE_MAX / z; *sz = z; *cls = "toolarge"; bad_desc = "(SIZE_MAX/sz)*sz"; break;      /* no overflow, but > PTRDIFF_MAX */
    default: *cnt = ((size_t)1 << 62); *sz = 3; *cls = "toolarge"; bad_desc = "2^62*3"; break;
  }
}
static size_t bad_align_value(void) {
  static const size_t as[] = {0, 3, 5, 6, 7, 12, 24, 48, 1000, 4097, 65537, (size_t)3 << 20};
  bad_desc = "alignment not a power of two";
  return as[vf_randn(sizeof(as) / sizeof(as[0]))];
}
static void op_bad(void) {
  int kind = (int)vf_randn(3);           /* 0 = size too large, 1 = count*size, 2 = bad alignment */
  int re = (int)vf_randn(3) == 0;        /* re-allocation form on a live block */
  int s = re ? pick_live() : -1;
  if (re && s < 0) re = 0;
  size_t n = 0, cnt = 0, sz = 0, al = 0, off = 0; const char* cls = "toolarge"; const char* name = "malloc";
  void* q = NULL; int rc = 0, outkeep = 1; int zero = 0;
  int hidx = pick_heap_idx(); mi_heap_t* hp = hps[hidx].hp; int useheap = 0;
  int ns = -1; blk_t old; memset(&old, 0, sizeof(old));
  if (re) old = slots[s];
  if (kind == 0) n = bad_size_value();
  else if (kind == 1) bad_count_size(&cnt, &sz, &cls);
  else { al = bad_align_value(); n = 1 + (size_t)vf_randn(5000); cls = "badalign"; }
  int v = (int)vf_randn(12);
  /* choose the entry point; log the call; perform it */
  #define BEGIN(nm, uh, zr) name = nm; useheap = uh; zero = zr; \
      log_call_begin(name, useheap ? hps[hidx].id : 0, re ? old.id : 0, (long)(n > 0x3FFFFFFF ? -1 : (long)n), (al > 0x3FFFFFFF ? 0x3FFFFFFF : al), off, zero, cls, 0, 0); \
      vf_logf(",\"arg\":\"%s\"", bad_desc); log_obs(s, -1, 1); log_call_end(); if (re) clear_block(s); errno = 0;
  if (!re) {
    if (kind == 0) {
      switch (v % 9) {
        case 0: BEGIN("malloc", 0, 0) q = mi_malloc(n); break;
        case 1: BEGIN("zalloc", 0, 1) q = mi_zalloc(n); break;
        case 2: BEGIN("heap_malloc", 1, 0) q = mi_heap_malloc(hp, n); break;
        case 3: BEGIN("heap_zalloc", 1, 1) q = mi_heap_zalloc(hp, n); break;
        case 4: BEGIN("valloc", 0, 0) q = mi_valloc(n); break;
        case 5: BEGIN("pvalloc", 0, 0) q = mi_pvalloc(n); break;
        case 6: BEGIN("new_nothrow", 0, 0) q = mi_new_nothrow(n); break;
        case 7: al = (size_t)1 << vf_randn(13); BEGIN("malloc_aligned", 0, 0) q = mi_malloc_aligned(n, al); break;
        default: al = 8u << vf_randn(8); cls = "enomem"; BEGIN("posix_memalign", 0, 0)
                 { void* sent = (void*)(uintptr_t)0x5EED5EED; void* pp = sent; rc = mi_posix_memalign(&pp, al, n); outkeep = (pp == sent); q = (rc == 0 ? pp : NULL); } break;
      }
    } else if (kind == 1) {
      switch (v % 6) {
        case 0: BEGIN("calloc", 0, 1) q = mi_calloc(cnt, sz); break;
        case 1: BEGIN("mallocn", 0, 0) q = mi_mallocn(cnt, sz); break;
        case 2: BEGIN("heap_calloc", 1, 1) q = mi_heap_calloc(hp, cnt, sz); break;
        case 3: BEGIN("heap_mallocn", 1, 0) q = mi_heap_mallocn(hp, cnt, sz); break;
        case 4: al = 64; BEGIN("calloc_aligned", 0, 1) q = mi_calloc_aligned(cnt, sz, al); break;
        default: al = 32; BEGIN("heap_calloc_aligned", 1, 1) q = mi_heap_calloc_aligned(hp, cnt, sz, al); break;
      }
    } else {
      switch (v % 7) {
        case 0: BEGIN("malloc_aligned", 0, 0) q = mi_malloc_aligned(n, al); break;
        case 1: BEGIN("zalloc_aligned", 0, 1) q = mi_zalloc_aligned(n, al); break;
        case 2: off = 8; BEGIN("malloc_aligned_at", 0, 0) q = mi_malloc_aligned_at(n, al, off); break;
        case 3: BEGIN("memalign", 0, 0) q = mi_memalign(al, n); break;
        case 4: BEGIN("aligned_alloc", 0, 0) q = mi_aligned_alloc(al, n); break;
        case 5: BEGIN("heap_malloc_aligned", 1, 0) q = mi_heap_malloc_aligned(hp, n, al); break;
        default: if (vf_randn(2)) al = (size_t)1 << vf_randn(3); cls = "einval"; BEGIN("posix_memalign", 0, 0)   /* also powers of two below sizeof(void*) */
                 { void* sent = (void*)(uintptr_t)0x5EED5EED; void* pp = sent; rc = mi_posix_memalign(&pp, al, n); outkeep = (pp == sent); q = (rc == 0 ? pp : NULL); } break;
      }
    }
  } else {
    void* p = old.p;
    if (kind == 0) {
      switch (v % 6) {
        case 0: BEGIN("realloc", 0, 0) q = mi_realloc(p, n); break;
        case 1: BEGIN("rezalloc", 0, 1) q = mi_rezalloc(p, n); break;
        case 2: BEGIN("heap_realloc", 1, 0) q = mi_heap_realloc(hp, p, n); break;
        case 3: BEGIN("reallocf", 0, 0) q = mi_reallocf(p, n); break;
        case 4: al = 64; BEGIN("realloc_aligned", 0, 0) q = mi_realloc_aligned(p, n, al); break;
        default: BEGIN("heap_rezalloc", 1, 1) q = mi_heap_rezalloc(hp, p, n); break;
      }
    } else if (kind == 1) {
      switch (v % 7) {
        case 0: BEGIN("reallocn", 0, 0) q = mi_reallocn(p, cnt, sz); break;
        case 1: BEGIN("recalloc", 0, 1) q = mi_recalloc(p, cnt, sz); break;
        case 2: BEGIN("reallocarray", 0, 0) q = mi_reallocarray(p, cnt, sz); break;
        case 3: BEGIN("reallocarr", 0, 0) { void* pp = p; rc = mi_reallocarr(&pp, cnt, sz); q = (rc == 0 ? pp : NULL); if (rc != 0) outkeep = (pp == p); } break;
        case 4: BEGIN("heap_reallocn", 1, 0) q = mi_heap_reallocn(hp, p, cnt, sz); break;
        case 5: BEGIN("heap_recalloc", 1, 1) q = mi_heap_recalloc(hp, p, cnt, sz); break;
        default: al = 16; BEGIN("recalloc_aligned", 0, 1) q = mi_recalloc_aligned(p, cnt, sz, al); break;
      }
    } else {
      switch (v % 4) {
        case 0: BEGIN("realloc_aligned", 0, 0) q = mi_realloc_aligned(p, n, al); break;
        case 1: BEGIN("rezalloc_aligned", 0, 1) q = mi_rezalloc_aligned(p, n, al); break;
        case 2: off = 8; BEGIN("realloc_aligned_at", 0, 0) q = mi_realloc_aligned_at(p, n, al, off); break;
        default: BEGIN("heap_realloc_aligned", 1, 0) q = mi_heap_realloc_aligned(hp, p, n, al); break;
      }
    }
  }
  #undef BEGIN
  ret_t r; memset(&r, 0, sizeof(r)); r.null = (q == NULL); r.rc = rc; r.err = errno; r.outkeep = outkeep;
  if (q == NULL) {
    if (re && strcmp(name, "reallocf") != 0) { slots[s] = old; nslots_used++; if (old.big) big_budget += old.us; r.keep = vf_match(old.p, (uint32_t)old.id, old.gen, old.wr, old.wr); }
  } else {   /* unexpected success: register the block so the rest of the trace stays meaningful */
    ns = re ? s : pick_free_slot();
    if (ns >= 0) { size_t rq = (n > 0x3FFFFFFF ? 0x3FFFFFFF : n); set_block(ns, q, rq, useheap ? hps[hidx].id : hps[dflt_idx].id, 0, 0, 0, 2); slots[ns].wr = 0;
                   r.id = slots[ns].id; r.a = q; r.us = (slots[ns].us > 0x3FFFFFFF ? 0x3FFFFFFF : slots[ns].us); r.gen = slots[ns].gen; r.wr = 0; }
  }
  log_ret_begin(name, &r); log_obs(re && q == NULL && strcmp(name, "reallocf") != 0 ? s : -1, -1, 3); log_ret_end();
}

/* ------------------------------------------------------------------ write / queries / expand */
static void op_write(void) {
  int s = pick_live(); if (s < 0) return;
  blk_t* b = &slots[s];
  b->gen++;
  if (b->zl) { b->wr = b->req; } else if (vf_randn(3) == 0) { b->wr = (size_t)vf_randn(b->us + 1); } else b->wr = b->us;
  vf_fill(b->p, (uint32_t)b->id, b->gen, b->wr);
  vf_logf("{\"e\":\"write\",\"t\":%d,\"id\":%d,\"gen\":%u,\"wr\":%zu}", cur_t, b->id, b->gen, b->wr); vf_log_line_end();
}
static void op_query(void) {
  int s = pick_live(); if (s < 0) return;
  blk_t* b = &slots[s];
  ret_t r; memset(&r, 0, sizeof(r));
  int hidx = pick_heap_idx();
  switch (vf_randn(5)) {
    case 0: log_call_begin("usable_size", 0, b->id, 0, 0, 0, 0, "ok", 0, 0); log_obs(-1, -1, 0); log_call_end();
            r.us = mi_usable_size(b->p); log_ret_begin("usable_size", &r); break;
    case 1: { size_t n = pick_size(); log_call_begin("good_size", 0, 0, (long)n, 0, 0, 0, "ok", 0, 0); log_obs(-1, -1, 0); log_call_end();
            r.us = mi_good_size(n); if (r.us > 0x3FFFFFFF) r.us = 0x3FFFFFFF; log_ret_begin("good_size", &r); break; }
    case 2: log_call_begin("heap_contains_block", hps[hidx].id, b->id, 0, 0, 0, 0, "ok", 0, 0); log_obs(-1, -1, 0); log_call_end();
            r.res = mi_heap_contains_block(hps[hidx].hp, b->p); log_ret_begin("heap_contains_block", &r); break;
    case 3: log_call_begin("heap_check_owned", hps[hidx].id, b->id, 0, 0, 0, 0, "ok", 0, 0); log_obs(-1, -1, 0); log_call_end();
            r.res = mi_heap_check_owned(hps[hidx].hp, b->p); log_ret_begin("heap_check_owned", &r); break;
    default: log_call_begin("is_in_heap_region", 0, b->id, 0, 0, 0, 0, "ok", 0, 0); log_obs(-1, -1, 0); log_call_end();
            r.res = mi_is_in_heap_region(b->p); log_ret_begin("is_in_heap_region", &r); break;
  }
  log_obs(-1, -1, 0); log_ret_end();
}
/* does the thread's backing heap claim block s?  (heap_contains_block / heap_check_owned on hps[0]) */
static void query_owned_by_main(int s) {
  blk_t* b = &slots[s]; ret_t r; memset(&r, 0, sizeof(r));
  log_call_begin("heap_contains_block", hps[0].id, b->id, 0, 0, 0, 0, "ok", 0, 0); log_obs(-1, -1, 0); log_call_end();
  r.res = mi_heap_contains_block(hps[0].hp, b->p); log_ret_begin("heap_contains_block", &r); log_obs(-1, -1, 0); log_ret_end();
  memset(&r, 0, sizeof(r));
  log_call_begin("heap_check_owned", hps[0].id, b->id, 0, 0, 0, 0, "ok", 0, 0); log_obs(-1, -1, 0); log_call_end();
  r.res = mi_heap_check_owned(hps[0].hp, b->p); log_ret_begin("heap_check_owned", &r); log_obs(-1, -1, 0); log_ret_end();
}
static void op_expand(void) {
  int s = pick_live(); if (s < 0) return;
  blk_t* b = &slots[s];
  size_t n;
  switch (vf_randn(4)) { case 0: n = b->us; break; case 1: n = b->us + 1; break; case 2: n = b->req; break; default: n = (size_t)vf_randn(b->us + 64); }
  log_call_begin("expand", 0, b->id, (long)n, 0, 0, 0, "ok", 0, 0); log_obs(s, -1, 0); log_call_end();
  void* q = mi_expand(b->p, n);
  ret_t r; memset(&r, 0, sizeof(r)); r.null = (q == NULL); r.a = q; r.us = (q ? mi_usable_size(q) : 0);
  log_ret_begin("expand", &r); log_obs(s, -1, 0); log_ret_end();
}

/* ------------------------------------------------------------------ heaps */
static void heap_new_op(void) {
  ret_t r; memset(&r, 0, sizeof(r));
  int i; for (i = 0; i < MAXHEAPS; i++) if (!hps[i].alive && hps[i].descid != -1) break;
  if (i >= MAXHEAPS) return;
  hps[i].descid = -1;     /* reserve the table entry across the call (other threads may run meanwhile) */
  log_call_begin("heap_new", 0, 0, 0, 0, 0, 0, "ok", 0, 0); log_obs(-1, -1, 0); log_call_end();
  mi_heap_t* h = mi_heap_new();
  vf_in_call = 0;
  r.null = (h == NULL);
  if (!h) hps[i].descid = 0;
  if (h) { hps[i].hp = h; hps[i].id = next_heap_id++; hps[i].alive = 1; hps[i].arena = 0; hps[i].descid = next_id++;
           r.h = hps[i].id; r.id = hps[i].descid; r.a = h; r.us = mi_usable_size(h); }
  log_ret_begin("heap_new", &r); log_obs(-1, -1, 1); log_ret_end();
}
static void heap_delete_op(int i) {     /* blocks migrate to the backing heap */
  ret_t r; memset(&r, 0, sizeof(r));
  log_call_begin("heap_delete", hps[i].id, 0, 0, 0, 0, 0, "ok", 0, 0); log_obs(-1, -1, 2); log_call_end();
  heap_dying = i;
  mi_heap_delete(hps[i].hp);
  vf_in_call = 0; heap_dying = -1;
  for (int s = 0; s < MAXSLOTS; s++) if (slots[s].p && slots[s].heap == hps[i].id) slots[s].heap = (hps[i].arena != 0 ? 0 : hps[0].id);   /* (bound to an arena: orphans) */
  if (dflt_idx == i) dflt_idx = 0;
  hps[i].alive = 0; hps[i].descid = 0;
  log_ret_begin("heap_delete", &r); log_obs(-1, -1, 4); log_ret_end();
}
static void heap_destroy_op(int i) {    /* exactly its own blocks die */
  ret_t r; memset(&r, 0, sizeof(r));
  log_call_begin("heap_destroy", hps[i].id, 0, 0, 0, 0, 0, "ok", 0, 0); log_obs(-1, -1, 2); log_call_end();
  for (int s = 0; s < MAXSLOTS; s++) if (slots[s].p && slots[s].heap == hps[i].id) clear_block(s);
  heap_dying = i;
  mi_heap_destroy(hps[i].hp);
  heap_dying = -1;
  if (dflt_idx == i) dflt_idx = 0;
  hps[i].alive = 0; hps[i].descid = 0;
  log_ret_begin("heap_destroy", &r); log_obs(-1, -1, 6); log_ret_end();
}
static void heap_set_default_op(int i) {
  ret_t r; memset(&r, 0, sizeof(r));
  log_call_begin("heap_set_default", hps[i].id, 0, 0, 0, 0, 0, "ok", 0, 0); log_obs(-1, -1, 0); log_call_end();
  mi_heap_t* oldh = mi_heap_set_default(hps[i].hp);
  r.h = heap_id_of(oldh); dflt_idx = i;
  log_ret_begin("heap_set_default", &r); log_obs(-1, -1, 0); log_ret_end();
}
/* C15: managed arenas (regions handed to mi_manage_os_memory_ex at odd addresses / sizes) and heaps bound to them */
static int allow_arena_heap_delete = 0;
static int arena_setup(size_t size, size_t skew, int exclusive) {
  if (nars >= MAXARENAS) return -1;
  size_t total = size + (64u << 20);
  uint8_t* raw = (uint8_t*)syscall(SYS_mmap, NULL, total, PROT_READ | PROT_WRITE, MAP_PRIVATE | MAP_ANONYMOUS | MAP_NORESERVE, -1, 0);
  if ((long)raw < 0 && (long)raw > -4096) return -1;
#if defined(VF_SHIM)
  vf_os_event("mmap", raw, total, "RW", 1, 0);   /* the region is mapped by the harness: tell the OS model */
#endif
  uint8_t* start = raw + skew;                 /* deliberately not segment aligned */
  size_t given = size + (skew % 4096 == 0 ? 12288 : 0) + 4096 * (skew % 7);
  mi_arena_id_t aid = 0;
  vf_in_call = 1;
  bool ok = mi_manage_os_memory_ex(start, given, true /* committed */, false, true /* zero */, -1, exclusive != 0, &aid);
  vf_in_call = 0;
  if (!ok) return -1;
  size_t asz = 0; void* ast = mi_arena_area(aid, &asz);
  ar_t* ar = &ars[nars++]; ar->aid = aid; ar->id = nars; ar->start = ast; ar->size = asz; ar->excl = exclusive;
  vf_logf("{\"e\":\"arena\",\"id\":%d,\"a\":[%ld,%ld],\"len\":[%ld,%ld],\"ga\":[%ld,%ld],\"glen\":[%ld,%ld],\"excl\":%s}", ar->id,
          VF_HI(ast), VF_LO(ast), VF_HI(asz), VF_LO(asz), VF_HI(start), VF_LO(start), VF_HI(given), VF_LO(given), exclusive ? "true" : "false");
  vf_log_line_end();
  return nars - 1;
}
static int heap_new_in_arena_op(int aridx) {
  ret_t r; memset(&r, 0, sizeof(r));
  int i; for (i = 0; i < MAXHEAPS; i++) if (!hps[i].alive && hps[i].descid != -1) break;
  if (i >= MAXHEAPS || aridx < 0) return -1;
  hps[i].descid = -1;
  log_call_begin("heap_new_in_arena", 0, 0, 0, 0, 0, 0, "ok", ars[aridx].id, 0); log_obs(-1, -1, 0); log_call_end();
  mi_heap_t* h = mi_heap_new_in_arena(ars[aridx].aid);
  vf_in_call = 0;
  r.null = (h == NULL);
  if (!h) hps[i].descid = 0;
  if (h) { hps[i].hp = h; hps[i].id = next_heap_id++; hps[i].alive = 1; hps[i].arena = ars[aridx].id; hps[i].descid = next_id++;
           r.h = hps[i].id; r.id = hps[i].descid; r.a = h; r.us = mi_usable_size(h); }
  log_ret_begin("heap_new_in_arena", &r); log_obs(-1, -1, 1); log_ret_end();
  return h ? i : -1;
}
static void op_heap(void) {
  ret_t r; memset(&r, 0, sizeof(r));
  int k = (int)vf_randn(10);
  int nalive = 0; for (int i = 0; i < MAXHEAPS; i++) nalive += hps[i].alive;
  if (k < 3 && nalive < MAXHEAPS) { heap_new_op(); return; }
  int i = pick_heap_idx();
  /* heaps from mi_heap_new_in_arena allow reclaim and must not be destroyed.  Deleting them abandons their pages (they cannot be handed to
     the unbound backing heap) -- inside segments the thread still owns when other heaps have pages there, and a later free by this thread
     then crashes (known finding C10, see known_findings.json; scenario `arenadel`): the random profiles keep them until the end */
  if (k < 7 && i != 0 && hps[i].arena != 0 && !allow_arena_heap_delete) return;
  if (k < 5 && i != 0) heap_delete_op(i);
  else if (k < 7 && i != 0) heap_destroy_op(i);
  else if (k < 8) heap_set_default_op(i);
  else if (k < 9) {
    log_call_begin("heap_get_default", 0, 0, 0, 0, 0, 0, "ok", 0, 0); log_obs(-1, -1, 0); log_call_end();
    r.h = heap_id_of(mi_heap_get_default());
    log_ret_begin("heap_get_default", &r); log_obs(-1, -1, 0); log_ret_end();
  } else {
    log_call_begin("heap_get_backing", 0, 0, 0, 0, 0, 0, "ok", 0, 0); log_obs(-1, -1, 0); log_call_end();
    r.h = heap_id_of(mi_heap_get_backing());
    log_ret_begin("heap_get_backing", &r); log_obs(-1, -1, 0); log_ret_end();
  }
}
static void op_collect(void) {
  ret_t r; memset(&r, 0, sizeof(r));
  int force = (int)vf_randn(2);
  if (vf_randn(2)) {
    log_call_begin("collect", 0, 0, force, 0, 0, 0, "ok", 0, 0); log_obs(-1, -1, 1); log_call_end();
    mi_collect(force);
    log_ret_begin("collect", &r);
  } else {
    int i = pick_heap_idx();
    log_call_begin("heap_collect", hps[i].id, 0, force, 0, 0, 0, "ok", 0, 0); log_obs(-1, -1, 1); log_call_end();
    mi_heap_collect(hps[i].hp, force);
    log_ret_begin("heap_collect", &r);
  }
  log_obs(-1, -1, 4); log_ret_end();
}

/* ------------------------------------------------------------------ visit (C12) */
typedef struct { long count; int stopat; int first; long areas; int afirst; const mi_heap_area_t* cur; int stopped; long after; } visit_t;   /* stopat > 0: return false at that block, < 0: at that area announcement */
static char* vbuf = NULL; static size_t vlen = 0, vcap = 0;
static char* abuf = NULL; static size_t alen = 0, acap = 0;
static void bufcat(char** b, size_t* len, size_t* cap, const char* s) {
  size_t n = strlen(s);
  if (*len + n + 1 > *cap) { *cap = (*cap + n + 1) * 2; *b = (char*)realloc(*b, *cap); }
  memcpy(*b + *len, s, n + 1); *len += n;
}
static bool visitor(const mi_heap_t* heap, const mi_heap_area_t* area, void* block, size_t bsize, void* arg) {
  visit_t* v = (visit_t*)arg; char tmp[160];
  (void)heap;
  if (v->stopped) { v->after++; return false; }      /* the walk went on although the visitor had returned false */
  if (block == NULL) {   /* area announcement */
    size_t len = area->reserved;
    snprintf(tmp, sizeof(tmp), "%s[%ld,%ld,%ld,%ld,%zu,%zu]", v->afirst ? "" : ",", VF_HI(area->blocks), VF_LO(area->blocks), VF_HI(len), VF_LO(len), area->used, area->block_size);
    bufcat(&abuf, &alen, &acap, tmp); v->afirst = 0; v->areas++;
    if (v->stopat < 0 && v->areas >= -(long)v->stopat) { v->stopped = 1; return false; }
    return true;
  }
  v->count++;
  if (v->stopat == 0) {
    snprintf(tmp, sizeof(tmp), "%s[%ld,%ld,%zu]", v->first ? "" : ",", VF_HI(block), VF_LO(block), bsize);
    bufcat(&vbuf, &vlen, &vcap, tmp); v->first = 0;
  }
  if (v->stopat > 0 && v->count >= v->stopat) { v->stopped = 1; return false; }
  return true;
}
static void op_visit(int hidx, int stopat) {
  ret_t r; memset(&r, 0, sizeof(r));
  visit_t v; memset(&v, 0, sizeof(v)); v.first = 1; v.afirst = 1; v.stopat = stopat;
  vlen = 0; alen = 0; bufcat(&vbuf, &vlen, &vcap, ""); bufcat(&abuf, &alen, &acap, "");
  log_call_begin("visit", hps[hidx].id, 0, 0, 0, 0, 0, "ok", 0, stopat); log_obs(-1, -1, 0); log_call_end();
  r.res = mi_heap_visit_blocks(hps[hidx].hp, true, visitor, &v);
  r.nvisited = v.count; r.h = hps[hidx].id;
  log_ret_begin("visit", &r);
  vf_logf(",\"after\":%ld,\"nareas\":%ld,\"blocks\":[", v.after, v.areas); vf_log_raw(vbuf, vlen); vf_logf("],\"areas\":["); vf_log_raw(abuf, alen); vf_logf("]");
  log_obs(-1, -1, 0); log_ret_end();
}

/* ---- bulk groups: many blocks of one size class allocated in one go so that whole pages fill up, extend and empty again;
   logged as ONE event with the address-sorted list of <<hi, lo, usable>> (the specification checks sortedness and disjointness) */
#define MAXGROUPS 8
#define MAXGMEM 20000
typedef struct { int id; int n; void** p; size_t req; uint32_t gen; size_t wr; } grp_t;
static grp_t grps[MAXGROUPS];
static int next_grp = 1;
static int cmp_ptr(const void* a, const void* b) { uintptr_t x = (uintptr_t)*(void* const*)a, y = (uintptr_t)*(void* const*)b; return x < y ? -1 : x > y; }
static uint32_t gmem_id(int gid, int idx) { return 0x40000000u | ((uint32_t)gid << 16) | (uint32_t)(idx & 0xFFFF); }
static size_t grp_min_match(grp_t* g, int which, int* count) {    /* minimum matched length over the selected members */
  size_t minn = (size_t)-1; int c = 0;
  for (int i = 0; i < g->n; i++) {
    int pos = i + 1, sel = 0;
    switch (which) { case 0: sel = 1; break; case 1: sel = (pos % 2 == 0); break; case 2: sel = (pos % 2 == 1); break; case 3: sel = (pos * 2 <= g->n); break; default: sel = (pos * 2 > g->n); }
    if (!sel) continue;
    size_t us = mi_usable_size(g->p[i]); size_t w = (g->wr < us ? g->wr : us);
    /* the pattern id is bound to the ADDRESS (stable under re-sorting): low bits of the address */
    size_t m = vf_match(g->p[i], gmem_id(g->id, (int)(((uintptr_t)g->p[i] >> 3) & 0xFFFF)), g->gen, w, w);
    if (m < w && m < minn) minn = m;
    if (m >= w && g->wr < minn && minn == (size_t)-1) { }
    c++;
  }
  if (count) *count = c;
  return (minn == (size_t)-1 ? g->wr : minn);
}
static void op_malloc_many(size_t req, int count, int kind /* 0 malloc, 1 zalloc, 2 malloc_aligned(256) */) {
  int gi; for (gi = 0; gi < MAXGROUPS; gi++) if (grps[gi].n == 0) break;
  if (gi >= MAXGROUPS || count > MAXGMEM) return;
  grp_t* g = &grps[gi];
  g->p = (void**)realloc(g->p, sizeof(void*) * (size_t)count);
  g->id = next_grp++; g->req = req; g->gen = 1 + (uint32_t)vf_randn(1000); g->n = 0;
  size_t al = (kind == 2 ? 256 : 0);
  size_t minz = (size_t)-1;
  /* a few individually tracked neighbours are allocated while the group's first page is being filled, so that the slices right
     behind that page hold pages of other (power-of-two, offset-free) classes whose first block is live */
  static const size_t nb_sizes[] = {1024, 2048, 4096, 8192, 16384, 70000};
  int nb_at = 5 + (int)vf_randn(20), nb_n = (int)vf_randn(3);
  for (int i = 0; i < count; i++) {
    if (i == nb_at) { for (int k = 0; k < nb_n; k++) op_alloc_ex(A_malloc, nb_sizes[vf_randn(6)], 0, 0, 0, 0); }
    vf_in_call = 1;
    void* q = (kind == 1 ? mi_zalloc(req) : kind == 2 ? mi_malloc_aligned(req, al) : mi_malloc(req));
    vf_in_call = 0;
    if (!q) break;
    g->p[g->n++] = q;
  }
  if (g->n == 0) return;
  qsort(g->p, (size_t)g->n, sizeof(void*), cmp_ptr);
  g->wr = (kind == 1 ? req : (size_t)-1);
  vf_logf("{\"e\":\"batch\",\"t\":%d,\"grp\":%d,\"h\":%d,\"n\":%zu,\"al\":%zu,\"zero\":%s,\"blocks\":[", cur_t, g->id, hps[dflt_idx].id, req, al, kind == 1 ? "true" : "false");
  size_t minus = (size_t)-1;
  for (int i = 0; i < g->n; i++) {
    size_t us = mi_usable_size(g->p[i]); if (us < minus) minus = us;
    if (kind == 1) { size_t z = vf_zero_run(g->p[i], 0, us); if (z < minz) minz = z; }
    vf_logf("%s[%ld,%ld,%zu]", i ? "," : "", VF_HI(g->p[i]), VF_LO(g->p[i]), us);
  }
  if (g->wr == (size_t)-1) g->wr = minus;      /* every member is written over the smallest usable size of the group */
  for (int i = 0; i < g->n; i++) vf_fill(g->p[i], gmem_id(g->id, (int)(((uintptr_t)g->p[i] >> 3) & 0xFFFF)), g->gen, g->wr);
  vf_logf("],\"z\":%zu,\"gen\":%u,\"wr\":%zu}", kind == 1 ? minz : 0, g->gen, g->wr); vf_log_line_end();
}
static void op_free_pattern(int gi, int which) {
  static const char* wn[] = {"all", "even", "odd", "first", "second"};
  grp_t* g = &grps[gi]; if (g->n == 0) return;
  int count = 0; size_t minn = grp_min_match(g, which, &count);
  vf_logf("{\"e\":\"batch_free\",\"t\":%d,\"grp\":%d,\"which\":\"%s\",\"minn\":%zu,\"count\":%d}", cur_t, g->id, wn[which], minn, count); vf_log_line_end();
  int k = 0, n0 = g->n;
  vf_in_call = 1;
  /* free in a seeded order: forward, backward or strided */
  int order = (int)vf_randn(3);
  for (int j = 0; j < n0; j++) {
    int i = (order == 0 ? j : order == 1 ? n0 - 1 - j : (int)(((long)j * 7919) % n0));
    int pos = i + 1, sel = 0;
    switch (which) { case 0: sel = 1; break; case 1: sel = (pos % 2 == 0); break; case 2: sel = (pos % 2 == 1); break; case 3: sel = (pos * 2 <= n0); break; default: sel = (pos * 2 > n0); }
    if (sel && g->p[i]) { mi_free(g->p[i]); g->p[i] = NULL; }
  }
  vf_in_call = 0;
  for (int i = 0; i < n0; i++) if (g->p[i]) g->p[k++] = g->p[i];
  g->n = k;
}
static void op_bulk(void) {
  int alive = 0; for (int i = 0; i < MAXGROUPS; i++) if (grps[i].n > 0) alive++;
  if (alive > 0 && (alive >= 2 || vf_randn(2))) {
    int gi; do { gi = (int)vf_randn(MAXGROUPS); } while (grps[gi].n == 0);
    op_free_pattern(gi, (int)vf_randn(5));
    return;
  }
  static const size_t classes[] = {8, 8, 8, 24, 40, 56, 16, 32, 48, 64, 100, 128, 384, 1024, 8192, 24, 8};   /* the tiny classes whose page start is not 16-aligned come up most often */
  size_t req = classes[vf_randn(sizeof(classes) / sizeof(classes[0]))];
  int kind = (int)vf_randn(5); kind = (kind < 3 ? 0 : kind == 3 ? 1 : 2);
  if (kind == 2) req = 100;                 /* over-aligned blocks of the 384-byte class: every second block is adjusted */
  size_t bs = mi_good_size(req + (kind == 2 ? 255 : 0)); if (bs < 8) bs = 8;
  long perpage = 65536 / (long)bs; if (perpage < 1) perpage = 1;
  int count = (int)(perpage * (1 + (long)vf_randn(2)) + (long)vf_randn((uint64_t)perpage / 4 + 2));
  if (count > MAXGMEM) count = MAXGMEM;
  op_malloc_many(req, count, kind);
}

/* ---- slice tables (refinement level, SegTrace.tla / MiSegValid.tla): at quiescent points of the program, the slice table of every
   segment in which the program holds a block: kind, counters, the cnt / off / use entries, commit and purge masks as index ranges,
   and the slice ranges of the program's blocks in it */
static int seg_snap_on = 0, seg_snap_every = 1;
static int (*seg_quiet)(void) = NULL;
static long nsegsnaps = 0;
static void seg_mask_ranges(const mi_commit_mask_t* m, size_t nbits) {
  int first = 1; long start = -1;
  for (size_t i = 0; i <= nbits; i++) {
    int bit = (i < nbits) ? (int)((m->mask[i / MI_COMMIT_MASK_FIELD_BITS] >> (i % MI_COMMIT_MASK_FIELD_BITS)) & 1) : 0;
    if (bit && start < 0) start = (long)i;
    if (!bit && start >= 0) { vf_logf("%s[%ld,%zu]", first ? "" : ",", start, i - 1); first = 0; start = -1; }
  }
}
static void emit_segs(void) {
  static long calls = 0;
  if (!seg_snap_on || (seg_quiet && !seg_quiet()) || (calls++ % seg_snap_every) != 0) return;
  mi_segment_t* segs[24]; int ns = 0;
  for (int s = 0; s < MAXSLOTS && ns < 24; s++) if (slots[s].p) {
    mi_segment_t* sg = _mi_ptr_segment(slots[s].p); int seen = 0;
    for (int k = 0; k < ns; k++) if (segs[k] == sg) seen = 1;
    if (!seen) segs[ns++] = sg;
  }
  for (int k = 0; k < ns; k++) {
    mi_segment_t* sg = segs[k];
    size_t n = sg->slice_entries;
    vf_logf("{\"e\":\"seg\",\"sid\":%d,\"kind\":\"%s\",\"entries\":%zu,\"info\":%zu,\"used\":%zu,\"abandoned\":%zu,\"owned\":%s,\"cnt\":[",
            k, sg->kind == MI_SEGMENT_HUGE ? "huge" : "normal", n, sg->segment_info_slices, sg->used, sg->abandoned,
            mi_atomic_load_relaxed(&sg->thread_id) != 0 ? "true" : "false");
    for (size_t i = 0; i < n; i++) vf_logf("%s%u", i ? "," : "", (unsigned)sg->slices[i].slice_count);
    vf_logf("],\"off\":[");
    for (size_t i = 0; i < n; i++) vf_logf("%s%ld", i ? "," : "", (sg->slices[i].slice_offset % sizeof(mi_slice_t)) == 0 ? (long)(sg->slices[i].slice_offset / sizeof(mi_slice_t)) : -1L);
    vf_logf("],\"use\":[");
    for (size_t i = 0; i < n; i++) vf_logf("%s%d", i ? "," : "", sg->slices[i].block_size > 0 ? 1 : 0);
    vf_logf("],\"commit\":["); seg_mask_ranges(&sg->commit_mask, MI_COMMIT_MASK_BITS);
    vf_logf("],\"purge\":["); seg_mask_ranges(&sg->purge_mask, MI_COMMIT_MASK_BITS);
    vf_logf("],\"live\":["); int first = 1;
    for (int s = 0; s < MAXSLOTS; s++) if (slots[s].p && _mi_ptr_segment(slots[s].p) == sg) {
      uintptr_t a = (uintptr_t)slots[s].p - (uintptr_t)sg, e = a + (slots[s].us > 0 ? slots[s].us - 1 : 0);
      vf_logf("%s[%zu,%zu]", first ? "" : ",", (size_t)(a >> MI_SEGMENT_SLICE_SHIFT), (size_t)(e >> MI_SEGMENT_SLICE_SHIFT)); first = 0;
    }
    vf_logf("]}"); vf_log_line_end();
    nsegsnaps++;
  }
}
/* ---- heap dumps (refinement level, HeapTrace.tla / MiHeapValid.tla): the page queues of every heap of the running thread at a
   quiescent point: queue links, per page its counters and flags and the number of blocks (and interior pointers) the program holds
   in it, the heap's page count and the pages_free_direct table */
static long nheapsnaps = 0;
#define HS_MAXPG 4096
static mi_page_t* hs_pages[HS_MAXPG]; static int hs_npages = 0;
static int hs_pgid(mi_page_t* pg) {
  if (pg == NULL) return 0;
  for (int i = 0; i < hs_npages; i++) if (hs_pages[i] == pg) return i + 1;
  if (hs_npages >= HS_MAXPG) return HS_MAXPG + 1;
  hs_pages[hs_npages] = pg; return ++hs_npages;
}
static size_t hs_list_count(mi_page_t* pg, mi_block_t* head) { size_t n = 0; for (mi_block_t* b = head; b != NULL && n <= (size_t)pg->reserved + 1; b = mi_block_next(pg, b)) n++; return n; }
static void hs_count_live(mi_page_t* pg, long* live, long* interior) {
  *live = 0; *interior = 0;
  uintptr_t a0 = (uintptr_t)pg->page_start; size_t bs = mi_page_block_size(pg); uintptr_t a1 = a0 + (size_t)pg->reserved * bs;
  if (a0 == 0 || bs == 0) return;
  for (int s = 0; s < MAXSLOTS; s++) if (slots[s].p && (uintptr_t)slots[s].p >= a0 && (uintptr_t)slots[s].p < a1) { (*live)++; if (((uintptr_t)slots[s].p - a0) % bs != 0) (*interior)++; }
  for (int h = 1; h < MAXHEAPS; h++) if (hps[h].alive && hps[h].hp && (uintptr_t)hps[h].hp >= a0 && (uintptr_t)hps[h].hp < a1) (*live)++;      /* heap descriptors are blocks */
  for (int g = 0; g < MAXGROUPS; g++) for (int j = 0; j < grps[g].n; j++) if (grps[g].p[j] && (uintptr_t)grps[g].p[j] >= a0 && (uintptr_t)grps[g].p[j] < a1) (*live)++;
}
static int heap_dump_owner = 0;     /* a dump by the owning thread between two of its own calls while other threads run: the queues are stable (only the owner
                                        changes them), the counts of pending remote frees are not (the dump says quiet = false) */
static void emit_heaps(void) {
  static long calls = 0;
  int global_quiet = !(seg_quiet && !seg_quiet());
  if (!seg_snap_on || (!global_quiet && !heap_dump_owner) || (calls++ % 2) != 0) return;
  for (int hi = 0; hi < MAXHEAPS; hi++) {
    if (!hps[hi].alive || hps[hi].hp == NULL || hi == heap_dying) continue;
    mi_heap_t* heap = hps[hi].hp;
    if (heap->thread_id != _mi_thread_id()) continue;
    hs_npages = 0;
    int dlempty = (*(mi_block_t* volatile*)&heap->thread_delayed_free == NULL);
    int quiet = global_quiet && dlempty;
    vf_logf("{\"e\":\"heap\",\"id\":%d,\"npages\":%zu,\"full\":%d,\"huge\":%d,\"quiet\":%s,\"dlempty\":%s,\"queues\":[", hps[hi].id, heap->page_count, (int)MI_BIN_FULL + 1, (int)MI_BIN_HUGE + 1, quiet ? "true" : "false", dlempty ? "true" : "false");
    for (size_t b = 0; b <= MI_BIN_FULL; b++) {
      mi_page_queue_t* pq = &heap->pages[b];
      vf_logf("%s{\"bsize\":%zu,\"first\":%d,\"last\":%d,\"pages\":[", b ? "," : "", pq->block_size > 0x3FFFFFFF ? (size_t)0x3FFFFFFF : pq->block_size, hs_pgid(pq->first), hs_pgid(pq->last));
      int n = 0; mi_page_t* pg = pq->first;
      for (; pg != NULL && n < 3000; pg = pg->next, n++) {
        size_t bs = mi_page_block_size(pg); long binof = -1;
        if (bs > MI_MEDIUM_OBJ_SIZE_MAX) binof = (long)MI_BIN_HUGE + 1;      /* large and huge pages share the last size queue */
        else for (size_t k = 1; k < MI_BIN_HUGE; k++) if (heap->pages[k].block_size == bs) { binof = (long)k + 1; break; }
        long live, interior; hs_count_live(pg, &live, &interior);
        size_t ntf = hs_list_count(pg, mi_page_thread_free(pg));
        vf_logf("%s{\"pg\":%d,\"prev\":%d,\"heap\":%d,\"bsize\":%zu,\"binof\":%ld,\"full\":%s,\"aligned\":%s,\"used\":%u,\"cap\":%u,\"res\":%u,\"nfree\":%zu,\"ntf\":%zu,\"live\":%ld,\"interior\":%ld}",
                n ? "," : "", hs_pgid(pg), hs_pgid(pg->prev), mi_page_heap(pg) == heap ? 1 : 0, bs > 0x3FFFFFFF ? (size_t)0x3FFFFFFF : bs, binof, mi_page_is_in_full(pg) ? "true" : "false",
                mi_page_has_aligned(pg) ? "true" : "false", (unsigned)pg->used, (unsigned)pg->capacity, (unsigned)pg->reserved,
                hs_list_count(pg, pg->free) + hs_list_count(pg, pg->local_free), ntf, live, interior);
      }
      vf_logf("],\"complete\":%s}", pg == NULL ? "true" : "false");
    }
    vf_logf("],\"direct\":[");
    for (size_t w = 0; w < MI_PAGES_DIRECT; w++) {
      mi_page_t* pg = heap->pages_free_direct[w];
      int id = (pg == (mi_page_t*)&_mi_page_empty || pg == NULL) ? 0 : hs_pgid(pg);
      vf_logf("%s[%zu,%d,%zu,%d]", w ? "," : "", w, id, id ? mi_page_block_size(pg) : (size_t)0, (int)_mi_bin(w * sizeof(uintptr_t)) + 1);
    }
    vf_logf("]}"); vf_log_line_end();
    nheapsnaps++;
  }
}
/* ---- arena tables (refinement level, ArenaTrace.tla / MiArenaValid.tla; the schedule is modelled in MiPurge.tla): at quiescent points
   the bitmaps of every arena as index ranges, the arena's purge expiry and the global one relative to the allocator's clock, the arena
   purge delay; `after` names the call that has just returned (collect / fcollect / op) */
static long narenasnaps = 0;
static void arena_bit_ranges(mi_bitmap_field_t* bm, size_t fields) {
  int first = 1; long start = -1; size_t nbits = fields * MI_BITMAP_FIELD_BITS;
  for (size_t i = 0; i <= nbits; i++) {
    int bit = (bm != NULL && i < nbits) ? (int)((*(volatile size_t*)&bm[i / MI_BITMAP_FIELD_BITS] >> (i % MI_BITMAP_FIELD_BITS)) & 1) : 0;
    if (bit && start < 0) start = (long)i;
    if (!bit && start >= 0) { vf_logf("%s[%ld,%zu]", first ? "" : ",", start, i - 1); first = 0; start = -1; }
  }
}
static long arena_rem(int64_t expire, int64_t now) { int64_t d = expire - now; if (d > 1000000000) d = 1000000000; if (d < -1000000000) d = -1000000000; return (long)d; }
static void emit_arenas(const char* after) {
  if (!seg_snap_on || (seg_quiet && !seg_quiet())) return;
  const int64_t now = (int64_t)_mi_clock_now();
  const int64_t gexp = *(volatile int64_t*)&mi_arenas_purge_expire;
  long delay = mi_arena_purge_delay(); if (delay > 100000000) delay = 100000000; if (delay < -1) delay = -1;
  const size_t n = *(volatile size_t*)&mi_arena_count;
  vf_logf("{\"e\":\"arenas\",\"pid\":%d,\"after\":\"%s\",\"delay\":%ld,\"gset\":%s,\"grem\":%ld,\"arenas\":[", (int)getpid(), after, delay,
          gexp != 0 ? "true" : "false", gexp != 0 ? arena_rem(gexp, now) : 0L);
  int first = 1;
  for (size_t i = 0; i < n && i < MI_MAX_ARENAS; i++) {
    mi_arena_t* a = *(mi_arena_t* volatile*)&mi_arenas[i];
    if (a == NULL) continue;
    const int64_t ex = *(volatile int64_t*)&a->purge_expire;
    vf_logf("%s{\"id\":%d,\"blocks\":%zu,\"bits\":%zu,\"pinned\":%s,\"excl\":%s,\"zero\":%s,\"set\":%s,\"rem\":%ld,\"inuse\":[", first ? "" : ",", (int)a->id, a->block_count,
            a->field_count * MI_BITMAP_FIELD_BITS, a->memid.is_pinned ? "true" : "false", a->exclusive ? "true" : "false", a->memid.initially_zero ? "true" : "false", ex != 0 ? "true" : "false", ex != 0 ? arena_rem(ex, now) : 0L);
    first = 0;
    arena_bit_ranges(a->blocks_inuse, a->field_count);
    vf_logf("],\"purge\":["); arena_bit_ranges(a->blocks_purge, a->field_count);
    vf_logf("],\"abandoned\":["); arena_bit_ranges(a->blocks_abandoned, a->field_count);
    vf_logf("],\"dirty\":["); arena_bit_ranges(a->blocks_dirty, a->field_count);
    vf_logf("],\"committed\":["); arena_bit_ranges(a->blocks_committed, a->field_count);
    vf_logf("]}");
  }
  vf_logf("]}"); vf_log_line_end();
  narenasnaps++;
}
static void op_checkall(void) {
  emit_segs(); emit_heaps(); emit_arenas("op");
  vf_logf("{\"e\":\"checkall\",\"t\":0,\"obs\":[");
  int first = 1;
  for (int s = 0; s < MAXSLOTS; s++) if (slots[s].p) {
    size_t n = vf_match(slots[s].p, (uint32_t)slots[s].id, slots[s].gen, slots[s].wr, slots[s].wr);
    vf_logf("%s[%d,%u,%zu]", first ? "" : ",", slots[s].id, slots[s].gen, n); first = 0;
  }
  vf_logf("],\"gobs\":["); first = 1;
  for (int i = 0; i < MAXGROUPS; i++) if (grps[i].n > 0) { int c = 0; size_t m = grp_min_match(&grps[i], 0, &c); vf_logf("%s[%d,%d,%zu]", first ? "" : ",", grps[i].id, c, m); first = 0; }
  vf_logf("]}"); vf_log_line_end();
}

/* ------------------------------------------------------------------ replay of a TLC-generated program (MiApiMC behaviour)
   lines: "<op> <h> <id> <n>" with abstract heap ids (0 = default, 1 = backing, 2.. = created), abstract block ids in order
   of creation (allocations, re-allocations and heap_new each consume one) and abstract sizes 8/16/24 mapped to a size table */
static int abs2slot[4096];
static int slot_of_last(void) { for (int i = 0; i < MAXSLOTS; i++) if (slots[i].p && slots[i].id == next_id - 1) return i; return -1; }
static int find_alloc_op(const char* name) { for (int i = 0; i < A_COUNT; i++) if (!strcmp(aops[i].name, name)) return i; return -1; }
static int find_realloc_op(const char* name) { for (int i = 0; i < R_COUNT; i++) if (!strcmp(rops[i].name, name)) return i; return -1; }
static void run_program(const char* path) {
  static const size_t tables[][3] = { {8, 16, 24}, {1, 100, 1000}, {16, 1024, 8192}, {8192, 70000, 140000}, {64, 65537, 2200000},
                                      {511, 4096, 40000}, {1024, 131072, 1048576}, {48, 17000000, 200} };
  const size_t* tab = tables[vf_randn(sizeof(tables) / sizeof(tables[0]))];
  FILE* f = fopen(path, "r"); if (!f) { perror("prog"); exit(3); }
  char op[64]; int h, id; long n; int absid = 1;
  memset(abs2slot, -1, sizeof(abs2slot));
  while (fscanf(f, "%63s %d %d %ld", op, &h, &id, &n) == 4) {
    size_t rn = (n >= 8 && n <= 24 ? tab[n / 8 - 1] : (size_t)n);
    if (vf_randn(4) == 0 && rn > 16) rn += vf_randn(9);
    int hidx = (h <= 0 ? 0 : heap_idx_of_id(h));
    int ai, ri;
    if ((ai = find_alloc_op(op)) >= 0) {
      int before = next_id;
      if (h > 0 && hidx < 0) { absid++; continue; }
      op_alloc_ex(ai, rn, 0, 0, hidx, (int)vf_randn(2));
      if (next_id != before && absid < 4096) abs2slot[absid] = slot_of_last();
      absid++;
    } else if ((ri = find_realloc_op(op)) >= 0) {
      int s = (id > 0 && id < 4096 ? abs2slot[id] : -1);
      int before = next_id;
      if (s >= 0 && slots[s].p) { op_realloc_ex(ri, s, rn, hidx, (int)vf_randn(2)); abs2slot[id] = -1; if (next_id != before && absid < 4096) abs2slot[absid] = slot_of_last(); }
      absid++;
    } else if (!strcmp(op, "free")) {
      int s = (id > 0 && id < 4096 ? abs2slot[id] : -1);
      if (s >= 0 && slots[s].p) { op_free_slot(s, (int)vf_randn(FR_COUNT)); abs2slot[id] = -1; }
    } else if (!strcmp(op, "expand")) {
      int s = (id > 0 && id < 4096 ? abs2slot[id] : -1);
      if (s >= 0 && slots[s].p) {
        blk_t* b = &slots[s]; size_t en = (n == 8 ? b->req : n == 16 ? b->us : b->us + 1);
        log_call_begin("expand", 0, b->id, (long)en, 0, 0, 0, "ok", 0, 0); log_obs(s, -1, 0); log_call_end();
        void* q = mi_expand(b->p, en);
        ret_t r; memset(&r, 0, sizeof(r)); r.null = (q == NULL); r.a = q; r.us = (q ? mi_usable_size(q) : 0);
        log_ret_begin("expand", &r); log_obs(s, -1, 0); log_ret_end();
      }
    } else if (!strcmp(op, "heap_new")) { heap_new_op(); absid++; }
    else if (!strcmp(op, "heap_delete")) { if (hidx > 0) { for (int i = 0; i < 4096; i++) { } heap_delete_op(hidx); } }
    else if (!strcmp(op, "heap_destroy")) { if (hidx > 0) { int hid = hps[hidx].id; for (int i = 0; i < 4096; i++) if (abs2slot[i] >= 0 && slots[abs2slot[i]].p && slots[abs2slot[i]].heap == hid) abs2slot[i] = -1; heap_destroy_op(hidx); } }
    else if (!strcmp(op, "heap_set_default")) { if (hidx >= 0) heap_set_default_op(hidx); }
    else if (!strcmp(op, "collect")) { op_collect(); }
    if (vf_randn(6) == 0) op_write();
    if (vf_randn(10) == 0) op_visit(pick_heap_idx(), 0);
  }
  fclose(f);
}

/* ------------------------------------------------------------------ OS-level workloads (C07 C11 C18): rounds of
   allocate-everything / free-everything (+ worker threads that exit) / forced collect / quiescence measurement */
static void log_areas_list(void);
static int c18_abandoned_areas = 0;
typedef struct { long count; int first; } areas_t;
static bool areas_visitor(const mi_heap_t* heap, const mi_heap_area_t* area, void* block, size_t bsize, void* arg) {
  areas_t* v = (areas_t*)arg; (void)heap; (void)bsize;
  if (block != NULL) return true;
  size_t len = area->reserved;
  vf_logf("%s[%ld,%ld,%ld,%ld]", v->first ? "" : ",", VF_HI(area->blocks), VF_LO(area->blocks), VF_HI(len), VF_LO(len));
  v->first = 0; v->count++;
  return true;
}
/* the page areas of all heaps of the main thread (retired all-free pages are still areas) */
static void log_areas_list(void) {
  areas_t v; v.count = 0; v.first = 1;
  vf_logf("\"areas\":[");
  for (int i = 0; i < MAXHEAPS; i++) if (hps[i].alive) mi_heap_visit_blocks(hps[i].hp, false, areas_visitor, &v);
  /* pages that belong to no heap of a living thread but still hold a block of the program (left behind by an exited thread): their
     areas are in use as well */
  if (c18_abandoned_areas) {
    mi_page_t* seen[64]; int nseen = 0;
    for (int s = 0; s < MAXSLOTS; s++) if (slots[s].p && slots[s].heap != hps[0].id) {
      mi_page_t* pg = _mi_ptr_page(slots[s].p); int dup = 0;
      for (int k = 0; k < nseen; k++) if (seen[k] == pg) dup = 1;
      if (dup || nseen >= 64 || mi_page_heap(pg) != NULL) continue;
      seen[nseen++] = pg;
      size_t len = (size_t)pg->reserved * mi_page_block_size(pg);
      vf_logf("%s[%ld,%ld,%ld,%ld]", v.first ? "" : ",", VF_HI(pg->page_start), VF_LO(pg->page_start), VF_HI(len), VF_LO(len)); v.first = 0;
    }
  }
  vf_logf("]");
}
static void emit_arenas(const char* after);
static void ev_areas(void) { vf_logf("{\"e\":\"areas\",\"t\":0,"); log_areas_list(); vf_logf("}"); vf_log_line_end(); emit_arenas("op"); }
static void ev_mark(const char* what) { vf_logf("{\"e\":\"mark\",\"what\":\"%s\",", what); log_areas_list(); vf_logf("}"); vf_log_line_end(); }
static long statm_pages(int field) {   /* 0 = size, 1 = resident */
  long v[2] = {0, 0}; FILE* f = fopen("/proc/self/statm", "r"); if (!f) return 0;
  if (fscanf(f, "%ld %ld", &v[0], &v[1]) != 2) { v[0] = v[1] = 0; } fclose(f); return v[field];
}
static void ev_quiesce(int round) {
  vf_logf("{\"e\":\"quiesce\",\"round\":%d,\"arenas\":[", round);
  size_t n = mi_arena_get_count(); int first = 1;
  for (size_t i = 0; i < n; i++) { size_t sz = 0; void* st = mi_arena_area(mi_arena_id_create(i), &sz); if (st == NULL) continue;
    vf_logf("%s[%ld,%ld,%ld,%ld]", first ? "" : ",", VF_HI(st), VF_LO(st), VF_HI(sz), VF_LO(sz)); first = 0; }
  int armed = 0;
#if defined(VF_SHIM)
  armed = (vf_fault_armed && vf_fault_at > 0);      /* OS calls are (still) being refused: the give-back obligations wait for the recovery */
#endif
  vf_logf("],\"resident\":%ld,\"vsize\":%ld,\"tol\":%d,\"armed\":%s}", statm_pages(1), statm_pages(0), 96, armed ? "true" : "false"); vf_log_line_end();
}
static void do_collect(int force) {
  ret_t r; memset(&r, 0, sizeof(r));
  log_call_begin("collect", 0, 0, force, 0, 0, 0, "ok", 0, 0); log_obs(-1, -1, 0); log_call_end();
  mi_collect(force);
  log_ret_begin("collect", &r); log_obs(-1, -1, 2); log_ret_end();
  emit_arenas(force ? "fcollect" : "collect");
}
static void free_all_of_thread(int heapid_or_all) {
  for (int s = 0; s < MAXSLOTS; s++) if (slots[s].p && (heapid_or_all < 0 || slots[s].heap == heapid_or_all)) { op_free_slot(s, FR_free); maybe_clock(); }
}
static int wl_scale = 1;   /* divide the block counts of the OS-level workloads (fault enumeration uses smaller rounds) */
static void maybe_clock(void) {
#if defined(VF_SHIM)
  if (clock_on > 0 && vf_randn(6) == 0) vf_clock_advance(1 + (long)vf_randn((uint64_t)clock_on));
#endif
}
static void alloc_many(int count, size_t lo, size_t hi, int ops_mix) {
  if (wl_scale > 1 && count > 3) { count = count / wl_scale; if (count < 3) count = 3; }
  for (int i = 0; i < count; i++) {
    maybe_clock();
    size_t n = lo + (size_t)vf_randn(hi - lo + 1);
    int op = A_malloc;
    if (ops_mix) { static const int mix[] = {A_malloc, A_zalloc, A_calloc, A_malloc_aligned, A_malloc, A_new_nothrow, A_posix_memalign, A_new_aligned_nothrow, A_memalign}; op = mix[vf_randn(9)]; }
    op_alloc_ex(op, n, (size_t)16 << vf_randn(4), 0, 0, 0);
  }
}
/* worker thread: allocates, frees part, exits (its remaining blocks are freed by the main thread afterwards) */
static mi_subproc_id_t vf_subproc_b;      /* a second sub-process (workload "subproc") */
typedef struct { int t; int heapid; int count; size_t lo, hi; uint64_t seed; int mode; int victim; int in_b; } worker_t;   /* mode 0: allocate, free half, exit; 1: allocate, exit with everything live; 2: free every block of heap `victim`, exit */
static int last_worker_heap2 = 0;      /* id of the heap a mode-7 worker created (its blocks carry that id) */
static void* worker_main(void* arg) {
  worker_t* w = (worker_t*)arg;
  cur_t = w->t; cur_theap = w->heapid;
#if defined(VF_SHIM)
  vf_cur_thread = w->t;
#endif
  if (w->in_b) mi_subproc_add_current_thread(vf_subproc_b);      /* (before the thread's first allocation) */
  vf_logf("{\"e\":\"tstart\",\"t\":%d,\"h\":%d}", w->t, w->heapid); vf_log_line_end();
  if (w->mode == 4) { do_collect(1); }                            /* a thread that only collects (adopts and releases what it may) */
  else if (w->mode == 5) {                                        /* a thread whose FIRST allocator call is mi_heap_new (its metadata has to be mapped inside that call) */
    int before = next_heap_id; heap_new_op();
    if (next_heap_id != before) {
      int hi = -1; for (int i = 1; i < MAXHEAPS; i++) if (hps[i].alive && hps[i].id == before) hi = i;
      if (hi > 0) {
        for (int j = 0; j < 3; j++) op_alloc_ex(A_heap_malloc, 3000 + 700 * (size_t)j, 0, 0, hi, 0);
        for (int s = 0; s < MAXSLOTS; s++) if (slots[s].p && slots[s].heap == hps[hi].id) op_free_slot(s, FR_free);
        heap_delete_op(hi);
      }
    }
  }
  else if (w->mode == 7) {       /* works in a heap of its own (mi_heap_new) and exits WITHOUT deleting it: its blocks survive the thread like those of the default heap */
    int before = next_heap_id; heap_new_op();
    int hi = -1; if (next_heap_id != before) for (int i = 1; i < MAXHEAPS; i++) if (hps[i].alive && hps[i].id == before) hi = i;
    if (hi > 0) {
      for (int j = 0; j < w->count; j++) op_alloc_ex(A_heap_malloc, w->lo + (size_t)vf_randn(w->hi - w->lo + 1), 0, 0, hi, 0);
      last_worker_heap2 = hps[hi].id;
      hps[hi].alive = 0; hps[hi].descid = 0;       /* released by mi_thread_done */
    }
  }
  else if (w->mode == 6) { op_alloc_ex(A_malloc_aligned, ((size_t)3 << 20) + 4096, (size_t)32 << 20, 0, 0, 0); alloc_many(w->count, w->lo, w->hi, 0); }   /* mode 1 + a segment mapped directly (over-aligned block) */
  else if (w->mode != 2) alloc_many(w->count, w->lo, w->hi, w->mode == 0);
  int k = 0;
  if (w->mode == 0) { for (int s = 0; s < MAXSLOTS; s++) if (slots[s].p && slots[s].heap == w->heapid && (k++ % 2) == 0) op_free_slot(s, FR_free); }
  if (w->mode == 2) { for (int s = 0; s < MAXSLOTS; s++) if (slots[s].p && slots[s].heap == w->victim) op_free_slot(s, FR_free); }
  vf_logf("{\"e\":\"tdone\",\"t\":%d}", w->t); vf_log_line_end();   /* logged first: the thread's heap descriptors are released inside mi_thread_done */
  vf_in_call = 1; mi_thread_done(); vf_in_call = 0;   /* (also called again by the pthread key destructor: harmless) */
  cur_t = 0; cur_theap = 0;
#if defined(VF_SHIM)
  vf_cur_thread = 0;
#endif
  return NULL;
}
static int next_thread_id = 1;
static int worker_in_b = 0;
static int run_worker_ex(int count, size_t lo, size_t hi, int mode, int victim) {
  worker_t w; w.t = next_thread_id++; w.heapid = next_heap_id++; w.count = count; w.lo = lo; w.hi = hi; w.seed = vf_rand(); w.mode = mode; w.victim = victim; w.in_b = worker_in_b;
  pthread_t th; pthread_create(&th, NULL, worker_main, &w); pthread_join(th, NULL);
  return w.heapid;
}
static void run_worker(int count, size_t lo, size_t hi) { run_worker_ex(count, lo, hi, 0, 0); }
/* re-allocate some of the live blocks of the main thread to a (much) larger size: needs fresh memory, so under a fault plan the call
   may fail -- the original block must then still be there with its contents (C05 / C07) */
static void grow_some(int count) {
  static const int gops[] = { R_realloc, R_reallocn, R_rezalloc, R_recalloc, R_realloc_aligned, R_reallocf, R_heap_realloc, R_reallocarr, R_reallocarray };
  for (int i = 0; i < count; i++) {
    int s = pick_live(); if (s < 0 || slots[s].heap != hps[0].id || slots[s].al != 0) continue;
    size_t o = slots[s].req;
    size_t nn = (o < 100000 ? o * 3 + 70000 : o < ((size_t)4 << 20) ? o * 2 + ((size_t)1 << 20) : o + ((size_t)48 << 20));
    int op = gops[vf_randn(9)];
    if ((rops[op].fl & F_ZERO) && !slots[s].zl) op = R_realloc;
    op_realloc_ex(op, s, nn, 0, 0);
    maybe_clock();
  }
}
static void workload_alloc_base(const char* wl);
static void workload_alloc(const char* wl) { workload_alloc_base(wl); if (strcmp(wl, "giant") != 0 && strcmp(wl, "reuse") != 0) grow_some(wl_scale > 1 ? 3 : 8); }
static void workload_alloc_base(const char* wl) {
  if (!strcmp(wl, "small")) { alloc_many(260, 1, 1024, 1); alloc_many(60, 1025, 8192, 1); }
  else if (!strcmp(wl, "large")) { alloc_many(30, 8193, 131072, 1); alloc_many(24, 131073, 4u << 20, 1); alloc_many(3, 5u << 20, 15u << 20, 1); }
  else if (!strcmp(wl, "huge")) { alloc_many(2, 17u << 20, 40u << 20, 0); alloc_many(1, 70u << 20, 100u << 20, 0);
                                  op_alloc_ex(A_malloc_aligned, 3u << 20, 32u << 20, 0, 0, 0); op_alloc_ex(A_zalloc_aligned, 100000, 64u << 20, 0, 0, 0); alloc_many(20, 1, 100000, 1); }
  else if (!strcmp(wl, "mt")) { run_worker_ex(0, 0, 0, 5, 0); alloc_many(80, 1, 20000, 1); run_worker(120, 1, 4096); run_worker(40, 4097, 300000); run_worker(2, 17u << 20, 20u << 20); }
  else if (!strcmp(wl, "fieldfill")) {   /* many two-block objects in an arena of more than 64 blocks (MIMALLOC_ARENA_RESERVE=4GiB): claims next to and across
                                            the boundary of the 64-bit fields of the arena bitmaps, with every residue of free blocks in front of it */
                                  alloc_many(1 + (int)vf_randn(2), 100, 5000, 0); alloc_many(46, (size_t)40 << 20, ((size_t)40 << 20) + 4096, 0); alloc_many(4, (size_t)70 << 20, (size_t)90 << 20, 0); }
  else if (!strcmp(wl, "fieldfill2")) {  /* arena of more than 64 blocks with lazy commit: a four-block object is placed across the boundary of the first bitmap field
                                            where its first three blocks (61-63) were committed by earlier objects and its last one (64) never was */
                                  op_alloc_ex(A_malloc, 3000, 0, 0, 0, 0);
                                  int last2 = -1, one = -1;
                                  for (int k = 0; k < 31; k++) last2 = op_alloc_ex(A_malloc, (size_t)40 << 20, 0, 0, 0, 0);     /* blocks 1..62 */
                                  one = op_alloc_ex(A_malloc, (size_t)20 << 20, 0, 0, 0, 0);                                    /* block 63 */
                                  if (last2 >= 0) op_free_slot(last2, FR_free);
                                  if (one >= 0) op_free_slot(one, FR_free);
                                  do_collect(0);
                                  op_alloc_ex(A_malloc, (size_t)100 << 20, 0, 0, 0, 0);                                         /* blocks 61..64 */
                                  op_alloc_ex(A_zalloc, (size_t)70 << 20, 0, 0, 0, 0);
                                  alloc_many(3, (size_t)40 << 20, (size_t)90 << 20, 0); }
  else if (!strcmp(wl, "giant")) {   /* objects of many arena blocks: ranges that cross the 64-block fields of the arena bitmaps (needs MIMALLOC_ARENA_RESERVE >= 4 GiB) */
                                  alloc_many(2, (size_t)600 << 20, (size_t)700 << 20, 0); alloc_many(1, (size_t)1100 << 20, (size_t)1300 << 20, 0); alloc_many(1, (size_t)40 << 20, (size_t)70 << 20, 0); alloc_many(10, 1, 100000, 1); }
  else if (!strcmp(wl, "reuse")) {   /* memory of freed multi-block objects is purged and then re-used for ordinary segments (their headers and page tables land on
                                        memory the program had written; C13: whatever the purge mode, nothing may be assumed about its contents) */
                                  alloc_many(1, (size_t)70 << 20, (size_t)100 << 20, 0); alloc_many(1, (size_t)36 << 20, (size_t)48 << 20, 0);
                                  free_all_of_thread(-1); do_collect(1);
#if defined(VF_SHIM)
                                  vf_clock_advance(500); do_collect(1);
#endif
                                  alloc_many(280, 270000, 420000, 1); alloc_many(6, (size_t)2 << 20, (size_t)6 << 20, 0); }
  else if (!strcmp(wl, "relay")) {   /* a producer thread exits with everything live (several segments, full pages); a consumer thread frees all of it and exits too:
                                        nobody who touched that memory is alive any more, it must still be given back */
                                  int ph = run_worker_ex(260, 200000, 262000, 1, 0); run_worker_ex(0, 0, 0, 2, ph);
                                  /* ... and a producer that worked in a heap of its own (mi_heap_new) and exits without deleting it */
                                  last_worker_heap2 = 0; run_worker_ex(60, 100, 60000, 7, 0); if (last_worker_heap2) run_worker_ex(0, 0, 0, 2, last_worker_heap2);
                                  alloc_many(10, 1, 100000, 1); }
  else if (!strcmp(wl, "relayos")) {  /* as relay, but the producers also leave segments behind that were mapped directly (a block aligned to 32 MiB): abandoned
                                        segments on the list of the sub-process AND in the arena bitmaps; the consumer and the main thread must find all of them */
                                  int p1 = run_worker_ex(3, 100, 5000, 6, 0); run_worker_ex(0, 0, 0, 2, p1);
                                  int p2 = run_worker_ex(120, 20000, 262000, 6, 0); int p3 = run_worker_ex(60, 100, 70000, 1, 0);
                                  for (int s = 0; s < MAXSLOTS; s++) if (slots[s].p && (slots[s].heap == p2 || slots[s].heap == p3)) op_free_slot(s, FR_free);
                                  alloc_many(10, 1, 100000, 1); }
  else if (!strcmp(wl, "subproc")) {  /* threads of a second sub-process leave blocks behind; threads of the main sub-process need fresh segments (they visit the
                                        abandoned segments but may not touch those of the other sub-process); after the blocks were freed a thread of the second
                                        sub-process collects: its memory must be released */
                                  static int made = 0; if (!made) { vf_subproc_b = mi_subproc_new(); made = 1; }
                                  int h1 = run_worker_ex(60, 100, 20000, 1, 0);                       /* main sub-process, exits with everything live */
                                  worker_in_b = 1; int h2 = run_worker_ex(60, 100, 20000, 1, 0); worker_in_b = 0;     /* second sub-process, the same */
                                  /* one block of the other sub-process is freed by the main thread (with reclaim on free this is where a segment would be
                                     adopted): the memory of another sub-process is never adopted -- the main heap does not claim the blocks that are left */
                                  { int first = 1; for (int s = 0; s < MAXSLOTS; s++) if (slots[s].p && slots[s].heap == h2) { if (first) { op_free_slot(s, FR_free); first = 0; } else if (vf_randn(4) == 0) query_owned_by_main(s); } }
                                  run_worker_ex(6, (size_t)9 << 20, (size_t)12 << 20, 0, 0);         /* main sub-process: fresh segments, visits */
                                  alloc_many(4, (size_t)9 << 20, (size_t)12 << 20, 0);
                                  for (int s = 0; s < MAXSLOTS; s++) if (slots[s].p && (slots[s].heap == h2 || slots[s].heap == h1)) op_free_slot(s, FR_free);
                                  worker_in_b = 1; run_worker_ex(0, 0, 0, 4, 0); worker_in_b = 0;     /* second sub-process: collect */
                                }
  else if (!strcmp(wl, "mix")) { alloc_many(120, 1, 2048, 1); alloc_many(20, 8193, 600000, 1); alloc_many(1, 17u << 20, 20u << 20, 0); run_worker(60, 1, 70000); }
  else { fprintf(stderr, "unknown workload %s\n", wl); exit(2); }
}
static void run_rounds(const char* wl, int rounds, int recover_after /* round after which the fault plan is disarmed (C07), 0 = n/a */) {
  const uint64_t round_seed = vf_rng_state;
  for (int k = 1; k <= rounds; k++) {
    vf_rng_state = round_seed;      /* every round is the same workload (same sizes, same entry points) */
    workload_alloc(wl);
    op_checkall();
    /* user heaps: one per round, deleted/destroyed again */
    if (k % 2 == 0) { heap_new_op(); int hi = 1; while (hi < MAXHEAPS && !hps[hi].alive) hi++; if (hi < MAXHEAPS) { op_alloc_ex(A_heap_malloc, 5000, 0, 0, hi, 0); op_alloc_ex(A_heap_zalloc, 70000, 0, 0, hi, 0); if (k % 4 == 0) heap_destroy_op(hi); else heap_delete_op(hi); } }
    free_all_of_thread(-1);
    do_collect(1);
    ev_quiesce(k);
#if defined(VF_SHIM)
    if (recover_after == k) { vf_fault_armed = 0; vf_logf("{\"e\":\"mark\",\"what\":\"recover\",\"areas\":[]}"); vf_log_line_end(); }
#endif
  }
}
/* C18: free whole pages / whole segments / everything, then ordinary activity under a moving virtual clock */
static int c18_midclock = 0, c18_gentle = 0;
static const char* c18_pattern = "pages"; static long c18_step = 0; static int c18_abandoned = 0;
/* phases 1 and 2 of the C18 workload (by the main thread, or by a thread that exits afterwards: variant "abandoned") */
static int c18_phase = 0;      /* 0: build and free; 1: build only (the thread then exits with everything live); 2: free only (by another thread) */
static void c18_build_and_free(void) {
#if defined(VF_SHIM)
  const char* pattern = c18_pattern; long step_ms = c18_step;
  int immediate = (mi_option_get(mi_option_purge_delay) == 0);
  static int base_saved = 0;
  int base = (c18_phase == 2 ? base_saved : next_id - 1); base_saved = base;
  /* phase 1: build up */
  if (c18_phase == 2) { }
  else if (!strcmp(pattern, "pages")) { alloc_many(200, 8000, 8192, 0); alloc_many(40, 30000, 32768, 0); }
  else if (!strcmp(pattern, "segments")) { alloc_many(100, 900000, 1048576, 0); }
  else if (!strcmp(pattern, "holes")) { alloc_many(20, 1000000, 1048576, 0); }        /* 1 MiB pages of ONE segment, every fourth is freed: separate purge ranges in every 4 MiB part of the segment (its later pages keep it in use: the ordinary activity allocates there) */
  else if (!strcmp(pattern, "huge")) { alloc_many(5, (size_t)17 << 20, (size_t)40 << 20, 0);        /* single-block segments */
                                       if (mi_option_get(mi_option_purge_delay) < 0) {      /* purging disabled: also the two places where huge blocks are reset directly */
                                         int a_ = op_alloc_ex(A_malloc_aligned, (size_t)3 << 20, (size_t)32 << 20, 0, 0, 0);      /* over-aligned huge block: unused prefix */
                                         int h_ = op_alloc_ex(A_malloc, (size_t)20 << 20, 0, 0, 0, 0);
                                         if (h_ >= 0) { vf_free_in_thread = 1; op_free_slot(h_, FR_free); }                      /* huge block freed by another thread */
                                         if (a_ >= 0) op_free_slot(a_, FR_free);
                                       } }
  else { alloc_many(150, 8000, 8192, 0); alloc_many(70, 900000, 1048576, 0); alloc_many(100, 100, 1000, 0); }
  if (c18_phase == 1) return;
  ev_areas();
  vf_clock_advance(3);
  /* phase 2: free (whole pages while the segment stays / whole segments / everything) */
  int keep_every = (!strcmp(pattern, "all") ? 0 : 4);
  int tofree[MAXSLOTS], nf = 0;
  for (int s = 0; s < MAXSLOTS; s++) if (slots[s].p && slots[s].id > base) {
    int keep = 0; int rid = slots[s].id - base;
    if (keep_every && !strcmp(pattern, "pages")) keep = (rid > 150 && rid <= 200) || (rid % 40 == 0);   /* free whole pages, keep the segment alive */
    if (keep_every && !strcmp(pattern, "segments")) keep = (rid > 92);
    if (keep_every && !strcmp(pattern, "holes")) keep = (rid % 4 != 1);
    if (keep_every && !strcmp(pattern, "huge")) keep = (rid > 4);                                   /* whole segments go back, the last stays */
    if (!keep) tofree[nf++] = s;
  }
  /* free in allocation order, so that the blocks of one page are freed together */
  for (int i = 1; i < nf; i++) { int x = tofree[i], j = i - 1; while (j >= 0 && slots[tofree[j]].id > slots[x].id) { tofree[j + 1] = tofree[j]; j--; } tofree[j + 1] = x; }
  for (int i = 0; i < nf; i++) {
    /* optionally the clock moves past the delay in the middle of the free phase and right before its last page is freed: the pending
       purge of what was freed before has then expired when the next page is freed */
    if (c18_midclock && (i == nf / 3 || i >= nf - 8)) vf_clock_advance(step_ms);   /* (before each of the last frees: whatever is pending has expired) */
    op_free_slot(tofree[i], FR_free); if (immediate) ev_areas();
  }
#endif
}
static void* c18_worker_main(void* arg) {
  worker_t* w = (worker_t*)arg;
  cur_t = w->t; cur_theap = w->heapid;
#if defined(VF_SHIM)
  vf_cur_thread = w->t;
#endif
  vf_logf("{\"e\":\"tstart\",\"t\":%d,\"h\":%d}", w->t, w->heapid); vf_log_line_end();
  c18_build_and_free();
  vf_logf("{\"e\":\"tdone\",\"t\":%d}", w->t); vf_log_line_end();
  vf_in_call = 1; mi_thread_done(); vf_in_call = 0;
  cur_t = 0; cur_theap = 0;
#if defined(VF_SHIM)
  vf_cur_thread = 0;
#endif
  return NULL;
}
/* C18, pattern "starve" (a history found by TLC as a liveness counterexample of MiPurge with more arenas than the visit budget of
   mi_arenas_try_purge): with one-block arenas (MIMALLOC_ARENA_RESERVE=65536, i.e. 64 KiB rounded up to one 32 MiB block) three 20 MiB objects occupy one arena each.  The
   last one is freed and never used again; the other two are freed, purged by a non-forced collect after the delay, allocated again (in the
   same arenas: first fit) and so on.  Every time the schedule fires, the two arenas of lower index have a due purge */
static void run_c18_starve(long step_ms) {
#if defined(VF_SHIM)
  int h[3];
  for (int i = 0; i < 3; i++) h[i] = op_alloc_ex(A_malloc, (size_t)20 << 20, 0, 0, 0, 0);
  ev_areas(); vf_clock_advance(3);
  if (h[2] >= 0) op_free_slot(h[2], FR_free);
  ev_areas(); vf_clock_advance(1);
  ev_mark("t0");
  for (int k = 0; k < 12; k++) {
    if (h[1] >= 0) op_free_slot(h[1], FR_free);
    if (h[0] >= 0) op_free_slot(h[0], FR_free);
    ev_areas();
    vf_clock_advance(step_ms);
    do_collect(0); ev_areas();
    vf_clock_advance(1);
    h[0] = op_alloc_ex(A_malloc, (size_t)20 << 20, 0, 0, 0, 0);
    h[1] = op_alloc_ex(A_malloc, (size_t)20 << 20, 0, 0, 0, 0);
    ev_areas();
  }
  ev_mark("c18check");
#else
  (void)step_ms;
#endif
}
static void run_c18(const char* pattern, long step_ms) {
#if defined(VF_SHIM)
  if (!strcmp(pattern, "starve")) { run_c18_starve(step_ms); return; }
  c18_pattern = pattern; c18_step = step_ms;
  c18_abandoned_areas = c18_abandoned;
  if (c18_abandoned) {
    /* the memory is freed by a thread that exits right afterwards (some of its blocks stay live: the segment is abandoned, not freed);
       the main thread has pages with room of its own, so its later activity needs no fresh segment */
    alloc_many(24, 8000, 8192, 0);
    worker_t w; memset(&w, 0, sizeof(w)); w.t = next_thread_id++; w.heapid = next_heap_id++;
    if (c18_abandoned == 2) c18_phase = 1;      /* variant abandoned2: the thread only builds up and exits with everything live ... */
    pthread_t th; pthread_create(&th, NULL, c18_worker_main, &w); pthread_join(th, NULL);
    if (c18_abandoned == 2) { c18_phase = 2; c18_build_and_free(); c18_phase = 0; }      /* ... the main thread frees the pages (into the abandoned segments): they are
                                                                                           released when a later (non-forced) collect looks at those segments */
  }
  else c18_build_and_free();
  ev_mark("t0");
  if (c18_gentle) {
    /* gentle activity: only blocks of a class that already has a page with room (no page is allocated or freed), and non-forced
       collects; valid when nothing is pending after the free phase (the clock moved before each of the last frees) */
    int keepers[8]; int nk = 0;
    for (int k = 0; k < 10; k++) {
      vf_clock_advance(step_ms);
      int ns_ = op_alloc_ex(A_malloc, 8100, 0, 0, 0, 0); if (ns_ >= 0 && nk < 8) keepers[nk++] = ns_;
      ev_areas(); vf_clock_advance(step_ms);
      if (nk > 1) { op_free_slot(keepers[--nk], FR_free); ev_areas(); }
      do_collect(0); ev_areas();
    }
    ev_mark("c18check");
    return;
  }
  /* phase 3: ordinary activity: allocate / free blocks of size classes not used before, non-forced collects, clock moves between calls */
  static const size_t fresh[] = {48, 320, 3000, 20000, 48, 70000, 320, 200000, 3000, 48, 20000, 320};
  int held[12]; int nh = 0;
  for (int k = 0; k < 12; k++) {
    vf_clock_advance(step_ms);
    int ns_ = op_alloc_ex(A_malloc, fresh[k], 0, 0, 0, 0); if (ns_ >= 0) { held[nh++] = ns_; }ev_areas();
    vf_clock_advance(step_ms);
    if (nh > 0 && k % 2 == 1) { op_free_slot(held[--nh], FR_free); ev_areas(); vf_clock_advance(step_ms); }
    do_collect(0);
    ev_areas();
  }
  vf_clock_advance(step_ms);
  while (nh > 0) { op_free_slot(held[--nh], FR_free); ev_areas(); vf_clock_advance(step_ms); }
  do_collect(0); ev_areas();
  vf_clock_advance(step_ms);
  op_alloc_ex(A_malloc, 48, 0, 0, 0, 0); ev_areas();
  ev_mark("c18check");
#else
  (void)pattern; (void)step_ms;
#endif
}

