/* drv_bitmap.c -- C14 level (i): the bitmap claim functions of src/bitmap.c called directly on a small bitmap from several
   virtual threads under the deterministic scheduler (every atomic operation on the bitmap words is a scheduling point).
   Logs claim results / unclaim calls / the final words; BitmapTrace.tla decides. */
#include "drv_core.h"
#include "vf_sched.h"
#include <sys/wait.h>
static void vf_trace_step(const char* fn, int kind, const volatile void* addr, uintptr_t oldv, uintptr_t newv, int ok) { (void)fn; (void)kind; (void)addr; (void)oldv; (void)newv; (void)ok; }

#define NF 3
/* the words behind the bitmap play the role of the next bitmap of an arena (blocks_dirty follows blocks_inuse): all clear, and they
   must still be clear at the end */
static struct { _Atomic(size_t) w[NF]; _Atomic(size_t) behind[2]; } B;
#define bm (B.w)
static size_t blocked_tail = 0;     /* number of blocked top bits in the last field */
typedef struct { int t; int nops; int purger; } brole_t;
static brole_t broles[VF_MAXT];
static const size_t counts[] = {1, 2, 3, 40, 64, 70, 130, 5, 33, 100, 20, 60};

static void log_words(const char* ev) {
  vf_logf("{\"e\":\"%s\",\"words\":[", ev);
  for (int f = 0; f < NF; f++) {
    size_t w = atomic_load_explicit(&bm[f], memory_order_relaxed);
    vf_logf("%s[", f ? "," : "");
    int first = 1;
    for (int b = 0; b < 64; b++) if (w & ((size_t)1 << b)) { vf_logf("%s%d", first ? "" : ",", f * 64 + b); first = 0; }
    vf_logf("]");
  }
  vf_logf("],\"behind\":[%zu,%zu]}", atomic_load_explicit(&B.behind[0], memory_order_relaxed) != 0 ? (size_t)1 : (size_t)0, atomic_load_explicit(&B.behind[1], memory_order_relaxed) != 0 ? (size_t)1 : (size_t)0); vf_log_line_end();
}
static void* bworker(void* arg) {
  brole_t* r = (brole_t*)arg;
  cur_t = r->t;
  vf_point();
  size_t held_cnt[4]; mi_bitmap_index_t held_idx[4]; int nheld = 0;
  for (int i = 0; i < r->nops; i++) {
    size_t count = counts[vf_randn(sizeof(counts) / sizeof(counts[0]))];
    mi_bitmap_index_t idx = 0; bool ok;
    if (r->purger) {      /* purge style: try to claim a specific small range, then release it */
      count = 1 + vf_randn(3);
      idx = mi_bitmap_index_create(vf_randn(NF), vf_randn(64 - count));
      vf_in_call = 1; ok = _mi_bitmap_try_claim(bm, NF, count, idx); vf_in_call = 0;
      vf_logf("{\"e\":\"claim\",\"t\":%d,\"kind\":\"try\",\"count\":%zu,\"ok\":%s,\"idx\":%zu}", r->t, count, ok ? "true" : "false", (size_t)idx); vf_log_line_end();
      if (ok) {
        vf_point();
        vf_logf("{\"e\":\"unclaim\",\"t\":%d,\"count\":%zu,\"idx\":%zu}", r->t, count, (size_t)idx); vf_log_line_end();
        vf_in_call = 1; bool all = _mi_bitmap_unclaim(bm, NF, count, idx); vf_in_call = 0;
        vf_logf("{\"e\":\"unclaimed\",\"t\":%d,\"all\":%s}", r->t, all ? "true" : "false"); vf_log_line_end();
      }
      continue;
    }
    /* hold up to three claims at a time so that the bitmap fills up and claims reach (and fail at) the end of the last word */
    if (nheld > 0 && (nheld >= 3 || vf_randn(3) == 0)) {
      int j = (int)vf_randn((uint64_t)nheld);
      size_t hc = held_cnt[j]; mi_bitmap_index_t hi = held_idx[j];
      held_cnt[j] = held_cnt[nheld - 1]; held_idx[j] = held_idx[nheld - 1]; nheld--;
      vf_logf("{\"e\":\"unclaim\",\"t\":%d,\"count\":%zu,\"idx\":%zu}", r->t, hc, (size_t)hi); vf_log_line_end();
      vf_in_call = 1; bool all = _mi_bitmap_unclaim_across(bm, NF, hc, hi); vf_in_call = 0;
      vf_logf("{\"e\":\"unclaimed\",\"t\":%d,\"all\":%s}", r->t, all ? "true" : "false"); vf_log_line_end();
      vf_point();
      continue;
    }
    size_t start = vf_randn(NF);
    vf_in_call = 1; ok = _mi_bitmap_try_find_from_claim_across(bm, NF, start, count, &idx); vf_in_call = 0;
    vf_logf("{\"e\":\"claim\",\"t\":%d,\"kind\":\"find\",\"count\":%zu,\"ok\":%s,\"idx\":%zu}", r->t, count, ok ? "true" : "false", ok ? (size_t)idx : 0); vf_log_line_end();
    if (ok) { held_cnt[nheld] = count; held_idx[nheld] = idx; nheld++; }
    vf_point();
  }
  while (nheld > 0) {
    nheld--;
    vf_logf("{\"e\":\"unclaim\",\"t\":%d,\"count\":%zu,\"idx\":%zu}", r->t, held_cnt[nheld], (size_t)held_idx[nheld]); vf_log_line_end();
    vf_in_call = 1; bool all = _mi_bitmap_unclaim_across(bm, NF, held_cnt[nheld], held_idx[nheld]); vf_in_call = 0;
    vf_logf("{\"e\":\"unclaimed\",\"t\":%d,\"all\":%s}", r->t, all ? "true" : "false"); vf_log_line_end();
    vf_point();
  }
  return NULL;
}
static int run_one(const char* out, uint64_t seed) {
  vf_rng_state = seed * 0x9E3779B97F4A7C15ull + 4242;
  vf_log_fd = open(out, O_WRONLY | O_APPEND | O_CREAT, 0644);
  { struct sigaction sa; memset(&sa, 0, sizeof(sa)); sa.sa_handler = vf_crash_handler; sigaction(SIGSEGV, &sa, NULL); sigaction(SIGABRT, &sa, NULL); sigaction(SIGALRM, &sa, NULL); }
  alarm(20);
  vf_sched_begin(seed);
  vf_region_add((void*)&B, sizeof(B));
  for (int f = 0; f < NF; f++) atomic_store(&bm[f], 0);
  atomic_store(&B.behind[0], 0); atomic_store(&B.behind[1], 0);
  blocked_tail = vf_randn(3) == 0 ? 0 : 1 + vf_randn(40);
  if (blocked_tail > 0) atomic_store(&bm[NF - 1], ~(size_t)0 << (64 - blocked_tail));
  int mode = (int)vf_randn(3);
  if (mode == 1) {          /* a nearly full bitmap (as after a long history): only short runs are free, one of them at the very top */
    size_t k = 1 + vf_randn(30);
    for (int f = 0; f < NF; f++) { size_t w = 0; for (int b = 0; b < 64; b++) if (vf_randn(8) != 0) w |= (size_t)1 << b; atomic_store(&bm[f], w); }
    atomic_store(&bm[NF - 1], (atomic_load(&bm[NF - 1]) | (~(size_t)0 >> k)) & (~(size_t)0 >> k));   /* top k bits free, the rest of the last word taken */
  }
  else if (mode == 2 && blocked_tail == 0) {   /* free runs that straddle the word boundaries and the top */
    size_t k = 1 + vf_randn(40), j = 1 + vf_randn(40);
    atomic_store(&bm[NF - 1], (~(size_t)0 >> k) & (~(size_t)0 << j));
    atomic_store(&bm[0], ((size_t)1 << (64 - j)) - 1);
  }
  log_words("init");
  int nt = 2 + (int)vf_randn(3);
  for (int k = 0; k < nt; k++) { broles[k + 1].t = k + 1; broles[k + 1].nops = 4 + (int)vf_randn(6); broles[k + 1].purger = (k == nt - 1 && vf_randn(2)); vf_spawn(bworker, &broles[k + 1]); }
  vf_sched_go();
  vf_wait_all();
  log_words("final");
  vf_logf("{\"e\":\"end\",\"steps\":%ld,\"switches\":%ld}", vf_step, vf_switches); vf_log_line_end();
  vf_log_flush();
  return 0;
}
int main(int argc, char** argv) {
  const char* out = NULL; uint64_t seed = 1; int runs = 1; const char* strat = "random";
  for (int i = 1; i < argc; i++) {
    if (!strcmp(argv[i], "--out") && i + 1 < argc) out = argv[++i];
    else if (!strcmp(argv[i], "--seed") && i + 1 < argc) seed = strtoull(argv[++i], NULL, 10);
    else if (!strcmp(argv[i], "--runs") && i + 1 < argc) runs = atoi(argv[++i]);
    else if (!strcmp(argv[i], "--strategy") && i + 1 < argc) strat = argv[++i];
    else if (!strcmp(argv[i], "--rate") && i + 1 < argc) vf_switch_rate = atoi(argv[++i]);
    else return 2;
  }
  if (!out) return 2;
  if (!strcmp(strat, "pct")) { vf_strategy = VF_S_PCT; vf_pct_d = 3; }
  { int fd = open(out, O_WRONLY | O_CREAT | O_TRUNC, 0644); if (fd < 0) return 3; close(fd); }
  for (int r = 0; r < runs; r++) {
    if (r > 0) { int fd = open(out, O_WRONLY | O_APPEND); (void)!write(fd, "{\"e\":\"reset\"}\n", 14); close(fd); }
    pid_t pid = fork();
    if (pid == 0) { _exit(run_one(out, seed + (uint64_t)r)); }
    int st = 0; waitpid(pid, &st, 0);
  }
  return 0;
}
