/* drv_bins.c -- C16: dumps conformance tables of mimalloc's size-class and address arithmetic, as computed by the
   COMPILED code of the current working tree (the allocator is one TU, so internal/static functions are called directly).
   It only enumerates inputs and logs results as ndjson rows; BinsTrace.tla (TLC) judges every row.
   No logged integer is >= 2^31: 64-bit quantities are logged as 4 limbs of 20 bits [x>>60, x>>40, x>>20, x] (big-endian),
   addresses as [a>>20, a&0xFFFFF], everything inside a segment as an offset from the segment base. */
#include "vf_mi.c"
#include "vf_rt.h"

static long nrows = 0;
#define ROW_END() do { vf_log_line_end(); nrows++; } while (0)

/* 64-bit value as 4 limbs of 20 bits, big-endian; rotating buffers so several can be used in one printf */
static const char* L4(uint64_t x) {
  static char bufs[8][64]; static int k = 0;
  char* b = bufs[k++ & 7];
  snprintf(b, 64, "[%lu,%lu,%lu,%lu]", (unsigned long)(x >> 60), (unsigned long)((x >> 40) & 0xFFFFF),
           (unsigned long)((x >> 20) & 0xFFFFF), (unsigned long)(x & 0xFFFFF));
  return b;
}
static const char* A2(const void* p) {
  static char bufs[8][48]; static int k = 0;
  char* b = bufs[k++ & 7];
  snprintf(b, 48, "[%ld,%ld]", VF_HI(p), VF_LO(p));
  return b;
}
/* clamp a (possibly garbage) signed difference into the loggable range */
static long clampl(int64_t v) { if (v > 0x7FFFFFFF) return 0x7FFFFFFF; if (v < -0x7FFFFFFF) return -0x7FFFFFFF; return (long)v; }

static const char* build_name(void) {
#if MI_SECURE >= 4
  return "sec";
#elif MI_DEBUG >= 1
  return "dbg";
#else
  return "rel";
#endif
}

/* ------------------------------------------------------------------ size classes */
/* one request size: class functions, then a real mi_malloc(n) whose usable size and page block size are measured.
   ph names the pass (history of the heap at that moment); the block is returned (kept live) if keep, else freed. */
static void* row_bin_ph(size_t n, const char* ph, int keep) {
  size_t bin = _mi_bin(n), bin1 = _mi_bin(n + 1);
  size_t bsz = _mi_bin_size(bin);
  size_t good = mi_good_size(n);
  size_t g2 = mi_good_size(good);                                     /* literal idempotence */
  size_t g2p = mi_good_size(good >= MI_PADDING_SIZE ? good - MI_PADDING_SIZE : 0);   /* idempotence modulo the build's padding */
  void* p = mi_malloc(n);
  long us = -1, pbs = -1;
  if (p != NULL) {
    us = (long)mi_usable_size(p);
    pbs = (long)mi_page_block_size(_mi_ptr_page(p));
    if (!keep) { mi_free(p); p = NULL; }
  }
  vf_logf("{\"k\":\"bin\",\"ph\":\"%s\",\"n\":%zu,\"bin\":%zu,\"bin1\":%zu,\"bsz\":%zu,\"good\":%zu,\"g2\":%zu,\"g2p\":%zu,\"us\":%ld,\"pbs\":%ld}",
          ph, n, bin, bin1, bsz, good, g2, g2p, us, pbs);
  ROW_END();
  return p;
}
static void row_bin(size_t n) { (void)row_bin_ph(n, "asc", 0); }

/* ---- history passes: the same (n, good size, served block) rows, measured in heaps whose page queues have a history.
   A pool of live blocks keeps pages of many classes present; replacing pool entries frees older blocks, so pages fill up,
   move to the full queue, come back, retire: the heads of the size-class queues (and with them the direct small-page table
   heap->pages_free_direct) keep changing between the measured requests. */
#define POOLN 4096
static void* pool[POOLN];
static void pool_put(void* p) {
  if (p == NULL) return;
  size_t i = (size_t)vf_randn(POOLN);
  if (pool[i] != NULL) mi_free(pool[i]);
  pool[i] = p;
}
static void pool_free_some(int k) {
  for (int j = 0; j < k; j++) { size_t i = (size_t)vf_randn(POOLN); if (pool[i] != NULL) { mi_free(pool[i]); pool[i] = NULL; } }
}
static void pool_clear(void) { for (size_t i = 0; i < POOLN; i++) if (pool[i] != NULL) { mi_free(pool[i]); pool[i] = NULL; } }
static int keep_decision(size_t n) { return n <= 2048 ? (vf_randn(3) == 0) : (n <= 16384 ? (vf_randn(12) == 0) : (vf_randn(80) == 0)); }

/* the request sizes of a history pass: thin = all n <= 1100 plus one word either side of every boundary of the compiled bin
   function (with and without the padding shift) and of the OS-page rounding above the medium maximum; else every size */
static size_t* hist_ns = NULL; static size_t hist_cnt = 0;
static void hist_build(size_t nmax, int thin) {
  hist_ns = (size_t*)malloc((nmax + 2) * sizeof(size_t)); hist_cnt = 0;
  const size_t W = MI_INTPTR_SIZE;
  for (size_t n = 0; n <= nmax; n++) {
    int take = !thin || n <= 1100 || n + 2 >= nmax;
    if (!take) {
      for (size_t m = (n > W + 1 ? n - W - 1 : 0); m <= n + W && !take; m++) {
        if (_mi_bin(m) != _mi_bin(m + 1) || _mi_bin(m + MI_PADDING_SIZE) != _mi_bin(m + MI_PADDING_SIZE + 1)) take = 1;
        if (m > MI_MEDIUM_OBJ_SIZE_MAX - 2 * W && ((m + MI_PADDING_SIZE) % 4096 == 0)) take = 1;
      }
    }
    if (take) hist_ns[hist_cnt++] = n;
  }
}
static void hist_passes(int thorough) {
  /* (b) second ascending pass; first one live block at the top of every class, allocated in ascending order */
  static void* seedblk[128]; int nseed = 0;
  for (size_t i = 0; i < hist_cnt; i++) {
    size_t n = hist_ns[i];
    if (_mi_bin(n) != _mi_bin(n + 1) && n <= MI_MEDIUM_OBJ_SIZE_MAX && nseed < 128) seedblk[nseed++] = mi_malloc(n - (n >= MI_PADDING_SIZE ? MI_PADDING_SIZE : 0));
  }
  for (size_t i = 0; i < hist_cnt; i++) { size_t n = hist_ns[i]; pool_put(row_bin_ph(n, "asc2", keep_decision(n))); }
  /* (c) descending pass */
  for (size_t i = hist_cnt; i-- > 0; ) { size_t n = hist_ns[i]; pool_put(row_bin_ph(n, "desc", keep_decision(n))); if (vf_randn(16) == 0) pool_free_some(3); }
  /* (d) seeded random order with bursts of same-size allocations and interleaved frees */
  long ops = thorough ? 150000 : 15000;
  for (long k = 0; k < ops; k++) {
    size_t n;
    switch (vf_randn(10)) {
      case 0: n = (size_t)vf_randn(hist_ns[hist_cnt - 1] + 1); break;
      case 1: case 2: case 3: n = hist_ns[vf_randn(hist_cnt)]; break;
      default: n = (size_t)vf_randn(1101); break;
    }
    if (vf_randn(8) == 0) { int burst = 1 + (int)vf_randn(n <= 1024 ? 60 : 6); for (int j = 0; j < burst; j++) pool_put(mi_malloc(n)); }
    pool_put(row_bin_ph(n, "rnd", keep_decision(n)));
    if (vf_randn(3) == 0) pool_free_some(1 + (int)vf_randn(24));
    if (vf_randn(2000) == 0) mi_collect(false);
  }
  for (int i = 0; i < nseed; i++) mi_free(seedblk[i]);
}
/* (e) once more ascending, late: pages of every block size are live at several positions (address arithmetic section) */
static void hist_late(void) { for (size_t i = 0; i < hist_cnt; i++) (void)row_bin_ph(hist_ns[i], "late", 0); }

static void row_bigbin(uint64_t n) {
  size_t bin = _mi_bin(n), bin1 = _mi_bin(n + 1);
  uint64_t good = mi_good_size(n);
  uint64_t g2 = mi_good_size(good);
  uint64_t g2p = mi_good_size(good - MI_PADDING_SIZE);
  vf_logf("{\"k\":\"bigbin\",\"n\":%s,\"bin\":%zu,\"bin1\":%zu,\"good\":%s,\"g2\":%s,\"g2p\":%s}", L4(n), bin, bin1, L4(good), L4(g2), L4(g2p));
  ROW_END();
}

/* ------------------------------------------------------------------ pages at many positions */
#define MAXSIZES 160
#define MAXPG 16
typedef struct { size_t bs; const char* pk; mi_page_t* pages[MAXPG]; int npages; } szent_t;
static szent_t sizes[MAXSIZES];
static int nsizes = 0;
static void** keep = NULL; static size_t nkeep = 0, capkeep = 0;
static void keep_add(void* p) {
  if (nkeep == capkeep) { capkeep = capkeep ? capkeep * 2 : 4096; keep = (void**)realloc(keep, capkeep * sizeof(void*)); }
  keep[nkeep++] = p;
}
/* the page that contains p, found by range search over the heap's page queues (independent of the pointer arithmetic under test) */
static mi_page_t* true_page_of(mi_heap_t* heap, const void* p) {
  for (size_t b = 0; b <= MI_BIN_FULL; b++) {
    for (mi_page_t* pg = heap->pages[b].first; pg != NULL; pg = pg->next) {
      const uint8_t* s = pg->page_start;
      size_t extent = (size_t)pg->reserved * pg->block_size;
      if (s != NULL && (const uint8_t*)p >= s && (const uint8_t*)p < s + extent) return pg;
    }
  }
  return NULL;
}
static int in_page(const mi_page_t* pg, const void* p) {
  return pg != NULL && (const uint8_t*)p >= pg->page_start && (const uint8_t*)p < pg->page_start + (size_t)pg->reserved * pg->block_size;
}
static void add_size(size_t bs, const char* pk) {
  for (int i = 0; i < nsizes; i++) if (sizes[i].bs == bs) return;
  if (nsizes < MAXSIZES) { sizes[nsizes].bs = bs; sizes[nsizes].pk = pk; sizes[nsizes].npages = 0; nsizes++; }
}
/* allocate blocks of block size e->bs until one lands in a page not seen before for this size */
static void grow_one_page(mi_heap_t* heap, szent_t* e) {
  if (e->npages >= MAXPG) return;
  size_t req = e->bs - MI_PADDING_SIZE;
  mi_page_t* last = (e->npages > 0 ? e->pages[e->npages - 1] : NULL);
  for (long tries = 0; tries < 70000; tries++) {
    void* p = mi_malloc(req);
    if (p == NULL) return;
    keep_add(p);
    if (in_page(last, p)) continue;
    mi_page_t* pg = true_page_of(heap, p);
    if (pg == NULL) return;
    int seen = 0;
    for (int i = 0; i < e->npages; i++) if (e->pages[i] == pg) seen = 1;
    if (!seen) { e->pages[e->npages++] = pg; return; }
    last = pg;
  }
}

static void row_unalign(const char* pk, mi_page_t* pg, size_t bi, size_t io) {
  /* segment of the page by masking the address of its meta data (which lives in the first slice of its segment) */
  uint8_t* seg = (uint8_t*)((uintptr_t)pg & ~((uintptr_t)MI_SEGMENT_SIZE - 1));
  mi_segment_t* segment = (mi_segment_t*)seg;
  size_t bs = pg->block_size;
  long sl = (long)((mi_slice_t*)pg - segment->slices);
  uint8_t* slice_start = seg + (size_t)sl * MI_SEGMENT_SLICE_SIZE;
  uint8_t* p = pg->page_start + bi * bs + io;
  mi_block_t* res = _mi_page_ptr_unalign(pg, p);
  mi_segment_t* pseg = _mi_ptr_segment(p);
  mi_page_t* ppg = _mi_segment_page_of(pseg, p);
  long psl = clampl(((int64_t)((uint8_t*)ppg - (uint8_t*)pseg->slices)) / (int64_t)sizeof(mi_slice_t));
  vf_logf("{\"k\":\"unalign\",\"pk\":\"%s\",\"seg\":%s,\"sl\":%ld,\"sc\":%u,\"pm\":%zu,\"po\":%ld,\"bs\":%zu,\"sh\":%u,\"rsv\":%u,"
          "\"bi\":%zu,\"io\":%zu,\"off\":%ld,\"res\":%ld,\"pseg\":%s,\"psl\":%ld}",
          pk, A2(seg), sl, (unsigned)pg->slice_count, (size_t)((uintptr_t)slice_start % bs), clampl(pg->page_start - seg), bs,
          (unsigned)pg->block_size_shift, (unsigned)pg->reserved, bi, io, clampl(p - seg), clampl((uint8_t*)res - seg), A2(pseg), psl);
  ROW_END();
}
/* full: every block index of the page; otherwise fixed indices {0,1,2,last,last-1,middle} plus seeded random ones */
static void rows_for_page(const char* pk, mi_page_t* pg, int thorough, int full) {
  size_t bs = pg->block_size, rsv = pg->reserved;
  static size_t idx[70000]; size_t ni = 0;
  if (full) { for (size_t i = 0; i < rsv; i++) idx[ni++] = i; }
  else {
    size_t fixed[6] = { 0, 1, 2, rsv - 1, rsv / 2, (rsv > 2 ? rsv - 2 : 0) };
    for (int i = 0; i < 6; i++) if (fixed[i] < rsv) idx[ni++] = fixed[i];
    int nr = thorough ? 58 : 4;
    for (int i = 0; i < nr; i++) idx[ni++] = (size_t)vf_randn(rsv);
  }
  for (size_t i = 0; i < ni; i++) {
    size_t offs[6] = { 0, 1, bs / 2, bs - 1, (size_t)vf_randn(bs), (size_t)vf_randn(bs) };
    int no = thorough ? 6 : 4;
    for (int j = 0; j < no; j++) {
      size_t io = offs[j];
      /* interior pointers deeper than MI_BLOCK_ALIGNMENT_MAX into a (huge) block are not produced by the allocator */
      if (io >= MI_BLOCK_ALIGNMENT_MAX) io = MI_BLOCK_ALIGNMENT_MAX - 1 - (size_t)(j * 4099);
      row_unalign(pk, pg, idx[i], io);
    }
  }
}

/* ------------------------------------------------------------------ helper functions on boundary classes */
static void rows_align(void) {
  static const uint64_t als[] = { 1, 2, 8, 16, 64, 4096, 65536, 1u << 20, 1u << 25, 1u << 30, 3, 24, 48, 80, 1000, 12288, 81920, 327680, 1048575 };
  for (size_t a = 0; a < sizeof(als) / sizeof(als[0]); a++) {
    uint64_t al = als[a];
    uint64_t szs[] = { 0, 1, al - 1, al, al + 1, 2 * al - 1, 2 * al, 7 * al + 3, 4095, 4096, 4097, 65535, 65536, 65537,
                       0x7FFFFFFFull, 0x80000000ull, 0xFFFFFFFFull, 0x100000000ull, 0x100000001ull, 1ull << 47,
                       (uint64_t)PTRDIFF_MAX - al, (uint64_t)PTRDIFF_MAX, (uint64_t)MI_MAX_ALLOC_SIZE, (uint64_t)MI_MAX_ALLOC_SIZE + 1,
                       SIZE_MAX - 2 * al, SIZE_MAX - al - 1, SIZE_MAX - al, vf_rand() >> 1, vf_rand() >> 3, vf_rand() >> 17 };
    for (size_t i = 0; i < sizeof(szs) / sizeof(szs[0]); i++) {
      uint64_t sz = szs[i];
      if (sz > SIZE_MAX - al) continue;                       /* the helpers do not promise anything when sz + al wraps */
      vf_logf("{\"k\":\"alignup\",\"sz\":%s,\"al\":%lu,\"r\":%s}", L4(sz), (unsigned long)al, L4(_mi_align_up(sz, al))); ROW_END();
      vf_logf("{\"k\":\"aligndown\",\"sz\":%s,\"al\":%lu,\"r\":%s}", L4(sz), (unsigned long)al, L4(_mi_align_down(sz, al))); ROW_END();
      vf_logf("{\"k\":\"divup\",\"sz\":%s,\"al\":%lu,\"r\":%s}", L4(sz), (unsigned long)al, L4(_mi_divide_up(sz, al))); ROW_END();
    }
  }
}
static void row_mul(uint64_t a, uint64_t b) {
  size_t tot = 0;
  bool ovf = mi_mul_overflow(a, b, &tot);
  vf_logf("{\"k\":\"mulov\",\"a\":%s,\"b\":%s,\"ovf\":%d,\"tot\":%s}", L4(a), L4(b), ovf ? 1 : 0, L4(tot)); ROW_END();
  size_t tot2 = 0;
  bool ovf2 = mi_count_size_overflow(a, b, &tot2);
  vf_logf("{\"k\":\"cntov\",\"a\":%s,\"b\":%s,\"ovf\":%d,\"tot\":%s}", L4(a), L4(b), ovf2 ? 1 : 0, L4(tot2)); ROW_END();
}
static void rows_mul(int thorough) {
  static const uint64_t v[] = { 0, 1, 2, 3, 7, 8, 16, 1000, 65536, 0x7FFFFFFFull, 0x80000000ull, 0xFFFFFFFFull, 0x100000000ull, 0x100000001ull,
                                1ull << 47, (uint64_t)PTRDIFF_MAX, (uint64_t)PTRDIFF_MAX + 1, SIZE_MAX / 3, SIZE_MAX / 3 + 1, SIZE_MAX / 2,
                                SIZE_MAX / 2 + 1, SIZE_MAX - 1, SIZE_MAX, 0x5555555555555555ull, 0xFFFFFFFF00000000ull };
  size_t nv = sizeof(v) / sizeof(v[0]);
  for (size_t i = 0; i < nv; i++) for (size_t j = 0; j < nv; j++) row_mul(v[i], v[j]);
  int nr = thorough ? 4000 : 300;
  for (int i = 0; i < nr; i++) {
    /* random pairs whose product is close to 2^64 on either side */
    uint64_t a = (vf_rand() >> (int)vf_randn(63)) | 1;
    uint64_t q = SIZE_MAX / a;
    int64_t d = (int64_t)vf_randn(5) - 2;
    uint64_t b = (d < 0 && q < (uint64_t)(-d)) ? q : q + (uint64_t)d;
    row_mul(a, b);
    row_mul(vf_rand() >> (int)vf_randn(64), vf_rand() >> (int)vf_randn(64));
  }
}

/* ------------------------------------------------------------------ fast divide of the heap walk */
static void row_fdiv(const char* dom, size_t n, size_t d) {
  uint64_t magic; size_t shift;
  mi_get_fast_divisor(d, &magic, &shift);
  size_t q = mi_fast_divide(n, magic, shift);
  vf_logf("{\"k\":\"fdiv\",\"dom\":\"%s\",\"n\":%zu,\"d\":%zu,\"q\":%ld,\"sh\":%zu,\"mg\":[%lu,%lu]}", dom, n, d, clampl((int64_t)q), shift,
          (unsigned long)(magic >> 20), (unsigned long)(magic & 0xFFFFF));
  ROW_END();
}
static void rows_fdiv(int thorough) {
  /* the walk divides offsets of blocks (multiples of bsize below the page size) of pages with more than one block */
  for (int i = 0; i < nsizes; i++) {
    size_t bs = sizes[i].bs;
    if (bs > MI_MEDIUM_OBJ_SIZE_MAX) continue;
    size_t psize = (bs <= MI_SMALL_OBJ_SIZE_MAX ? MI_SMALL_PAGE_SIZE : MI_MEDIUM_PAGE_SIZE);
    size_t cnt = psize / bs;
    if (thorough) { for (size_t j = 0; j <= cnt; j++) row_fdiv("walk", j * bs, bs); }
    else {
      size_t js[8] = { 0, 1, 2, 3, cnt / 2, cnt - 1, cnt, (size_t)vf_randn(cnt) };
      for (int j = 0; j < 8; j++) row_fdiv("walk", js[j] * bs, bs);
    }
  }
  /* outside the walk's domain (informative): arbitrary n < 2^31, block sizes and arbitrary divisors */
  int nr = thorough ? 20000 : 1500;
  for (int i = 0; i < nr; i++) {
    size_t d = (i % 2 == 0 && nsizes > 0) ? sizes[vf_randn((uint64_t)nsizes)].bs : (size_t)(1 + vf_randn(1u << (1 + vf_randn(26))));
    if (d >= (1u << 27)) d = (1u << 27) - 1;
    size_t n = (size_t)(vf_rand() >> (33 + vf_randn(20)));
    switch (vf_randn(4)) { case 0: n = (n / d) * d; break; case 1: n = (n / d) * d + d - 1; break; default: break; }
    if (n > 0x7FFFFFFFul) n = 0x7FFFFFFFul;
    row_fdiv("any", n, d);
  }
}

int main(int argc, char** argv) {
  const char* out = NULL; const char* tier = "quick"; uint64_t seed = 1; long stride = 1;
  for (int i = 1; i < argc; i++) {
    if (!strcmp(argv[i], "--out") && i + 1 < argc) out = argv[++i];
    else if (!strcmp(argv[i], "--seed") && i + 1 < argc) seed = strtoull(argv[++i], NULL, 10);
    else if (!strcmp(argv[i], "--tier") && i + 1 < argc) tier = argv[++i];
    else if (!strcmp(argv[i], "--stride") && i + 1 < argc) stride = atol(argv[++i]);
    else { fprintf(stderr, "usage: drv_bins --out FILE [--tier quick|thorough] [--seed N] [--stride K]\n"); return 2; }
  }
  if (!out) { fprintf(stderr, "drv_bins: --out required\n"); return 2; }
  if (stride < 1) stride = 1;
  int thorough = !strcmp(tier, "thorough");
  vf_rng_state = seed * 0x9E3779B97F4A7C15ull + 777;
  vf_log_open(out);
  mi_heap_t* heap = mi_heap_get_backing();
  { void* w = mi_malloc(1); mi_free(w); heap = mi_heap_get_backing(); }

  vf_logf("{\"k\":\"cfg\",\"build\":\"%s\",\"pad\":%d,\"dbg\":%d,\"sec\":%d,\"intptr\":%d,\"maxalign\":%d,\"slice\":%ld,\"segslices\":%ld,"
          "\"smallmax\":%ld,\"medmax\":%ld,\"largemax\":%ld,\"binhuge\":%d,\"segbinmax\":%d,\"ospage\":%ld,\"maxsliceoff\":%ld,"
          "\"alignmax\":%ld,\"alignguar\":%ld,\"tier\":\"%s\",\"stride\":%ld}",
          build_name(), (int)MI_PADDING_SIZE, (int)MI_DEBUG, (int)MI_SECURE, (int)MI_INTPTR_SIZE, (int)MI_MAX_ALIGN_SIZE,
          (long)MI_SEGMENT_SLICE_SIZE, (long)MI_SLICES_PER_SEGMENT, (long)MI_SMALL_OBJ_SIZE_MAX, (long)MI_MEDIUM_OBJ_SIZE_MAX,
          (long)MI_LARGE_OBJ_SIZE_MAX, (int)MI_BIN_HUGE, (int)MI_SEGMENT_BIN_MAX, (long)_mi_os_page_size(), (long)MI_MAX_SLICE_OFFSET_COUNT,
          (long)MI_BLOCK_ALIGNMENT_MAX, (long)MI_MAX_ALIGN_GUARANTEE, tier, stride);
  ROW_END();

  /* 1. block size of every bin */
  for (size_t b = 0; b <= MI_BIN_FULL; b++) { vf_logf("{\"k\":\"binsize\",\"bin\":%zu,\"size\":%zu}", b, _mi_bin_size(b)); ROW_END(); }

  /* 2. every request size 0 .. 2*MI_MEDIUM_OBJ_SIZE_MAX+1 (stride > 1: every stride-th size plus both sides of every class boundary) */
  const size_t nmax = 2 * MI_MEDIUM_OBJ_SIZE_MAX + 1;
  for (size_t n = 0; n <= nmax; n++) {
    int take = (stride == 1) || (n % (size_t)stride == 0) || n <= 1100 || n + 2 >= nmax;
    if (!take) {
      /* both sides of a boundary of the compiled bin function, of the page-size rounding above the medium maximum, and of the padding shift */
      if (_mi_bin(n) != _mi_bin(n + 1) || _mi_bin(n - 1) != _mi_bin(n) || _mi_bin(n + MI_PADDING_SIZE) != _mi_bin(n + MI_PADDING_SIZE + 1)
          || _mi_bin(n + MI_PADDING_SIZE - 1) != _mi_bin(n + MI_PADDING_SIZE) || (n % 4096) <= 1 || (n % 4096) >= 4095 - MI_PADDING_SIZE) take = 1;
    }
    if (take) row_bin(n);
  }
  /* 2b. the same rows in heaps with history: second ascending pass, descending pass, seeded random order */
  hist_build(nmax, !thorough);
  hist_passes(thorough);
  pool_clear();
  /* 3. boundaries above: really allocated up to 48 MiB, by value classes up to PTRDIFF_MAX */
  {
    static const size_t bnd[] = { 512 * 1024ul, 2 * 1024 * 1024ul, 8 * 1024 * 1024ul, MI_LARGE_OBJ_SIZE_MAX, 32 * 1024 * 1024ul, 48 * 1024 * 1024ul,
                                  MI_SEGMENT_SIZE, 3 * 65536ul, 1000000ul, 5000000ul };
    for (size_t i = 0; i < sizeof(bnd) / sizeof(bnd[0]); i++)
      for (long d = -(long)(2 * MI_PADDING_SIZE + 2); d <= (long)(2 * MI_PADDING_SIZE + 2); d++) row_bin(bnd[i] + d);
    static const uint64_t big[] = { 0x7FFFFFFFull, 0x80000000ull, 0xFFFFFFFFull, 0x100000000ull, 1ull << 40, 1ull << 47, (1ull << 47) + 12345,
                                    (uint64_t)MI_MAX_ALLOC_SIZE, (uint64_t)PTRDIFF_MAX - 8192, (uint64_t)PTRDIFF_MAX - 4096, (uint64_t)PTRDIFF_MAX };
    for (size_t i = 0; i < sizeof(big) / sizeof(big[0]); i++)
      for (long d = -9; d <= 9; d++) { uint64_t x = big[i] + (uint64_t)d; if (x <= (uint64_t)PTRDIFF_MAX) row_bigbin(x); }
  }

  /* 4. span bins */
  for (size_t c = 0; c <= MI_SLICES_PER_SEGMENT; c++) {
    vf_logf("{\"k\":\"slicebin\",\"c\":%zu,\"bin\":%zu,\"bin1\":%zu}", c, mi_slice_bin(c), mi_slice_bin(c < MI_SLICES_PER_SEGMENT ? c + 1 : c));
    ROW_END();
  }

  /* 5. address arithmetic: pages of every block size at several positions */
  for (size_t b = 1; b < MI_BIN_HUGE; b++) {
    size_t bs = _mi_bin_size(b);
    if (bs <= MI_MEDIUM_OBJ_SIZE_MAX) { if (_mi_bin_size(_mi_bin(bs)) == bs) add_size(bs, bs <= MI_SMALL_OBJ_SIZE_MAX ? "small" : "medium"); }
    else if (_mi_os_good_alloc_size(bs) == bs) add_size(bs, "large");           /* table sizes above the medium maximum exist as large pages */
  }
  { static const size_t xl[] = { 69632, 73728, 131072, 200704, 524288, 1048576, 3 * 1048576ul, 5 * 1048576ul, 8 * 1048576ul, 16 * 1048576ul };
    for (size_t i = 0; i < sizeof(xl) / sizeof(xl[0]); i++) if (_mi_os_good_alloc_size(xl[i]) == xl[i]) add_size(xl[i], "large"); }
  int rounds = thorough ? 8 : 3;
  for (int r = 0; r < rounds; r++) {
    for (int i = 0; i < nsizes; i++) {
      if (sizes[i].bs > 4 * 1048576ul && r >= 3) continue;
      grow_one_page(heap, &sizes[i]);
    }
    /* shift the positions of the next round's pages */
    for (int j = 0; j <= r; j++) { void* p = mi_malloc(65536 * (size_t)(1 + 2 * j) - MI_PADDING_SIZE + 1); if (p) keep_add(p); }
  }
  for (int i = 0; i < nsizes; i++) for (int j = 0; j < sizes[i].npages; j++) {
    mi_page_t* pg = sizes[i].pages[j];
    /* thorough: every block of every page with at most 1024 blocks, and of the first and last page of the denser sizes */
    int full = thorough && (pg->reserved <= 1024 || j == 0 || j == sizes[i].npages - 1);
    rows_for_page(sizes[i].pk, pg, thorough, full);
  }
  /* huge pages (own segment) */
  { static const size_t hs[] = { 17 * 1048576ul, 33 * 1048576ul + 4096, 70 * 1048576ul };
    for (size_t i = 0; i < sizeof(hs) / sizeof(hs[0]); i++) {
      void* p = mi_malloc(hs[i]);
      if (p == NULL) continue;
      mi_page_t* pg = true_page_of(heap, p);
      if (pg != NULL) rows_for_page("huge", pg, thorough, 0);
      mi_free(p);
    } }
  /* pointers as the allocator itself produces them: aligned allocations inside a block */
  { static const size_t als[] = { 32, 64, 256, 4096, 65536, 1048576, 4 * 1048576ul, MI_BLOCK_ALIGNMENT_MAX };
    static const size_t szs[] = { 1, 24, 100, 1000, 5000, 40000, 70000, 600000 };
    for (size_t a = 0; a < sizeof(als) / sizeof(als[0]); a++) for (size_t s = 0; s < sizeof(szs) / sizeof(szs[0]); s++) {
      void* p = mi_malloc_aligned(szs[s], als[a]);
      if (p == NULL) continue;
      mi_page_t* pg = true_page_of(heap, p);
      if (pg != NULL) {
        size_t d = (size_t)((uint8_t*)p - pg->page_start);
        row_unalign("aligned", pg, d / pg->block_size, d % pg->block_size);
      }
      mi_free(p);
    } }

  hist_late();
  /* 6. fast divide, 7. align/divide/overflow helpers */
  rows_fdiv(thorough);
  rows_align();
  rows_mul(thorough);

  for (size_t i = 0; i < nkeep; i++) mi_free(keep[i]);
  free(keep);
  vf_logf("{\"k\":\"end\",\"rows\":%ld}", nrows); ROW_END();
  vf_log_close();
  return 0;
}
