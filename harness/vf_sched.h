/* vf_sched.h -- deterministic scheduler over real pthreads (baton passing): exactly one virtual thread runs at a time;
   every hooked atomic operation on a TRACKED address, every yield / lock operation and every explicit vf_point() is a
   scheduling point.  Strategies: random, pct(d), replay(list), guided(list of <thread, steps>), dfs prefix.
   Included after vf_mi.c and vf_rt.h by the concurrent drivers (hook builds only). */
#ifndef VF_SCHED_H
#define VF_SCHED_H
#include <semaphore.h>

#define VF_MAXT 8
enum { VF_T_UNUSED = 0, VF_T_RUNNABLE, VF_T_WAITING /* main waiting for the others */, VF_T_DONE };
typedef struct { pthread_t th; sem_t sem; int state; int yielded; int prio; void* (*fn)(void*); void* arg; long steps; } vf_thread_t;
static vf_thread_t vf_th[VF_MAXT];
static int vf_nth = 0;
static __thread int vf_self = -1;
static volatile int vf_active = 0;
static volatile int vf_cur = 0;
static __thread int vf_in_hook = 0;

/* strategy */
enum { VF_S_RANDOM = 0, VF_S_PCT, VF_S_REPLAY, VF_S_GUIDED, VF_S_DFS };
static int vf_strategy = VF_S_RANDOM;
static uint64_t vf_srng = 88172645463325252ull;
static int vf_switch_rate = 4;            /* random: switch with probability 1/rate at a scheduling point */
static long vf_step = 0;                  /* global count of scheduling points */
static long vf_switches = 0;
static int vf_spurious_left = 0;          /* remaining spurious weak-CAS failures in this run */
static int vf_spurious_rate = 0;          /* 1/rate of the weak CAS operations fail spuriously (0 = never) */
#define VF_MAXSCHED 4096
static int vf_sched_list[VF_MAXSCHED]; static int vf_sched_len = 0; static int vf_sched_pos = 0;   /* replay / guided / dfs */
static int vf_sched_cnt[VF_MAXSCHED];     /* guided: steps to run the thread */
static long vf_pct_change[8]; static int vf_pct_d = 0;
static unsigned long vf_ophash = 1469598103934665603ull;   /* hash of (thread, kind) sequence: determinism check */
static int vf_preempts = 0;

static inline uint64_t vf_srand(void) { vf_srng ^= vf_srng << 13; vf_srng ^= vf_srng >> 7; vf_srng ^= vf_srng << 17; return vf_srng; }

/* ---- tracked addresses: allocator memory seen by the shim (segments, arenas, thread metadata) + a few statics */
#define VF_MAXREG 256
static struct { uintptr_t a, e; } vf_regions[VF_MAXREG]; static int vf_nregions = 0;
static void vf_region_add(void* a, size_t len) { if (vf_nregions < VF_MAXREG) { vf_regions[vf_nregions].a = (uintptr_t)a; vf_regions[vf_nregions].e = (uintptr_t)a + len; vf_nregions++; } }
static int vf_tracked(const volatile void* addr) {
  uintptr_t x = (uintptr_t)addr;
  for (int i = 0; i < vf_nregions; i++) if (x >= vf_regions[i].a && x < vf_regions[i].e) return 1;
  if (x >= (uintptr_t)&_mi_heap_main && x < (uintptr_t)(&_mi_heap_main + 1)) return 1;
  if (x >= (uintptr_t)&mi_subproc_default && x < (uintptr_t)(&mi_subproc_default + 1)) return 1;
  if (x >= (uintptr_t)&mi_arenas[0] && x < (uintptr_t)&mi_arenas[MI_MAX_ARENAS]) return 1;
  if (x == (uintptr_t)&mi_arena_count || x == (uintptr_t)&mi_arenas_purge_expire) return 1;
  if (x >= (uintptr_t)&td_cache[0] && x < (uintptr_t)&td_cache[TD_CACHE_SIZE]) return 1;
  if (x >= (uintptr_t)&mi_arena_static[0] && x < (uintptr_t)&mi_arena_static[MI_ARENA_STATIC_MAX]) return 1;
  return 0;
}

static int vf_runnable_count(void) { int n = 0; for (int i = 0; i < vf_nth; i++) if (vf_th[i].state == VF_T_RUNNABLE) n++; return n; }

static void vf_switch_to(int next) {
  int self = vf_self;
  if (next == self) return;
  vf_switches++;
  vf_cur = next;
  sem_post(&vf_th[next].sem);
  while (sem_wait(&vf_th[self].sem) != 0) { }
}

/* parking: a driver may take one thread out of the schedule for the next `vf_park_left` yields of the other threads (a thread that the
   operating system does not run for a while, e.g. between the two CAS of a remote free); it comes back when the count is used up or
   when nobody else can run */
static int vf_park_tid = -1, vf_park_left = 0;
/* choose the thread to run next at a scheduling point; `must_leave`: the current thread cannot continue (yield / blocked) */
static int vf_pick(int must_leave) {
  int self = vf_self;
  int cand[VF_MAXT], nc = 0;
  int parked = (vf_park_left > 0 ? vf_park_tid : -1);
  for (int i = 0; i < vf_nth; i++) if (vf_th[i].state == VF_T_RUNNABLE && i != self && i != parked) cand[nc++] = i;
  if (self == parked && nc > 0) must_leave = 1;
  if (nc == 0) {
    if (must_leave && parked >= 0 && parked != self && vf_th[parked].state == VF_T_RUNNABLE) { vf_park_left = 0; return parked; }
    return self;
  }
  switch (vf_strategy) {
    case VF_S_REPLAY: {
      if (vf_sched_pos < vf_sched_len) { int t = vf_sched_list[vf_sched_pos++]; if (t >= 0 && t < vf_nth && vf_th[t].state == VF_T_RUNNABLE && !(must_leave && t == self)) return t; }
      return must_leave ? cand[0] : self;
    }
    case VF_S_GUIDED: {
      /* run thread list[pos] for cnt[pos] of ITS scheduling points, then move on */
      while (vf_sched_pos < vf_sched_len) {
        int t = vf_sched_list[vf_sched_pos];
        if (t < 0 || t >= vf_nth || vf_th[t].state != VF_T_RUNNABLE) { vf_sched_pos++; continue; }
        if (vf_sched_cnt[vf_sched_pos] <= 0) { vf_sched_pos++; continue; }
        if (must_leave && t == self) { vf_sched_pos++; continue; }
        vf_sched_cnt[vf_sched_pos]--;
        return t;
      }
      return must_leave ? cand[vf_srand() % nc] : (vf_srand() % 3 == 0 ? cand[vf_srand() % nc] : self);
    }
    case VF_S_DFS: {
      /* list = preemption points: at global step list[2i] switch to thread list[2i+1]; otherwise run on (non-preemptive) */
      for (int i = 0; i + 1 < vf_sched_len; i += 2) if (vf_sched_list[i] == vf_step) { int t = vf_sched_list[i + 1]; if (t < vf_nth && vf_th[t].state == VF_T_RUNNABLE && t != self) { vf_preempts++; return t; } }
      return must_leave ? cand[0] : self;
    }
    case VF_S_PCT: {
      for (int i = 0; i < vf_pct_d; i++) if (vf_pct_change[i] == vf_step) vf_th[self].prio = -(int)(i + 1);   /* change point: lowest priority */
      int best = must_leave ? -1 : self;
      for (int i = 0; i < nc; i++) { int t = cand[i]; if (vf_th[t].yielded) continue; if (best < 0 || vf_th[t].prio > vf_th[best].prio) best = t; }
      if (best < 0) best = cand[vf_srand() % nc];
      return best;
    }
    default: {
      if (must_leave || (vf_srand() % (uint64_t)vf_switch_rate) == 0) return cand[vf_srand() % nc];
      return self;
    }
  }
}

static void vf_point_ex(int kind, int must_leave) {
  if (!vf_active || vf_self < 0 || vf_in_hook) return;
  vf_in_hook = 1;
  vf_step++; vf_th[vf_self].steps++;
  vf_ophash = (vf_ophash ^ (unsigned long)(vf_self * 31 + kind)) * 1099511628211ull;
  if (!must_leave) { for (int i = 0; i < vf_nth; i++) if (i != vf_self) vf_th[i].yielded = 0; }   /* this thread makes progress */
  if (kind == VF_K_YIELD && vf_park_left > 0 && vf_self != vf_park_tid) vf_park_left--;
  int next = vf_pick(must_leave);
  if (next != vf_self) vf_switch_to(next);
  vf_in_hook = 0;
}
static void vf_point(void) { vf_point_ex(0, 0); }

/* ---- hook entry points (see vf_hooks.h) */
static void vf_hook_pre(int kind, const volatile void* addr) {
  if (!vf_active || vf_self < 0 || vf_in_hook || !vf_in_call) return;    /* only inside API calls of the program */
  if (!vf_tracked(addr)) return;
  vf_point_ex(kind, 0);
}
static void vf_trace_step(const char* fn, int kind, const volatile void* addr, uintptr_t oldv, uintptr_t newv, int ok);
static int vf_trace_tail = 0;      /* the main thread's calls after every other thread has finished are still traced (no scheduling any more) */
static void vf_hook_post_fn(const char* fn, int kind, const volatile void* addr, uintptr_t oldv, uintptr_t newv, int ok) {
  if ((!vf_active && !(vf_trace_tail && vf_in_call)) || vf_self < 0 || vf_in_hook) return;
  vf_trace_step(fn, kind, addr, oldv, newv, ok);
}
static int vf_hook_spurious(const volatile void* addr) {
  if (!vf_active || vf_self < 0 || vf_in_hook || vf_spurious_left <= 0 || vf_spurious_rate <= 0) return 0;
  if (!vf_tracked(addr)) return 0;
  if ((vf_srand() % (uint64_t)vf_spurious_rate) != 0) return 0;
  vf_spurious_left--;
  return 1;
}
static void vf_hook_yield(void) {
  if (!vf_active || vf_self < 0) { sched_yield(); return; }
  if (!vf_in_call && vf_in_hook) return;
  vf_th[vf_self].yielded = 1;
  vf_point_ex(VF_K_YIELD, 1);
}
static void vf_hook_lock_blocked(void* lock) { (void)lock; if (!vf_active || vf_self < 0) { sched_yield(); return; } vf_th[vf_self].yielded = 1; vf_point_ex(VF_K_LOCK, 1); }
static void vf_hook_lock_event(int kind, void* lock) { (void)kind; (void)lock; }

/* ---- thread management */
static void vf_thread_finish(void) {
  /* called by a virtual thread when its body is done (after mi_thread_done): hand the baton on and never take it again */
  vf_in_hook = 1;
  int self = vf_self;
  vf_th[self].state = VF_T_DONE;
  int next = -1, nrun = 0;
  for (int i = 0; i < vf_nth; i++) if (vf_th[i].state == VF_T_RUNNABLE) { nrun++; if (next < 0 || (vf_srand() % (uint64_t)nrun) == 0) next = i; }
  if (next < 0) { for (int i = 0; i < vf_nth; i++) if (vf_th[i].state == VF_T_WAITING) { vf_th[i].state = VF_T_RUNNABLE; next = i; break; } }
  vf_self = -1;       /* what runs after this point (the pthread key destructor) is outside the scheduled execution */
  if (next >= 0) { vf_cur = next; sem_post(&vf_th[next].sem); }
}
static void* vf_thread_body(void* arg) {
  int id = (int)(intptr_t)arg;
  vf_self = id;
  while (sem_wait(&vf_th[id].sem) != 0) { }
  vf_th[id].fn(vf_th[id].arg);
  /* In builds with detailed statistics (debug), mi_thread_done re-creates a thread heap while it deletes the thread's first-class heaps
     (mi_heap_free -> mi_free -> mi_stat_free -> mi_heap_get_default -> mi_thread_init).  Left alone, the pthread key destructor would tear
     that heap down AFTER this thread has handed the baton on: allocator work and OS calls outside the scheduled execution (and log lines
     written concurrently).  Finish it here, under the scheduler. */
  if (mi_heap_is_initialized(mi_prim_get_default_heap())) { vf_in_call = 1; mi_thread_done(); vf_in_call = 0; }
  vf_thread_finish();
  return NULL;
}
static int vf_spawn(void* (*fn)(void*), void* arg) {
  int id = vf_nth++;
  vf_th[id].fn = fn; vf_th[id].arg = arg; vf_th[id].state = VF_T_RUNNABLE; vf_th[id].yielded = 0; vf_th[id].steps = 0;
  vf_th[id].prio = (int)(vf_srand() % 1000) + 10;
  sem_init(&vf_th[id].sem, 0, 0);
  pthread_attr_t at; pthread_attr_init(&at); pthread_attr_setstacksize(&at, 1 << 20);
  pthread_create(&vf_th[id].th, &at, vf_thread_body, (void*)(intptr_t)id);
  return id;
}
static void vf_sched_begin(uint64_t seed) {
  vf_srng = seed * 2685821657736338717ull + 1442695040888963407ull; if (vf_srng == 0) vf_srng = 1;
  vf_self = 0; vf_nth = 1; vf_cur = 0;
  vf_th[0].state = VF_T_RUNNABLE; vf_th[0].prio = (int)(vf_srand() % 1000) + 10; vf_th[0].yielded = 0; sem_init(&vf_th[0].sem, 0, 0);
  vf_step = 0; vf_switches = 0;
}
static void vf_sched_go(void) {
  if (vf_strategy == VF_S_PCT) { for (int i = 0; i < vf_pct_d; i++) vf_pct_change[i] = 1 + (long)(vf_srand() % 400); }
  vf_active = 1;
}
/* main waits until every other virtual thread is done */
static void vf_wait_all(void) {
  for (;;) {
    int nrun = 0; for (int i = 1; i < vf_nth; i++) if (vf_th[i].state == VF_T_RUNNABLE) nrun++;
    if (nrun == 0) break;
    vf_in_hook = 1;
    vf_th[0].state = VF_T_WAITING;
    int next = -1, k = 0; for (int i = 1; i < vf_nth; i++) if (vf_th[i].state == VF_T_RUNNABLE) { k++; if (next < 0 || (vf_srand() % (uint64_t)k) == 0) next = i; }
    vf_cur = next; sem_post(&vf_th[next].sem);
    while (sem_wait(&vf_th[0].sem) != 0) { }
    vf_th[0].state = VF_T_RUNNABLE;
    vf_in_hook = 0;
  }
  vf_active = 0;
  for (int i = 1; i < vf_nth; i++) pthread_join(vf_th[i].th, NULL);
  vf_self = 0; vf_trace_tail = 1;
}
#endif
