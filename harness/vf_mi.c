/* vf_mi.c -- the allocator as ONE translation unit, compiled from /repo's current working tree.
   (no MI_MALLOC_OVERRIDE: libc malloc stays libc's, so the harness's own stdio does not disturb the heap) */
#ifndef _GNU_SOURCE
#define _GNU_SOURCE
#endif
#include VF_REPO_STATIC
