/* vf_hooks.h -- included by /repo/include/mimalloc/atomic.h (twice) when MI_VERIF_HOOKS is defined.
   Phase 1 re-routes `mi_atomic(name)` to wrappers that make every atomic operation of the allocator a scheduling
   point of the deterministic scheduler (vf_sched.h) and allow weak CAS to fail spuriously.
   Phase 2 re-routes mi_atomic_yield and the mi_lock_* primitives.
   The wrappers evaluate every argument exactly once and perform exactly the C11 operation they wrap. */
#if MI_VERIF_HOOKS_PHASE == 1

#include <stdint.h>
#include <stdbool.h>
enum { VF_K_LOAD = 1, VF_K_STORE, VF_K_XCHG, VF_K_CASW, VF_K_CASS, VF_K_ADD, VF_K_SUB, VF_K_AND, VF_K_OR, VF_K_YIELD, VF_K_LOCK, VF_K_UNLOCK };
static void vf_hook_pre(int kind, const volatile void* addr);                 /* scheduling point before the operation */
static void vf_hook_post_fn(const char* fn, int kind, const volatile void* addr, uintptr_t oldv, uintptr_t newv, int ok);
#define vf_hook_post(kind, addr, oldv, newv, ok) vf_hook_post_fn(__func__, kind, addr, oldv, newv, ok)   /* the allocator function the operation belongs to */
static int  vf_hook_spurious(const volatile void* addr);                       /* let this weak CAS fail spuriously? */

#undef mi_atomic
#define mi_atomic(name)  vf_atomic_##name

#define vf_atomic_load_explicit(p, mo) __extension__({ \
    __auto_type _vp = (p); vf_hook_pre(VF_K_LOAD, (const volatile void*)_vp); \
    __auto_type _vr = atomic_load_explicit(_vp, mo); \
    vf_hook_post(VF_K_LOAD, (const volatile void*)_vp, (uintptr_t)_vr, (uintptr_t)_vr, 1); _vr; })
#define vf_atomic_store_explicit(p, x, mo) __extension__({ \
    __auto_type _vp = (p); __auto_type _vx = (x); vf_hook_pre(VF_K_STORE, (const volatile void*)_vp); \
    atomic_store_explicit(_vp, _vx, mo); \
    vf_hook_post(VF_K_STORE, (const volatile void*)_vp, 0, (uintptr_t)_vx, 1); })
#define vf_atomic_exchange_explicit(p, x, mo) __extension__({ \
    __auto_type _vp = (p); __auto_type _vx = (x); vf_hook_pre(VF_K_XCHG, (const volatile void*)_vp); \
    __auto_type _vr = atomic_exchange_explicit(_vp, _vx, mo); \
    vf_hook_post(VF_K_XCHG, (const volatile void*)_vp, (uintptr_t)_vr, (uintptr_t)_vx, 1); _vr; })
#define vf_atomic_compare_exchange_weak_explicit(p, e, d, mo1, mo2) __extension__({ \
    __auto_type _vp = (p); __auto_type _ve = (e); __auto_type _vd = (d); bool _vok; \
    vf_hook_pre(VF_K_CASW, (const volatile void*)_vp); \
    if (vf_hook_spurious((const volatile void*)_vp)) { *_ve = atomic_load_explicit(_vp, memory_order_relaxed); _vok = false; } \
    else { _vok = atomic_compare_exchange_strong_explicit(_vp, _ve, _vd, mo1, mo2); } \
    vf_hook_post(VF_K_CASW, (const volatile void*)_vp, (uintptr_t)(*_ve), (uintptr_t)_vd, _vok); _vok; })
#define vf_atomic_compare_exchange_strong_explicit(p, e, d, mo1, mo2) __extension__({ \
    __auto_type _vp = (p); __auto_type _ve = (e); __auto_type _vd = (d); \
    vf_hook_pre(VF_K_CASS, (const volatile void*)_vp); \
    bool _vok = atomic_compare_exchange_strong_explicit(_vp, _ve, _vd, mo1, mo2); \
    vf_hook_post(VF_K_CASS, (const volatile void*)_vp, (uintptr_t)(*_ve), (uintptr_t)_vd, _vok); _vok; })
#define VF_RMW(NAME, KIND, p, x, mo) __extension__({ \
    __auto_type _vp = (p); __auto_type _vx = (x); vf_hook_pre(KIND, (const volatile void*)_vp); \
    __auto_type _vr = NAME(_vp, _vx, mo); \
    vf_hook_post(KIND, (const volatile void*)_vp, (uintptr_t)_vr, (uintptr_t)_vx, 1); _vr; })
#define vf_atomic_fetch_add_explicit(p, x, mo) VF_RMW(atomic_fetch_add_explicit, VF_K_ADD, p, x, mo)
#define vf_atomic_fetch_sub_explicit(p, x, mo) VF_RMW(atomic_fetch_sub_explicit, VF_K_SUB, p, x, mo)
#define vf_atomic_fetch_and_explicit(p, x, mo) VF_RMW(atomic_fetch_and_explicit, VF_K_AND, p, x, mo)
#define vf_atomic_fetch_or_explicit(p, x, mo)  VF_RMW(atomic_fetch_or_explicit,  VF_K_OR,  p, x, mo)

#elif MI_VERIF_HOOKS_PHASE == 2

static void vf_hook_yield(void);
static void vf_hook_lock_blocked(void* lock);      /* the lock is taken: let another thread run */
static void vf_hook_lock_event(int kind, void* lock);
static inline void vf_lock_acquire(mi_lock_t* lock) {
  vf_hook_pre(VF_K_LOCK, (const volatile void*)lock);
  while (!mi_lock_try_acquire(lock)) { vf_hook_lock_blocked((void*)lock); }
  vf_hook_lock_event(VF_K_LOCK, (void*)lock);
}
static inline void vf_lock_release(mi_lock_t* lock) {
  mi_lock_release(lock);
  vf_hook_lock_event(VF_K_UNLOCK, (void*)lock);
}
static inline bool vf_lock_try_acquire(mi_lock_t* lock) {
  vf_hook_pre(VF_K_LOCK, (const volatile void*)lock);
  const bool ok = mi_lock_try_acquire(lock);
  if (ok) vf_hook_lock_event(VF_K_LOCK, (void*)lock);
  return ok;
}
static inline void vf_yield_wrapped(void) { vf_hook_yield(); }
#define mi_atomic_yield()        vf_yield_wrapped()
#define mi_lock_acquire(l)       vf_lock_acquire(l)
#define mi_lock_release(l)       vf_lock_release(l)
#define mi_lock_try_acquire(l)   vf_lock_try_acquire(l)

#endif
