#!/usr/bin/env python3
"""seedconfirm.py <seed dir>... : confirm a seeded mutation independently: the patch applies, the library builds, the repository's
test-suite still passes with it, the demonstration fails with it and passes without it.  Prints one JSON line per seed."""
import json, os, re, shutil, subprocess, sys

def sh(cmd, cwd=None, env=None, timeout=1800):
    e = dict(os.environ); e.update(env or {})
    p = subprocess.run(cmd, shell=True, cwd=cwd, env=e, stdout=subprocess.PIPE, stderr=subprocess.STDOUT, text=True, timeout=timeout)
    return p.returncode, p.stdout

def build_tree(wt):
    rc, out = sh("cmake -S %s -B %s/_build -G Ninja -DCMAKE_BUILD_TYPE=RelWithDebInfo >/dev/null && cmake --build %s/_build 2>&1 | tail -3" % (wt, wt, wt))
    return rc == 0, out

def demo_cmds(demo, seedname):
    """Extract the first build command (with continuation lines) and the run line from the header comment."""
    txt = open(demo).read().split("\n")[:60]
    build, run = None, None
    i = 0
    while i < len(txt):
        l = txt[i].strip().lstrip("*").lstrip("/").strip()
        l = re.sub(r"^(build|run|compile)\s*:\s*", "", l, flags=re.I)
        if build is None and re.match(r"^(cc|gcc|g\+\+) ", l):
            cmd = l
            while cmd.endswith("\\") and i + 1 < len(txt):
                i += 1
                cmd = cmd[:-1] + " " + txt[i].strip().lstrip("*").strip()
            build = cmd.rstrip(")").strip()
        elif run is None and build is not None and re.search(r"(^|\s)(\S*=\S+\s+)*\S*/demo(\s|$)", l) and not re.match(r"^(cc|gcc|g\+\+) ", l):
            run = l
        i += 1
    return build, run

def main():
    clean = "/tmp/seedclean"
    if not os.path.exists(clean + "/_build/libmimalloc.a"):
        sh("git -C /repo worktree remove --force %s 2>/dev/null; git -C /repo worktree add -q %s HEAD" % (clean, clean))
        ok, out = build_tree(clean)
        if not ok:
            print("cannot build clean tree", out); return 2
    for d in sys.argv[1:]:
        name = os.path.basename(d.rstrip("/"))
        res = {"seed": name}
        wt = "/tmp/seedconf_" + name
        sh("git -C /repo worktree remove --force %s 2>/dev/null; git -C /repo worktree add -q %s HEAD" % (wt, wt))
        rc, out = sh("git -C %s apply %s/patch.diff" % (wt, d))
        res["applies"] = (rc == 0)
        if rc == 0:
            ok, out = build_tree(wt)
            res["builds"] = ok
            if ok:
                rc, out = sh("ctest --test-dir %s/_build -j8 --timeout 900 2>&1 | tail -4" % wt)
                res["suite_passes"] = ("100% tests passed" in out)
                demos = [f for f in os.listdir(d) if re.match(r"demo\.(c|cpp|sh)$", f)]
                if demos:
                    demo = os.path.join(d, demos[0])
                    build, run = demo_cmds(demo, name)
                    res["demo_build"] = build
                    m = re.search(r"/tmp/seed\d?_C\d+", (build or "") + " " + (run or ""))
                    if build and m:
                        for which, tree in (("mut", wt), ("clean", clean)):
                            exe = "/tmp/seedconf_demo_%s_%s" % (name, which)
                            b = build.replace(m.group(0), tree)
                            src = open(demo).read()
                            if m.group(0) in src:     # the demonstration includes allocator sources by absolute path: compile a redirected copy
                                cp = "/tmp/seedconf_src_%s_%s%s" % (name, which, os.path.splitext(demo)[1])
                                open(cp, "w").write(src.replace(m.group(0), tree))
                                b = b.replace(demo, cp)
                            b = re.sub(r"-o\s+\S+", "-o " + exe, b)
                            if "-o " not in b:
                                b += " -o " + exe
                            rc, out = sh(b)
                            if rc != 0:
                                res["demo_%s" % which] = "build failed: " + out[-300:]
                                continue
                            envp = ""
                            if run:
                                envp = " ".join(re.findall(r"\b[A-Z_]+=\S+", run.split("/demo")[0]))
                            pre = ""
                            if "libmimalloc.so" in (run or "") or "LD_PRELOAD" in (run or ""):
                                pre = "LD_PRELOAD=%s/_build/libmimalloc.so " % tree
                            try:
                                rc, out = sh("%s %s %s" % (envp, pre, exe), timeout=300)
                            except subprocess.TimeoutExpired:
                                rc, out = 124, "timeout"
                            res["demo_%s" % which] = rc
                            res["demo_%s_out" % which] = out.strip().split("\n")[-1][:200]
                            os.remove(exe) if os.path.exists(exe) else None
        sh("git -C /repo worktree remove --force %s" % wt)
        print(json.dumps(res), flush=True)

if __name__ == "__main__":
    sys.exit(main())
