"""Shared orchestration library for the mimalloc TLA+ verification checks.

Everything that produces a verdict is a TLC run (exhaustive model check of a bounded design
model, or validation of an implementation trace against a trace specification).  This library
only builds harnesses from /repo's current working tree, runs them, runs TLC, collects numbers
and writes the evidence file.
"""
import hashlib, json, os, re, shutil, subprocess, sys, time, glob

ROOT = os.path.dirname(os.path.dirname(os.path.abspath(__file__)))
REPO = os.environ.get("VERIF_REPO", "/repo")
BUILD = os.path.join(ROOT, "build")
# runs against another tree (VERIF_REPO, used to evaluate seeded changes) keep their scratch output and their evidence apart:
# the registered evidence files only ever describe /repo itself
ALT = None if os.path.realpath(REPO) == "/repo" else hashlib.sha256(os.path.realpath(REPO).encode()).hexdigest()[:10]
OUT = os.path.join(ROOT, "out") if ALT is None else os.path.join(ROOT, "out", "alt_" + ALT)
SPEC = os.path.join(ROOT, "spec")
HARNESS = os.path.join(ROOT, "harness")
EVID = os.path.join(ROOT, "evidence") if ALT is None else os.path.join(OUT, "evidence")
TLA_CP = "/opt/veriftools/tla/tla2tools.jar:/opt/veriftools/tla/CommunityModules-deps.jar"
NCPU = os.cpu_count() or 4


class InfraError(Exception):
    """A failure of our own tooling (never a property violation)."""


def log(*a):
    print(*a, flush=True)


def sh(cmd, timeout=600, env=None, cwd=None, stdin=None, check=False):
    e = dict(os.environ)
    if env:
        e.update(env)
    try:
        p = subprocess.run(cmd, shell=isinstance(cmd, str), stdout=subprocess.PIPE, stderr=subprocess.STDOUT,
                           timeout=timeout, env=e, cwd=cwd, input=stdin, text=True, errors="replace")
        rc, out = p.returncode, p.stdout
    except subprocess.TimeoutExpired as ex:
        rc, out = 124, (ex.stdout.decode("utf8", "replace") if isinstance(ex.stdout, bytes) else (ex.stdout or "")) + "\n[timeout]"
    if check and rc != 0:
        raise InfraError("command failed (%d): %s\n%s" % (rc, cmd if isinstance(cmd, str) else " ".join(cmd), out[-4000:]))
    return rc, out


# --------------------------------------------------------------------------------------------
# building harnesses from the current working tree of /repo
# --------------------------------------------------------------------------------------------
def tree_hash(paths):
    h = hashlib.sha256()
    for base in paths:
        if os.path.isfile(base):
            files = [base]
        else:
            files = []
            for d, _, fs in os.walk(base):
                for f in fs:
                    if f.endswith((".c", ".h", ".cpp", ".hpp", ".cc", ".txt", ".in", ".cmake")):
                        files.append(os.path.join(d, f))
        for f in sorted(files):
            h.update(f.encode())
            with open(f, "rb") as fh:
                h.update(fh.read())
    return h.hexdigest()[:16]


_repo_hash = None


def repo_hash():
    global _repo_hash
    if _repo_hash is None:
        _repo_hash = tree_hash([os.path.join(REPO, "src"), os.path.join(REPO, "include"), HARNESS])
    return _repo_hash


CFG_FLAGS = {
    "rel": ["-O2", "-DNDEBUG"],
    "dbg": ["-O1", "-DMI_DEBUG=3"],
    "sec": ["-O2", "-DNDEBUG", "-DMI_SECURE=4"],
    "asan": ["-O1", "-DNDEBUG", "-fsanitize=address,undefined", "-fno-sanitize-recover=undefined", "-DMI_TRACK_ASAN=1"],
}
SHIM_FLAGS = ["-Dmmap=vf_mmap", "-Dmunmap=vf_munmap", "-Dmprotect=vf_mprotect", "-Dmadvise=vf_madvise",
              "-Dclock_gettime=vf_clock_gettime"]
HOOK_FLAGS = ['-DMI_VERIF_HOOKS="vf_hooks.h"']


def build_harness(name, src, cfg="rel", hooks=False, shim=False, defs=(), libs=(), extra_src=(), cc="gcc"):
    """Compile a harness program.  `src` (in /verif/harness) includes "vf_mi.c", which includes
    /repo/src/static.c, so the allocator is compiled from the current working tree as one TU."""
    tag = "%s%s%s" % (cfg, "-hook" if hooks else "", "-shim" if shim else "")
    d = os.path.join(BUILD, tag)
    os.makedirs(d, exist_ok=True)
    flags = ["-g", "-std=gnu11", "-w", "-I" + os.path.join(REPO, "include"), "-I" + os.path.join(REPO, "src"),
             "-I" + HARNESS, '-DVF_REPO_STATIC="%s/src/static.c"' % REPO, '-DVF_CFG="%s"' % tag]
    flags += CFG_FLAGS[cfg]
    if hooks:
        flags += HOOK_FLAGS + ["-DVF_HOOKS=1"]
    if shim:
        flags += SHIM_FLAGS + ["-DVF_SHIM=1"]
    flags += list(defs)
    key = hashlib.sha256((repo_hash() + " ".join(flags) + src + " ".join(extra_src) + " ".join(libs)).encode()).hexdigest()[:16]
    # one binary per (sources, flags) key: checks running concurrently against different trees never share a binary
    exe = os.path.join(d, "%s.%s" % (name, key))
    stamp = exe + ".stamp"
    if os.path.exists(exe) and os.path.exists(stamp) and open(stamp).read() == key:
        return exe
    now = time.time()
    for f in os.listdir(d):     # prune binaries of other trees that have not been used for a while
        fp = os.path.join(d, f)
        try:      # (another check may be pruning the same directory right now)
            if f.startswith(name + ".") and now - os.path.getmtime(fp) > 3 * 3600:
                os.remove(fp)
        except OSError:
            pass
    srcs = [os.path.join(HARNESS, s) for s in (src,) + tuple(extra_src)]
    cmd = [cc] + flags + srcs + ["-o", exe, "-lpthread"] + list(libs)
    t0 = time.time()
    rc, out = sh(cmd, timeout=600)
    if rc != 0:
        raise InfraError("build of %s [%s] failed:\n%s" % (name, tag, out[-6000:]))
    open(stamp, "w").write(key)
    log("  built %s [%s] in %.1fs" % (name, tag, time.time() - t0))
    return exe


# --------------------------------------------------------------------------------------------
# TLC
# --------------------------------------------------------------------------------------------
def _tlc_cmd(module, cfg, workers, metadir, extra, xmx, xss=None, dfs=False):
    j = ["java", "-XX:+UseParallelGC", "-XX:ParallelGCThreads=%d" % max(2, min(8, workers)), "-Xmx%s" % xmx]
    if xss:
        j.append("-Xss%s" % xss)
    if dfs:
        j.append("-Dtlc2.tool.queue.IStateQueue=StateDeque")
    j += ["-cp", TLA_CP, "tlc2.TLC", "-workers", str(workers), "-metadir", metadir, "-config", cfg, "-noGenerateSpecTE"]
    j += list(extra) + [module]
    return j


_re_states = re.compile(r"(\d+) states generated, (\d+) distinct states found")
_re_depth = re.compile(r"depth of the complete state graph search is (\d+)")
_re_diam = re.compile(r'"TVDIAMETER", (\d+)')


def tlc_run(module, cfg, workers=NCPU, timeout=900, env=None, extra=(), xmx="12g", xss=None, tag=None, dfs=False):
    """Run TLC on spec/<module>.tla with spec/<cfg>.  Returns dict with exit code, counts, output."""
    tag = tag or (module + "_" + os.path.basename(cfg).replace(".cfg", ""))
    metadir = os.path.join(OUT, "tlc", tag + "_%d" % os.getpid())
    shutil.rmtree(metadir, ignore_errors=True)
    os.makedirs(metadir, exist_ok=True)
    cmd = _tlc_cmd(module + ".tla", cfg, workers, metadir, extra, xmx, xss, dfs)
    t0 = time.time()
    rc, out = sh(cmd, timeout=timeout, env=env, cwd=SPEC)
    shutil.rmtree(metadir, ignore_errors=True)
    res = {"rc": rc, "out": out, "wall": time.time() - t0, "generated": 0, "distinct": 0, "depth": 0}
    m = None
    for m in _re_states.finditer(out):
        pass
    if m:
        res["generated"], res["distinct"] = int(m.group(1)), int(m.group(2))
    m = _re_depth.search(out)
    if m:
        res["depth"] = int(m.group(1))
    res["timeout"] = (rc == 124)
    # TLC exit codes: 0 ok; 10 assumption; 11 deadlock; 12 safety violation; 13 liveness; 150/151 parse errors ...
    res["violation"] = rc in (12, 13, 11) or "is violated" in out
    res["error"] = (rc not in (0, 12, 13, 11)) and not res["timeout"]
    return res


def coverage_actions(out):
    """Parse `-coverage` output: action name -> (taken, generated)."""
    acts = {}
    for m in re.finditer(r"<(\w+) line \d+, col \d+ to line \d+, col \d+ of module (\w+)>: (\d+):(\d+)", out):
        acts[m.group(1)] = (int(m.group(3)), int(m.group(4)))
    return acts


def tlc_mc(module, cfg, workers=NCPU, timeout=900, extra=(), xmx="16g", coverage=True):
    ex = list(extra)
    if coverage:
        ex += ["-coverage", "1"]
    r = tlc_run(module, cfg, workers=workers, timeout=timeout, extra=ex, xmx=xmx)
    if r["timeout"]:
        raise InfraError("TLC model check of %s/%s timed out after %ds" % (module, cfg, timeout))
    if r["error"]:
        raise InfraError("TLC error on %s/%s (rc=%d):\n%s" % (module, cfg, r["rc"], r["out"][-5000:]))
    r["actions"] = coverage_actions(r["out"])
    return r


_re_guard = re.compile(r'^<<\s*"GUARDFAIL",\s*"([^"]+)",\s*(\d+)(?:,\s*(.*?))?\s*>>\s*$', re.M)


def _unwrap_prints(out):
    """TLC's pretty printer breaks long tuples over several lines (`<< "GUARDFAIL",` followed by indented lines): join them."""
    res, cur = [], None
    for l in out.split("\n"):
        if cur is not None:
            if l.startswith(" ") or l.startswith("\t"):
                cur += " " + l.strip()
                continue
            res.append(cur)
            cur = None
        if l.startswith('<< "GUARDFAIL"') or l.startswith('<<"GUARDFAIL"') and not l.rstrip().endswith(">>"):
            cur = l.rstrip()
        else:
            res.append(l)
    if cur is not None:
        res.append(cur)
    return "\n".join(res)


def tlc_tv(trace_path, module="ApiTrace", cfg="ApiTrace.cfg", timeout=1200, xmx="8g", extra_env=None, nlines=None):
    """Validate one ndjson trace.  Returns dict: accepted, consumed (events matched), total, guardfails."""
    if nlines is None:
        with open(trace_path) as f:
            nlines = sum(1 for _ in f)
    trace_path = os.path.abspath(trace_path)
    env = {"TRACE": trace_path}
    if extra_env:
        env.update(extra_env)
    r = tlc_run(module, cfg, workers=1, timeout=timeout, env=env, xmx=xmx, xss="512m",
                tag="tv_" + os.path.basename(trace_path))
    out = _unwrap_prints(r["out"])
    gf = [(m.group(1), int(m.group(2)), m.group(3) or "") for m in _re_guard.finditer(out)]
    m = _re_diam.search(out)
    consumed = int(m.group(1)) if m else None
    mi = re.search(r"Invariant (\w+) is violated", out)
    if mi:
        ms = None
        for ms in re.finditer(r"/\\ step = (\d+)", out):
            pass
        consumed = int(ms.group(1)) if ms else consumed
        gf.append(("Invariant." + mi.group(1), (consumed or 0), ""))
    res = {"rc": r["rc"], "total": nlines, "consumed": consumed, "guardfails": gf, "wall": r["wall"],
           "generated": r["generated"], "distinct": r["distinct"], "out": out}
    if r["timeout"]:
        res["status"] = "timeout"
    elif r["rc"] == 0 and not gf:
        res["status"] = "accepted"
    elif gf or r["rc"] in (12, 13) or "TraceAccepted" in out or "Postcondition" in out or "postcondition" in out:
        res["status"] = "rejected"
    else:
        res["status"] = "error"
        # TLC could not even read the trace: if a line of it is not well-formed JSON the process under test has damaged its own log (the logger
        # writes whole lines from a private buffer) -- that is a finding about the execution, not about the tooling
        bad = _first_malformed_line(trace_path)
        if bad is not None:
            res["status"] = "rejected"
            res["consumed"] = bad - 1
            res["guardfails"] = [("TraceIntact", bad, "line %d of the trace is not well-formed JSON (the process damaged its own log)" % bad)]
    return res


def _first_malformed_line(path):
    try:
        with open(path, "rb") as f:
            for i, l in enumerate(f, 1):
                l = l.strip()
                if not l:
                    continue
                try:
                    json.loads(l.decode("utf8"))
                except Exception:
                    return i
    except OSError:
        return None
    return None


# --------------------------------------------------------------------------------------------
# known findings / verdict / evidence
# --------------------------------------------------------------------------------------------
def load_known():
    p = os.path.join(ROOT, "known_findings.json")
    if not os.path.exists(p):
        return []
    return json.load(open(p)).get("findings", [])


class Verdict:
    """Collects violations (each with a signature) and decides the exit code."""

    def __init__(self, prop, tier, seed):
        self.prop, self.tier, self.seed = prop, tier, seed
        self.t0 = time.time()
        self.violations = []   # (signature, replay_path, detail)
        self.notes = []
        self.known = [k for k in load_known() if k.get("property") == prop and k.get("status") == "open"]

    def violation(self, signature, replay, detail=""):
        self.violations.append((signature, replay, detail))

    def note(self, s):
        self.notes.append(s)
        log("NOTE: " + s)

    def finish(self, level, coverage, assumptions=()):
        os.makedirs(EVID, exist_ok=True)
        unknown, known_hit = [], {}
        for sig, rp, det in self.violations:
            k = next((k for k in self.known if re.fullmatch(k["signature"], sig)), None)
            if k:
                known_hit.setdefault(k["signature"], (k, rp))
            else:
                unknown.append((sig, rp, det))
        for sigp, (k, rp) in known_hit.items():
            log("KNOWN-FINDING: property=%s %s (signature %s, e.g. %s)" % (self.prop, k.get("what", ""), sigp, rp))
        seen = set()
        for sig, rp, det in unknown:
            if sig in seen:
                continue
            seen.add(sig)
            log("VIOLATION property=%s replay=%s signature=%s %s" % (self.prop, rp, sig, det))
        cov = dict(coverage)
        cov.setdefault("notes", self.notes[:50])
        ev = {"property_id": self.prop, "tier": self.tier, "seed": self.seed, "level": level, "coverage": cov,
              "assumptions": list(assumptions), "wall_s": round(time.time() - self.t0, 2),
              "violations": len(seen), "known_findings_hit": sorted(known_hit.keys())}
        with open(os.path.join(EVID, self.prop + ".json"), "w") as f:
            json.dump(ev, f, indent=1, default=str)
        log("%s %s: %s in %.1fs (evidence/%s.json)" % (self.prop, self.tier, "VIOLATED" if seen else "ok", time.time() - self.t0, self.prop))
        return 1 if seen else 0


def trace_complete(path):
    """A driver ends every execution with an `end` event, or with a `crash` event written by its signal handler.  A trace that ends
    otherwise belongs to a driver that was killed (it hung until the time limit) -- its buffered events are lost, so nothing in it
    may count as validated."""
    try:
        with open(path, "rb") as f:
            f.seek(0, 2)
            n = f.tell()
            f.seek(max(0, n - 4096))
            tail = f.read().decode("utf-8", "replace").strip().split("\n")
    except OSError:
        return False
    last = tail[-1] if tail else ""
    return '"e":"end"' in last or '"e":"crash"' in last


def check_complete(V, prop, results, traces, path_of=lambda t: t[0], what=lambda t: ""):
    """results: [(rc, out)] of the driver processes, traces: parallel list.  A driver that ran into the time limit or left an
    incomplete trace is reported as a violation (NoHang): on the unchanged tree no driver comes anywhere near its limit."""
    bad = 0
    for (rc, o), t in zip(results, traces):
        pth = path_of(t)
        if rc == 124 or (os.path.exists(pth) and not trace_complete(pth)):
            keep = os.path.join(keepdir(prop), os.path.basename(pth))
            try:
                shutil.copyfile(pth, keep)
            except OSError:
                keep = pth
            V.violation("NoHang:%s" % what(t), keep, "the driver did not finish (exit status %s): an API call never returned, or the process was killed" % rc)
            with open(pth, "a") as f:      # make the remains of the trace well-formed for the validation pass
                f.write('\n{"e":"crash","sig":9,"incall":1}\n')
            bad += 1
    return bad


SEG_DECISIVE = {"C01", "C03", "C07", "C09", "C13", "C16", "C18"}      # properties for which a malformed slice table is a violation


HEAP_DECISIVE = {"C01", "C03", "C08", "C10", "C12", "C16"}      # properties for which malformed page queues of a heap are a violation


# arena dumps: which obligation of MiArenaValid / ArenaTrace is a violation of which property (for the others it is a note)
ARENA_OBLIGATIONS = {"TailBlocked": {"C14", "C15"}, "BitsInside": {"C14"}, "PurgeNotInUse": {"C13", "C14"}, "AbandonedInUse": {"C09"},
                     "InUseDirty": {"C04", "C13"}, "DirtyMonotone": {"C04", "C13"}, "PinnedNoPurge": {"C13"},
                     "PurgeScheduled": {"C18"}, "GlobalCoversArenas": {"C18"}, "ExpireBounded": {"C18"}, "AfterCollectNotDue": {"C18"},
                     "AfterForcedCollectClean": {"C11"}, "ArenasStay": {"C14"}}
ARENA_DECISIVE = set().union(*ARENA_OBLIGATIONS.values())


def _snapshot_pass(V, prop, paths, tag, kind, prefix, module, decisive, what):
    od = outdir(prop)
    allp = os.path.join(od, "%s_%s_%s.ndjson" % (prefix, prop, tag))
    n = 0
    head = '{"e":"%s"' % kind
    with open(allp, "w") as fs:
        for pth in paths:
            if not os.path.exists(pth):
                continue
            with open(pth) as f, open(pth + ".nosnap", "w") as fa:
                for l in f:
                    if l.startswith(head):
                        fs.write(l); n += 1
                    else:
                        fa.write(l)
            os.replace(pth + ".nosnap", pth)
    if n == 0:
        return 0
    r = tlc_tv(allp, module=module, cfg=module + ".cfg", timeout=1800, xmx="4g")
    if r["status"] in ("error", "timeout"):
        raise InfraError("%s validation %s: %s" % (module, r["status"], r["out"][-2000:]))
    seen = {}
    for name, line, detail in r["guardfails"]:
        seen.setdefault(name, (line, detail, 0))
        seen[name] = (seen[name][0], seen[name][1], seen[name][2] + 1)
    for name, (line, detail, cnt) in sorted(seen.items()):
        dec = decisive
        if kind == "arenas":
            dec = ARENA_OBLIGATIONS.get(name.split(".", 1)[-1], set())
        if prop in dec:
            keep = os.path.join(keepdir(prop), os.path.basename(allp))
            shutil.copyfile(allp, keep)
            V.violation("%s:%s" % (name, kind), "%s:%d" % (keep, line), "%s is not well-formed: %s (%d dumps)" % (what, name, cnt))
        else:
            V.note("%s guard (decisive for %s) failed on %d dump(s): %s" % (what, ",".join(sorted(dec)), cnt, name))
    log("  TLC validated %d %s (%s)" % (n, what + "s", module))
    return n


def seg_pass(V, prop, paths, tag="segs"):
    """Move the slice-table dumps (`seg` events), the heap dumps (`heap` events) and the arena dumps (`arenas` events) of the given traces into
    one file each and validate them with SegTrace (MiSegValid) / HeapTrace (MiHeapValid) / ArenaTrace (MiArenaValid): the traces keep
    everything else.  Guard failures are violations for the properties in SEG_DECISIVE / HEAP_DECISIVE / ARENA_DECISIVE, notes for the others."""
    ns = _snapshot_pass(V, prop, paths, tag, "seg", "segs", "SegTrace", SEG_DECISIVE, "segment slice table")
    nh = _snapshot_pass(V, prop, paths, tag, "heap", "heaps", "HeapTrace", HEAP_DECISIVE, "heap page-queue dump")
    na = _snapshot_pass(V, prop, paths, tag, "arenas", "arenas", "ArenaTrace", ARENA_DECISIVE, "arena table dump")
    return {"segment_tables_validated": ns, "heap_dumps_validated": nh, "arena_dumps_validated": na}


def sample_lines(path, n=3, maxlen=400):
    out = []
    try:
        with open(path) as f:
            for i, l in enumerate(f):
                if i >= n:
                    break
                out.append(l.strip()[:maxlen])
    except OSError:
        pass
    return out


def outdir(prop):
    d = os.path.join(OUT, prop)
    os.makedirs(d, exist_ok=True)
    return d


def keepdir(prop):
    """Directory for rejected traces that must survive the run (replay paths)."""
    d = os.path.join(OUT, "rejected", prop)
    os.makedirs(d, exist_ok=True)
    return d


def parallel(jobs, nproc=NCPU):
    """Run callables in a thread pool (they spawn processes)."""
    from concurrent.futures import ThreadPoolExecutor
    with ThreadPoolExecutor(max_workers=nproc) as ex:
        return list(ex.map(lambda j: j(), jobs))
