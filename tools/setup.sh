#!/bin/sh
# Build the framework from files on disk only (offline).  Harnesses are (re)built by each check from /repo's working tree;
# here we only make sure the directories exist, the specs parse and the default harness compiles.
set -e
cd "$(dirname "$0")/.."
mkdir -p build out evidence
for m in MiApi MiApiMC ApiTrace MiOsMC MiPage MiPageGen MiBitmap MiAbandonMC BitmapTrace; do
  (cd spec && tla-sany $m.tla >/dev/null 2>&1) || { echo "spec $m does not parse"; exit 1; }
done
python3 - <<'PY'
import sys; sys.path.insert(0, "tools")
import vlib
vlib.build_harness("drv_api", "drv_api.c", cfg="rel")
print("setup ok")
PY
