#!/usr/bin/env python3
"""selftest.py -- demonstrate that the trace specifications are bound to what the implementation logs (not part of any verdict).

For every trace specification: record a trace from the real code on the unchanged tree, require that TLC accepts it, then
corrupt ONE recorded field (or drop / swap one event) and require that TLC rejects the corrupted trace with the expected
guard.  Writes /verif/selftest/RESULT.json and prints one line per experiment; exit 0 iff every experiment behaved as expected."""
import json, os, re, shutil, sys
HERE = os.path.dirname(os.path.abspath(__file__))
ROOT = os.path.dirname(HERE)
sys.path.insert(0, HERE); sys.path.insert(0, ROOT)
import vlib

OD = os.path.join(vlib.OUT, "selftest")
RESULTS = []


def tv(path, module="ApiTrace", cfg="ApiTrace.cfg"):
    r = vlib.tlc_tv(path, module=module, cfg=cfg, timeout=900, xmx="3g")
    if r["status"] in ("error", "timeout"):
        raise vlib.InfraError("TLC %s on %s:\n%s" % (r["status"], path, r["out"][-2000:]))
    return r["status"], sorted({g[0] for g in r["guardfails"]})


def experiment(name, lines, mutate, expect, module="ApiTrace", cfg="ApiTrace.cfg", prefix=""):
    """mutate(lines) -> (new lines, description) or None if the trace offers no place for this corruption"""
    m = mutate(list(lines))
    if m is None:
        RESULTS.append({"experiment": name, "status": "skipped (no applicable event in the recorded trace)"})
        print("SKIP  %s" % name)
        return True
    new, desc = m
    p = os.path.join(OD, "%s%s.ndjson" % (prefix, re.sub(r"\W+", "_", name)))
    open(p, "w").writelines(new)
    st, guards = tv(p, module, cfg)
    ok = (st == "rejected") and (not expect or any(g in expect for g in guards) or not guards)
    RESULTS.append({"experiment": name, "corruption": desc, "tlc": st, "guards": guards, "expected_any_of": sorted(expect), "as_expected": ok})
    print("%s  %-46s %-9s %s  (%s)" % ("OK  " if ok else "FAIL", name, st, ",".join(guards[:4]), desc))
    return ok


def first(lines, pred, start=0):
    for i in range(start, len(lines)):
        try:
            ev = json.loads(lines[i])
        except ValueError:
            continue
        if pred(ev):
            return i, ev
    return None, None


def dump(ev):
    return json.dumps(ev, separators=(",", ":")) + "\n"


def main():
    shutil.rmtree(OD, ignore_errors=True)
    os.makedirs(OD, exist_ok=True)
    allok = True

    # ---------------------------------------------------------------- ApiTrace (sequential driver)
    exe = vlib.build_harness("drv_api", "drv_api.c", cfg="rel")
    base = os.path.join(OD, "api_base.ndjson")
    rc, o = vlib.sh([exe, "--out", base, "--seed", "11", "--ops", "600", "--maxlive", "60", "--profile", "c01"], timeout=300)
    lines = open(base).readlines()
    st, g = tv(base)
    print("%s  %-46s %s" % ("OK  " if st == "accepted" else "FAIL", "ApiTrace: recorded trace (unchanged tree)", st))
    allok &= (st == "accepted")
    RESULTS.append({"experiment": "ApiTrace baseline", "tlc": st, "events": len(lines)})

    def shift_addr(ls):
        # a returned address moved by 8 bytes onto its predecessor's tail cannot be told apart from a real overlap
        i, ev = first(ls, lambda e: e.get("e") == "ret" and e.get("op") == "malloc" and not e.get("null") and e.get("us", 0) >= 64, 40)
        if i is None: return None
        j, ev2 = first(ls, lambda e: e.get("e") == "ret" and e.get("op") in ("malloc", "zalloc", "calloc") and not e.get("null") and e.get("id") != ev["id"], i + 1)
        if j is None: return None
        ev2["a"] = [ev["a"][0], ev["a"][1] + 8]
        ls[j] = dump(ev2)
        return ls, "address of block %d replaced by the address of live block %d + 8" % (ev2["id"], ev["id"])
    allok &= experiment("ApiTrace: returned address overlaps a live block", lines, shift_addr, {"NoOverlap", "Invariant.Inv", "ContentsKept.bytes", "ContentsKept.gen", "ObsOfLiveBlock", "AlignOK"})

    def change_gen(ls):
        i, ev = first(ls, lambda e: e.get("e") == "call" and e.get("obs"), 60)
        if i is None: return None
        ev["obs"][0][1] = (ev["obs"][0][1] + 1) % 1000
        ls[i] = dump(ev)
        return ls, "content generation observed for block %d changed by one" % ev["obs"][0][0]
    allok &= experiment("ApiTrace: observed contents differ", lines, change_gen, {"ContentsKept.gen", "ContentsKept.bytes"})

    def drop_free(ls):
        i, ev = first(ls, lambda e: e.get("e") == "call" and e.get("op") == "free", 60)
        if i is None: return None
        del ls[i:i + 2]
        return ls, "call/ret pair of free(block %d) removed: the block stays live in the model while its memory is reused" % ev["id"]
    allok &= experiment("ApiTrace: a free is not recorded", lines, drop_free, {"NoOverlap", "Invariant.Inv", "CheckAllComplete", "WalkCount", "WalkOnlyLive", "ObsOfLiveBlock"})

    def usable_small(ls):
        i, ev = first(ls, lambda e: e.get("e") == "ret" and e.get("op") == "malloc" and not e.get("null") and e.get("us", 0) > 8, 30)
        if i is None: return None
        ev["us"] = 1
        ls[i] = dump(ev)
        return ls, "usable size of block %d recorded as 1" % ev["id"]
    allok &= experiment("ApiTrace: usable size below the request", lines, usable_small, {"UsableAtLeastRequested", "UsableStable"})

    # ---------------------------------------------------------------- StepTrace (scheduled executions, step log)
    exe = vlib.build_harness("drv_conc", "drv_conc.c", cfg="rel", shim=True, hooks=True)
    raw = os.path.join(OD, "conc_base.ndjson")
    rc, o = vlib.sh([exe, "--out", raw, "--prog", "page", "--seed", "3", "--runs", "12", "--strategy", "random", "--rate", "3", "--steps", "1"], timeout=300)
    from checks import concfam
    sp, ns = concfam.split_steps(raw)
    slines = open(sp).readlines()
    st, g = tv(sp, "StepTrace", "StepTrace.cfg")
    print("%s  %-46s %s (%d atomic steps)" % ("OK  " if st == "accepted" else "FAIL", "StepTrace: recorded step log (unchanged tree)", st, ns))
    allok &= (st == "accepted")
    RESULTS.append({"experiment": "StepTrace baseline", "tlc": st, "atomic_steps": ns})

    def is_step(e, f=None, k=None, w=None, ok=None):
        return e.get("e") == "step" and (f is None or e["f"] == f) and (k is None or e["k"] == k) and (w is None or e["w"] == w) and (ok is None or e["ok"] == ok)

    def drop_heap_load(ls):
        i, ev = first(ls, lambda e: is_step(e, "mi_free_block_delayed_mt", "ld", "xheap"))
        if i is None: return None
        # move the load of the owning heap in front of the CAS that sets FREEING
        j = i - 1
        while j > 0 and not (json.loads(ls[j]).get("e") == "step" and json.loads(ls[j])["t"] == ev["t"]): j -= 1
        ls[j], ls[i] = ls[i], ls[j]
        return ls, "the load of page.xheap recorded before the CAS that sets DELAYED_FREEING"
    allok &= experiment("StepTrace: heap read before FREEING is set", slines, drop_heap_load, {"RemoteSequence"}, "StepTrace", "StepTrace.cfg", "steps_")

    def wrong_flag(ls):
        i, ev = first(ls, lambda e: is_step(e, "mi_free_block_delayed_mt", "casw", "xtf", True) and e["o"][0] == 1)
        if i is None: return None
        ev["n"][0] = 0
        ls[i] = dump(ev)
        return ls, "last CAS of a delayed remote free recorded as writing USE instead of NO"
    allok &= experiment("StepTrace: FREEING reset to the wrong flag", slines, wrong_flag, {"RemoteCas3", "StepContinuity"}, "StepTrace", "StepTrace.cfg", "steps_")

    def lost_write(ls):
        i, ev = first(ls, lambda e: is_step(e, "mi_free_block_delayed_mt", "casw", "xtf", True) and e["n"][1] != 0 and e["n"] != e["o"])
        if i is None: return None
        del ls[i]
        return ls, "a successful push on a page's thread-free list removed from the log"
    allok &= experiment("StepTrace: a write is not recorded", slines, lost_write, {"StepContinuity", "RemoteSequence"}, "StepTrace", "StepTrace.cfg", "steps_")

    def no_rearm(ls):
        i, ev = first(ls, lambda e: is_step(e, "_mi_page_try_use_delayed_free", "casw", "xtf", True) and e["n"][0] == 0)
        if i is None: return None
        ev["n"][0] = 2
        ls[i] = dump(ev)
        return ls, "the owner's switch back to USE recorded as leaving NO"
    allok &= experiment("StepTrace: page not re-armed after the drain", slines, no_rearm, {"RearmAfterDrain", "StepContinuity", "UseDelayedShape"}, "StepTrace", "StepTrace.cfg", "steps_")

    # ---------------------------------------------------------------- SegTrace (slice tables)
    exe = vlib.build_harness("drv_api", "drv_api.c", cfg="rel")
    sraw = os.path.join(OD, "seg_raw.ndjson")
    rc, o = vlib.sh([exe, "--out", sraw, "--seed", "4", "--ops", "1200", "--maxlive", "120", "--profile", "c01", "--segs", "1"], timeout=300)
    seglines = [l for l in open(sraw) if l.startswith('{"e":"seg"')]
    sb = os.path.join(OD, "segs_base.ndjson"); open(sb, "w").writelines(seglines)
    st, g = tv(sb, "SegTrace", "SegTrace.cfg")
    print("%s  %-46s %s (%d tables)" % ("OK  " if st == "accepted" else "FAIL", "SegTrace: dumped slice tables (unchanged tree)", st, len(seglines)))
    allok &= (st == "accepted")
    RESULTS.append({"experiment": "SegTrace baseline", "tlc": st, "tables": len(seglines)})

    def bad_backoffset(ls):
        for i, l in enumerate(ls):
            ev = json.loads(l)
            for k in range(ev["info"], ev["entries"]):
                if ev["use"][k] == 1 and ev["cnt"][k] >= 3:
                    ev["off"][k + 1] = 0
                    ls[i] = dump(ev)
                    return ls, "back offset of the second entry of a page of %d slices recorded as 0" % ev["cnt"][k]
        return None
    allok &= experiment("SegTrace: interior entry does not point back", seglines, bad_backoffset, {"Seg.UsedSpanBackOffsets"}, "SegTrace", "SegTrace.cfg", "segs_")

    def purge_over_used(ls):
        for i, l in enumerate(ls):
            ev = json.loads(l)
            for k in range(ev["info"], ev["entries"]):
                if ev["use"][k] == 1 and ev["cnt"][k] >= 1 and ev["kind"] == "normal":
                    ev["purge"] = ev["purge"] + [[k, k]]
                    ls[i] = dump(ev)
                    return ls, "first slice of a page in use recorded as scheduled for purging"
        return None
    allok &= experiment("SegTrace: purge mask over a page in use", seglines, purge_over_used, {"Seg.PurgeAvoidsUsed", "Seg.PurgeInsideCommit"}, "SegTrace", "SegTrace.cfg", "segs_")

    # ---------------------------------------------------------------- BitmapTrace
    exe = vlib.build_harness("drv_bitmap", "drv_bitmap.c", cfg="rel", shim=True, hooks=True)
    bm = os.path.join(OD, "bitmap_base.ndjson")
    rc, o = vlib.sh([exe, "--out", bm, "--seed", "5", "--runs", "30", "--strategy", "random", "--rate", "3"], timeout=300)
    blines = open(bm).readlines()
    st, g = tv(bm, "BitmapTrace", "BitmapTrace.cfg")
    print("%s  %-46s %s" % ("OK  " if st == "accepted" else "FAIL", "BitmapTrace: recorded trace (unchanged tree)", st))
    allok &= (st == "accepted")
    RESULTS.append({"experiment": "BitmapTrace baseline", "tlc": st, "events": len(blines)})

    def overlap_claim(ls):
        i, ev = first(ls, lambda e: e.get("e") == "claim" and e.get("ok") and e.get("kind") == "find")
        if i is None: return None
        j, ev2 = first(ls, lambda e: e.get("e") == "claim" and e.get("ok") and e.get("kind") == "find" and e["t"] != ev["t"], i + 1)
        k, evu = first(ls, lambda e: e.get("e") == "unclaim" and e["t"] == ev["t"] and e["idx"] == ev["idx"], i + 1)
        if j is None or (k is not None and k < j): return None
        ev2["idx"] = ev["idx"]
        ls[j] = dump(ev2)
        return ls, "a successful claim recorded at the index of a range another thread still holds"
    allok &= experiment("BitmapTrace: two holders of one bit", blines, overlap_claim, {"ClaimsDisjoint", "UnclaimOwn", "AllFreeAtEnd", "ClaimAvoidsBlocked"}, "BitmapTrace", "BitmapTrace.cfg", "bitmap_")

    def leftover(ls):
        i, ev = first(ls, lambda e: e.get("e") == "final")
        if i is None: return None
        ev["behind"] = [1, 0]
        ls[i] = dump(ev)
        return ls, "a bit recorded as set in the word behind the bitmap at the end"
    allok &= experiment("BitmapTrace: write behind the bitmap", blines, leftover, {"NothingBehindBitmap"}, "BitmapTrace", "BitmapTrace.cfg", "bitmap_")

    os.makedirs(os.path.join(ROOT, "selftest"), exist_ok=True)
    json.dump({"all_as_expected": bool(allok), "experiments": RESULTS}, open(os.path.join(ROOT, "selftest", "RESULT.json"), "w"), indent=1)
    print("selftest: %s (%d experiments) -> selftest/RESULT.json" % ("all as expected" if allok else "UNEXPECTED RESULTS", len(RESULTS)))
    return 0 if allok else 1


if __name__ == "__main__":
    try:
        sys.exit(main())
    except vlib.InfraError as e:
        print("ERROR:", e)
        sys.exit(2)
