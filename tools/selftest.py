#!/usr/bin/env python3
"""selftest.py -- demonstrate that the trace specifications are bound to what the implementation logs (not part of any verdict).

For every trace specification: record a trace from the real code on the unchanged tree, require that TLC accepts it, then
corrupt ONE recorded field (or drop / swap one event) and require that TLC rejects the corrupted trace with the expected
guard.  Writes /verif/selftest/RESULT.json and prints one line per experiment; exit 0 iff every experiment behaved as expected."""
import json, os, re, shutil, sys
HERE = os.path.dirname(os.path.abspath(__file__))
ROOT = os.path.dirname(HERE)
sys.path.insert(0, HERE); sys.path.insert(0, ROOT)
import vlib

OD = os.path.join(vlib.OUT, "selftest")
RESULTS = []


def tv(path, module="ApiTrace", cfg="ApiTrace.cfg"):
    r = vlib.tlc_tv(path, module=module, cfg=cfg, timeout=900, xmx="3g")
    if r["status"] in ("error", "timeout"):
        raise vlib.InfraError("TLC %s on %s:\n%s" % (r["status"], path, r["out"][-2000:]))
    return r["status"], sorted({g[0] for g in r["guardfails"]})


def experiment(name, lines, mutate, expect, module="ApiTrace", cfg="ApiTrace.cfg", prefix=""):
    """mutate(lines) -> (new lines, description) or None if the trace offers no place for this corruption"""
    m = mutate(list(lines))
    if m is None:
        RESULTS.append({"experiment": name, "status": "skipped (no applicable event in the recorded trace)"})
        print("SKIP  %s" % name)
        return True
    new, desc = m
    p = os.path.join(OD, "%s%s.ndjson" % (prefix, re.sub(r"\W+", "_", name)))
    open(p, "w").writelines(new)
    st, guards = tv(p, module, cfg)
    ok = (st == "rejected") and (not expect or any(g in expect for g in guards) or not guards)
    RESULTS.append({"experiment": name, "corruption": desc, "tlc": st, "guards": guards, "expected_any_of": sorted(expect), "as_expected": ok})
    print("%s  %-46s %-9s %s  (%s)" % ("OK  " if ok else "FAIL", name, st, ",".join(guards[:4]), desc))
    return ok


def first(lines, pred, start=0):
    for i in range(start, len(lines)):
        try:
            ev = json.loads(lines[i])
        except ValueError:
            continue
        if pred(ev):
            return i, ev
    return None, None


def dump(ev):
    return json.dumps(ev, separators=(",", ":")) + "\n"


def main():
    shutil.rmtree(OD, ignore_errors=True)
    os.makedirs(OD, exist_ok=True)
    allok = True

    # ---------------------------------------------------------------- ApiTrace (sequential driver)
    exe = vlib.build_harness("drv_api", "drv_api.c", cfg="rel")
    base = os.path.join(OD, "api_base.ndjson")
    rc, o = vlib.sh([exe, "--out", base, "--seed", "11", "--ops", "600", "--maxlive", "60", "--profile", "c01"], timeout=300)
    lines = open(base).readlines()
    st, g = tv(base)
    print("%s  %-46s %s" % ("OK  " if st == "accepted" else "FAIL", "ApiTrace: recorded trace (unchanged tree)", st))
    allok &= (st == "accepted")
    RESULTS.append({"experiment": "ApiTrace baseline", "tlc": st, "events": len(lines)})

    def shift_addr(ls):
        # a returned address moved by 8 bytes onto its predecessor's tail cannot be told apart from a real overlap
        i, ev = first(ls, lambda e: e.get("e") == "ret" and e.get("op") == "malloc" and not e.get("null") and e.get("us", 0) >= 64, 40)
        if i is None: return None
        j, ev2 = first(ls, lambda e: e.get("e") == "ret" and e.get("op") in ("malloc", "zalloc", "calloc") and not e.get("null") and e.get("id") != ev["id"], i + 1)
        if j is None: return None
        ev2["a"] = [ev["a"][0], ev["a"][1] + 8]
        ls[j] = dump(ev2)
        return ls, "address of block %d replaced by the address of live block %d + 8" % (ev2["id"], ev["id"])
    allok &= experiment("ApiTrace: returned address overlaps a live block", lines, shift_addr, {"NoOverlap", "Invariant.Inv", "ContentsKept.bytes", "ContentsKept.gen", "ObsOfLiveBlock", "AlignOK"})

    def change_gen(ls):
        i, ev = first(ls, lambda e: e.get("e") == "call" and e.get("obs"), 60)
        if i is None: return None
        ev["obs"][0][1] = (ev["obs"][0][1] + 1) % 1000
        ls[i] = dump(ev)
        return ls, "content generation observed for block %d changed by one" % ev["obs"][0][0]
    allok &= experiment("ApiTrace: observed contents differ", lines, change_gen, {"ContentsKept.gen", "ContentsKept.bytes"})

    def drop_free(ls):
        i, ev = first(ls, lambda e: e.get("e") == "call" and e.get("op") == "free", 60)
        if i is None: return None
        del ls[i:i + 2]
        return ls, "call/ret pair of free(block %d) removed: the block stays live in the model while its memory is reused" % ev["id"]
    allok &= experiment("ApiTrace: a free is not recorded", lines, drop_free, {"NoOverlap", "Invariant.Inv", "CheckAllComplete", "WalkCount", "WalkOnlyLive", "ObsOfLiveBlock"})

    def usable_small(ls):
        i, ev = first(ls, lambda e: e.get("e") == "ret" and e.get("op") == "malloc" and not e.get("null") and e.get("us", 0) > 8, 30)
        if i is None: return None
        ev["us"] = 1
        ls[i] = dump(ev)
        return ls, "usable size of block %d recorded as 1" % ev["id"]
    allok &= experiment("ApiTrace: usable size below the request", lines, usable_small, {"UsableAtLeastRequested", "UsableStable"})

    # ---------------------------------------------------------------- StepTrace (scheduled executions, step log)
    exe = vlib.build_harness("drv_conc", "drv_conc.c", cfg="rel", shim=True, hooks=True)
    raw = os.path.join(OD, "conc_base.ndjson")
    rc, o = vlib.sh([exe, "--out", raw, "--prog", "page", "--seed", "3", "--runs", "12", "--strategy", "random", "--rate", "3", "--steps", "1"], timeout=300)
    from checks import concfam
    sp, ns = concfam.split_steps(raw)
    slines = open(sp).readlines()
    st, g = tv(sp, "StepTrace", "StepTrace.cfg")
    print("%s  %-46s %s (%d atomic steps)" % ("OK  " if st == "accepted" else "FAIL", "StepTrace: recorded step log (unchanged tree)", st, ns))
    allok &= (st == "accepted")
    RESULTS.append({"experiment": "StepTrace baseline", "tlc": st, "atomic_steps": ns})

    def is_step(e, f=None, k=None, w=None, ok=None):
        return e.get("e") == "step" and (f is None or e["f"] == f) and (k is None or e["k"] == k) and (w is None or e["w"] == w) and (ok is None or e["ok"] == ok)

    def drop_heap_load(ls):
        i, ev = first(ls, lambda e: is_step(e, "mi_free_block_delayed_mt", "ld", "xheap"))
        if i is None: return None
        # move the load of the owning heap in front of the CAS that sets FREEING
        j = i - 1
        while j > 0 and not (json.loads(ls[j]).get("e") == "step" and json.loads(ls[j])["t"] == ev["t"]): j -= 1
        ls[j], ls[i] = ls[i], ls[j]
        return ls, "the load of page.xheap recorded before the CAS that sets DELAYED_FREEING"
    allok &= experiment("StepTrace: heap read before FREEING is set", slines, drop_heap_load, {"RemoteSequence"}, "StepTrace", "StepTrace.cfg", "steps_")

    def wrong_flag(ls):
        i, ev = first(ls, lambda e: is_step(e, "mi_free_block_delayed_mt", "casw", "xtf", True) and e["o"][0] == 1)
        if i is None: return None
        ev["n"][0] = 0
        ls[i] = dump(ev)
        return ls, "last CAS of a delayed remote free recorded as writing USE instead of NO"
    allok &= experiment("StepTrace: FREEING reset to the wrong flag", slines, wrong_flag, {"RemoteCas3", "StepContinuity"}, "StepTrace", "StepTrace.cfg", "steps_")

    def lost_write(ls):
        i, ev = first(ls, lambda e: is_step(e, "mi_free_block_delayed_mt", "casw", "xtf", True) and e["n"][1] != 0 and e["n"] != e["o"])
        if i is None: return None
        del ls[i]
        return ls, "a successful push on a page's thread-free list removed from the log"
    allok &= experiment("StepTrace: a write is not recorded", slines, lost_write, {"StepContinuity", "RemoteSequence"}, "StepTrace", "StepTrace.cfg", "steps_")

    def no_rearm(ls):
        i, ev = first(ls, lambda e: is_step(e, "_mi_page_try_use_delayed_free", "casw", "xtf", True) and e["n"][0] == 0)
        if i is None: return None
        ev["n"][0] = 2
        ls[i] = dump(ev)
        return ls, "the owner's switch back to USE recorded as leaving NO"
    allok &= experiment("StepTrace: page not re-armed after the drain", slines, no_rearm, {"RearmAfterDrain", "StepContinuity", "UseDelayedShape"}, "StepTrace", "StepTrace.cfg", "steps_")

    # ---------------------------------------------------------------- SegTrace (slice tables)
    exe = vlib.build_harness("drv_api", "drv_api.c", cfg="rel")
    sraw = os.path.join(OD, "seg_raw.ndjson")
    rc, o = vlib.sh([exe, "--out", sraw, "--seed", "4", "--ops", "1200", "--maxlive", "120", "--profile", "c01", "--segs", "1"], timeout=300)
    seglines = [l for l in open(sraw) if l.startswith('{"e":"seg"')]
    sb = os.path.join(OD, "segs_base.ndjson"); open(sb, "w").writelines(seglines)
    st, g = tv(sb, "SegTrace", "SegTrace.cfg")
    print("%s  %-46s %s (%d tables)" % ("OK  " if st == "accepted" else "FAIL", "SegTrace: dumped slice tables (unchanged tree)", st, len(seglines)))
    allok &= (st == "accepted")
    RESULTS.append({"experiment": "SegTrace baseline", "tlc": st, "tables": len(seglines)})

    def bad_backoffset(ls):
        for i, l in enumerate(ls):
            ev = json.loads(l)
            for k in range(ev["info"], ev["entries"]):
                if ev["use"][k] == 1 and ev["cnt"][k] >= 3:
                    ev["off"][k + 1] = 0
                    ls[i] = dump(ev)
                    return ls, "back offset of the second entry of a page of %d slices recorded as 0" % ev["cnt"][k]
        return None
    allok &= experiment("SegTrace: interior entry does not point back", seglines, bad_backoffset, {"Seg.UsedSpanBackOffsets"}, "SegTrace", "SegTrace.cfg", "segs_")

    def purge_over_used(ls):
        for i, l in enumerate(ls):
            ev = json.loads(l)
            for k in range(ev["info"], ev["entries"]):
                if ev["use"][k] == 1 and ev["cnt"][k] >= 1 and ev["kind"] == "normal":
                    ev["purge"] = ev["purge"] + [[k, k]]
                    ls[i] = dump(ev)
                    return ls, "first slice of a page in use recorded as scheduled for purging"
        return None
    allok &= experiment("SegTrace: purge mask over a page in use", seglines, purge_over_used, {"Seg.PurgeAvoidsUsed", "Seg.PurgeInsideCommit"}, "SegTrace", "SegTrace.cfg", "segs_")

    # ---------------------------------------------------------------- BitmapTrace
    exe = vlib.build_harness("drv_bitmap", "drv_bitmap.c", cfg="rel", shim=True, hooks=True)
    bm = os.path.join(OD, "bitmap_base.ndjson")
    rc, o = vlib.sh([exe, "--out", bm, "--seed", "5", "--runs", "30", "--strategy", "random", "--rate", "3"], timeout=300)
    blines = open(bm).readlines()
    st, g = tv(bm, "BitmapTrace", "BitmapTrace.cfg")
    print("%s  %-46s %s" % ("OK  " if st == "accepted" else "FAIL", "BitmapTrace: recorded trace (unchanged tree)", st))
    allok &= (st == "accepted")
    RESULTS.append({"experiment": "BitmapTrace baseline", "tlc": st, "events": len(blines)})

    def overlap_claim(ls):
        i, ev = first(ls, lambda e: e.get("e") == "claim" and e.get("ok") and e.get("kind") == "find")
        if i is None: return None
        j, ev2 = first(ls, lambda e: e.get("e") == "claim" and e.get("ok") and e.get("kind") == "find" and e["t"] != ev["t"], i + 1)
        k, evu = first(ls, lambda e: e.get("e") == "unclaim" and e["t"] == ev["t"] and e["idx"] == ev["idx"], i + 1)
        if j is None or (k is not None and k < j): return None
        ev2["idx"] = ev["idx"]
        ls[j] = dump(ev2)
        return ls, "a successful claim recorded at the index of a range another thread still holds"
    allok &= experiment("BitmapTrace: two holders of one bit", blines, overlap_claim, {"ClaimsDisjoint", "UnclaimOwn", "AllFreeAtEnd", "ClaimAvoidsBlocked"}, "BitmapTrace", "BitmapTrace.cfg", "bitmap_")

    def leftover(ls):
        i, ev = first(ls, lambda e: e.get("e") == "final")
        if i is None: return None
        ev["behind"] = [1, 0]
        ls[i] = dump(ev)
        return ls, "a bit recorded as set in the word behind the bitmap at the end"
    allok &= experiment("BitmapTrace: write behind the bitmap", blines, leftover, {"NothingBehindBitmap"}, "BitmapTrace", "BitmapTrace.cfg", "bitmap_")

    # ---------------------------------------------------------------- ArenaTrace / HeapTrace (dumps of a C18 history and of an API run)
    exe = vlib.build_harness("drv_api", "drv_api.c", cfg="rel", shim=True)
    at = os.path.join(OD, "arena_base_full.ndjson")
    rc, o = vlib.sh([exe, "--out", at, "--seed", "5", "--c18", "all", "--step", "24", "--segs", "1"], timeout=300,
                    env={"MIMALLOC_PURGE_DELAY": "10", "MIMALLOC_ARENA_PURGE_MULT": "1", "MIMALLOC_ARENA_RESERVE": "65536"})
    alines = [l for l in open(at) if l.startswith('{"e":"arenas"')]
    ab = os.path.join(OD, "arenas_base.ndjson"); open(ab, "w").writelines(alines)
    st, g = tv(ab, "ArenaTrace", "ArenaTrace.cfg")
    print("%s  %-46s %s" % ("OK  " if st == "accepted" else "FAIL", "ArenaTrace: recorded dumps (unchanged tree)", st))
    allok &= (st == "accepted")
    RESULTS.append({"experiment": "ArenaTrace baseline", "tlc": st, "dumps": len(alines)})

    def forget_global(ls):
        for i, l in enumerate(ls):
            ev = json.loads(l)
            if ev["gset"] and any(a["set"] for a in ev["arenas"]):
                ev["gset"] = False; ev["grem"] = 0; ls[i] = dump(ev)
                return ls, "the global expiry recorded as cleared while an arena has an expiry"
        return None
    allok &= experiment("ArenaTrace: global expiry forgotten", alines, forget_global, {"Arena.GlobalCoversArenas"}, "ArenaTrace", "ArenaTrace.cfg", "arenas_")

    def purge_in_use(ls):
        for i, l in enumerate(ls):
            ev = json.loads(l)
            for a in ev["arenas"]:
                if a["purge"] and a["blocks"] >= 1:
                    a["inuse"] = [[0, a["bits"] - 1]]; ls[i] = dump(ev)
                    return ls, "a block scheduled for purging recorded as in use"
        return None
    allok &= experiment("ArenaTrace: purge of a block in use", alines, purge_in_use, {"Arena.PurgeNotInUse"}, "ArenaTrace", "ArenaTrace.cfg", "arenas_")

    def dirty_cleared(ls):
        seen = False
        for i, l in enumerate(ls):
            ev = json.loads(l)
            if any(a["dirty"] for a in ev["arenas"]):
                if seen:
                    for a in ev["arenas"]:
                        if a["dirty"] and not a["inuse"][0][0] == 0: a["dirty"] = []
                    ls[i] = dump(ev)
                    return ls, "dirty bits of an arena recorded as cleared"
                seen = True
        return None
    allok &= experiment("ArenaTrace: dirty bit cleared", alines, dirty_cleared, {"Arena.DirtyMonotone", "Arena.InUseDirty"}, "ArenaTrace", "ArenaTrace.cfg", "arenas_")

    ht = os.path.join(OD, "heap_base_full.ndjson")
    rc, o = vlib.sh([exe, "--out", ht, "--seed", "9", "--ops", "1500", "--segs", "1"], timeout=300)
    hlines = [l for l in open(ht) if l.startswith('{"e":"heap"')]
    hb = os.path.join(OD, "heaps_base.ndjson"); open(hb, "w").writelines(hlines)
    st, g = tv(hb, "HeapTrace", "HeapTrace.cfg")
    print("%s  %-46s %s" % ("OK  " if st == "accepted" else "FAIL", "HeapTrace: recorded dumps (unchanged tree)", st))
    allok &= (st == "accepted")
    RESULTS.append({"experiment": "HeapTrace baseline", "tlc": st, "dumps": len(hlines)})

    def wrong_queue(ls):
        for i, l in enumerate(ls):
            ev = json.loads(l)
            for q in ev["queues"][1:-2]:
                if q["pages"]:
                    q["pages"][0]["binof"] = q["pages"][0]["binof"] + 1; ls[i] = dump(ev)
                    return ls, "a page recorded with the bin of the next size class"
        return None
    allok &= experiment("HeapTrace: page in the wrong queue", hlines, wrong_queue, {"Heap.PageInRightQueue", "Heap.DirectTable"}, "HeapTrace", "HeapTrace.cfg", "heaps_")

    def lost_block(ls):
        for i, l in enumerate(ls):
            ev = json.loads(l)
            for q in ev["queues"]:
                for pg in q["pages"]:
                    if pg["used"] >= 1 and pg["live"] >= 1:
                        pg["used"] = pg["used"] - 1; ls[i] = dump(ev)
                        return ls, "a page's used count recorded one lower than the blocks the program holds in it"
        return None
    allok &= experiment("HeapTrace: used count below live blocks", hlines, lost_block, {"Heap.LiveAccounted", "Heap.PageCounts"}, "HeapTrace", "HeapTrace.cfg", "heaps_")

    # ---------------------------------------------------------------- AbandonTrace (atomic steps of the abandon / adopt protocol)
    exe = vlib.build_harness("drv_conc", "drv_conc.c", cfg="rel", shim=True, hooks=True)
    ct = os.path.join(OD, "abandon_base_full.ndjson")
    rc, o = vlib.sh([exe, "--out", ct, "--prog", "exit", "--seed", "7", "--runs", "6", "--strategy", "random", "--rate", "3", "--steps", "1"], timeout=300)
    clines = [l for l in open(ct) if l.startswith('{"e":"astep"') or l.startswith('{"e":"ret"') or l.startswith('{"e":"cfg"') or l.startswith('{"e":"reset"')]
    cb = os.path.join(OD, "asteps_base.ndjson"); open(cb, "w").writelines(clines)
    st, g = tv(cb, "AbandonTrace", "AbandonTrace.cfg")
    print("%s  %-46s %s" % ("OK  " if st == "accepted" else "FAIL", "AbandonTrace: recorded steps (unchanged tree)", st))
    allok &= (st == "accepted")
    RESULTS.append({"experiment": "AbandonTrace baseline", "tlc": st, "events": len(clines)})

    def drop_clear(ls):
        i, ev = first(ls, lambda e: e.get("e") == "astep" and e.get("w") == "ab" and e.get("k") == "and" and e.get("hit"))
        if i is None: return None
        del ls[i]
        return ls, "the winning clear of an abandoned bit removed from the log (adoption without winning the bit)"
    allok &= experiment("AbandonTrace: adoption without winning", clines, drop_clear, {"AdoptAfterWinning", "BitContinuity", "CountFollowsBit", "CountContinuity", "MarkNotTwice"}, "AbandonTrace", "AbandonTrace.cfg", "asteps_")

    def foreign_owner(ls):
        i, ev = first(ls, lambda e: e.get("e") == "astep" and e.get("w") == "tid" and e.get("k") == "st" and e.get("n", 0) > 0 and e.get("seg", 0) > 0)
        if i is None: return None
        ev["n"] = ev["n"] + 1; ls[i] = dump(ev)
        return ls, "an owner id recorded that is not the writing thread's own"
    allok &= experiment("AbandonTrace: somebody else's owner id", clines, foreign_owner, {"AdoptOwnId"}, "AbandonTrace", "AbandonTrace.cfg", "asteps_")

    # ---------------------------------------------------------------- PurgeStepTrace (atomic steps of the arena purge schedule)
    pt = os.path.join(OD, "purge_base_full.ndjson")
    rc, o = vlib.sh([exe, "--out", pt, "--prog", "arena", "--seed", "11", "--runs", "12", "--strategy", "random", "--rate", "3", "--steps", "1"], timeout=300)
    plines = [l for l in open(pt) if l.startswith(('{"e":"pstep"', '{"e":"ret"', '{"e":"cfg"', '{"e":"reset"'))]
    pb = os.path.join(OD, "psteps_base.ndjson"); open(pb, "w").writelines(plines)
    st, g = tv(pb, "PurgeStepTrace", "PurgeStepTrace.cfg")
    print("%s  %-46s %s" % ("OK  " if st == "accepted" else "FAIL", "PurgeStepTrace: recorded steps (unchanged tree)", st))
    allok &= (st == "accepted")
    RESULTS.append({"experiment": "PurgeStepTrace baseline", "tlc": st, "events": len(plines)})

    def mark_after(ls):
        i, ev = first(ls, lambda e: e.get("e") == "pstep" and e.get("w") == "pm" and e.get("k") == "or")
        if i is None: return None
        j, ev2 = first(ls, lambda e: e.get("e") == "pstep" and e.get("w") == "a" and e.get("f") == "mi_arena_schedule_purge" and e["t"] == ev["t"], i + 1)
        if j is None: return None
        ls[i], ls[j] = ls[j], ls[i]
        return ls, "the marking of the blocks recorded behind the CAS on the arena's expiry"
    allok &= experiment("PurgeStepTrace: blocks marked after the expiry", plines, mark_after, {"MarkBeforeExpiry"}, "PurgeStepTrace", "PurgeStepTrace.cfg", "psteps_")

    def no_relook(ls):
        i, ev = first(ls, lambda e: e.get("e") == "pstep" and e.get("w") == "g" and e.get("f") == "mi_arenas_try_purge" and e.get("k") in ("cass", "casw") and e.get("n") == 0 and e.get("ok"))
        if i is None: return None
        j, ev2 = first(ls, lambda e: e.get("e") == "pstep" and e.get("w") == "guard" and e.get("k") == "st" and e["t"] == ev["t"], i + 1)
        if j is None: return None
        keep = [l for k, l in enumerate(ls) if not (i < k < j and json.loads(l).get("e") == "pstep" and json.loads(l).get("t") == ev["t"] and json.loads(l).get("w") == "a")]
        return keep, "the second look at the arenas' expiries (after the global expiry was cleared) removed from the log"
    allok &= experiment("PurgeStepTrace: no second look after the clear", plines, no_relook, {"RelookAfterClear", "WordContinuity"}, "PurgeStepTrace", "PurgeStepTrace.cfg", "psteps_")

    def foreign_store(ls):
        i, ev = first(ls, lambda e: e.get("e") == "pstep" and e.get("w") == "g" and e.get("k") == "st")
        if i is None: return None
        ev["t"] = ev["t"] + 1; ls[i] = dump(ev)
        return ls, "the store of the global expiry recorded for a thread that does not hold the guard"
    allok &= experiment("PurgeStepTrace: store without the guard", plines, foreign_store, {"GuardExclusive"}, "PurgeStepTrace", "PurgeStepTrace.cfg", "psteps_")

    # ---------------------------------------------------------------- MiPurge: the model finds the three repaired schedule defects
    for variant, cfgname, what in (("forget_pending", "MiPurge_mc.cfg", "Invariant ModelValid is violated"), ("wrong_compare", "MiPurge_mc.cfg", "Invariant ModelValid is violated"),
                                   ("no_rotation", "MiPurge_starve.cfg", "Temporal property EventuallyPurged was violated"), ("fixed", "MiPurge_live.cfg", None)):
        src = open(os.path.join(ROOT, "spec", cfgname)).read()
        src = re.sub(r'Variant = "\w+"', 'Variant = "%s"' % variant, src)
        if cfgname == "MiPurge_starve.cfg" and "INVARIANT" in src: pass
        tmpcfg = os.path.join(ROOT, "spec", "_selftest_%s.cfg" % variant)
        open(tmpcfg, "w").write(src)
        try:
            r = vlib.tlc_run("MiPurge", os.path.basename(tmpcfg), workers=6, timeout=900, xmx="4g")
        finally:
            os.remove(tmpcfg)
        found = (what is not None and what in r["out"]) or (what is None and "No error has been found" in r["out"])
        print("%s  %-46s %s" % ("OK  " if found else "FAIL", "MiPurge: variant %s (%s)" % (variant, cfgname), what or "no error"))
        allok &= bool(found)
        RESULTS.append({"experiment": "MiPurge variant %s" % variant, "config": cfgname, "expected": what or "no error", "as_expected": bool(found)})

    for variant, what in (("no_relook", "Invariant Quiescent is violated"), ("mark_last", "Invariant Quiescent is violated"), ("skip_in_use", "Invariant Quiescent is violated"), ("fixed", None)):
        src = open(os.path.join(ROOT, "spec", "MiPurgeConc_mc.cfg")).read().replace('Variant = "fixed"', 'Variant = "%s"' % variant)
        tmpcfg = os.path.join(ROOT, "spec", "_selftest_conc_%s.cfg" % variant)
        open(tmpcfg, "w").write(src)
        try:
            r = vlib.tlc_run("MiPurgeConc", os.path.basename(tmpcfg), workers=6, timeout=900, xmx="4g")
        finally:
            os.remove(tmpcfg)
        found = (what is not None and what in r["out"]) or (what is None and "No error has been found" in r["out"])
        print("%s  %-46s %s" % ("OK  " if found else "FAIL", "MiPurgeConc: variant %s" % variant, what or "no error"))
        allok &= bool(found)
        RESULTS.append({"experiment": "MiPurgeConc variant %s" % variant, "expected": what or "no error", "as_expected": bool(found)})

    for variant, what in (("no_unfull", "Invariant ModelValid is violated"), ("always", "Invariant ModelValid is violated"), ("fixed", None)):
        src = open(os.path.join(ROOT, "spec", "MiHeap_mc.cfg")).read().replace('Variant = "fixed"', 'Variant = "%s"' % variant)
        tmpcfg = os.path.join(ROOT, "spec", "_selftest_heap_%s.cfg" % variant)
        open(tmpcfg, "w").write(src)
        try:
            r = vlib.tlc_run("MiHeap", os.path.basename(tmpcfg), workers=4, timeout=900, xmx="4g")
        finally:
            os.remove(tmpcfg)
        found = (what is not None and what in r["out"]) or (what is None and "No error has been found" in r["out"])
        print("%s  %-46s %s" % ("OK  " if found else "FAIL", "MiHeap: variant %s" % variant, what or "no error"))
        allok &= bool(found)
        RESULTS.append({"experiment": "MiHeap variant %s" % variant, "expected": what or "no error", "as_expected": bool(found)})

    os.makedirs(os.path.join(ROOT, "selftest"), exist_ok=True)
    json.dump({"all_as_expected": bool(allok), "experiments": RESULTS}, open(os.path.join(ROOT, "selftest", "RESULT.json"), "w"), indent=1)
    print("selftest: %s (%d experiments) -> selftest/RESULT.json" % ("all as expected" if allok else "UNEXPECTED RESULTS", len(RESULTS)))
    return 0 if allok else 1


if __name__ == "__main__":
    try:
        sys.exit(main())
    except vlib.InfraError as e:
        print("ERROR:", e)
        sys.exit(2)
