#!/usr/bin/env python3
"""seedtool.py -- bookkeeping for the seeded changes (realistic property-breaking changes to mimalloc written by independent
sub-agents that saw only the property text; see DESIGN.md section 12.4).

  seedtool.py import <srcdir>... [--confirm-log F...]   copy patch.diff / demo / notes.md into /verif/seeded/<id>/ and write meta.json
  seedtool.py run [<id>...|--all] [--jobs N] [--tier quick]   apply each seed to a scratch worktree of /repo (under /tmp, removed afterwards),
                                                        run the checks named in its meta.json against that tree (VERIF_REPO), record
                                                        exit code and violation signatures in meta.json
  seedtool.py summary                                   regenerate seeded/SUMMARY.md

Nothing here ever touches /repo's working tree, and runs against another tree write neither into evidence/ nor into out/<prop>
(tools/vlib.py keeps them under out/alt_<hash>)."""
import json, os, re, shutil, subprocess, sys, time
from concurrent.futures import ThreadPoolExecutor

ROOT = os.path.dirname(os.path.dirname(os.path.abspath(__file__)))
SEEDED = os.path.join(ROOT, "seeded")


def sh(cmd, timeout=3600, env=None, cwd=None):
    e = dict(os.environ); e.update(env or {})
    p = subprocess.run(cmd, shell=True, cwd=cwd, env=e, stdout=subprocess.PIPE, stderr=subprocess.STDOUT, text=True, timeout=timeout)
    return p.returncode, p.stdout


def section(txt, *heads):
    """text of the first markdown section whose heading contains one of `heads`"""
    lines = txt.split("\n")
    for i, l in enumerate(lines):
        if l.startswith("#") and any(h.lower() in l.lower() for h in heads):
            out = []
            for m in lines[i + 1:]:
                if m.startswith("#"):
                    break
                out.append(m)
            return "\n".join(out).strip()
    return ""


def cmd_import(args):
    logs, dirs = [], []
    it = iter(args)
    for a in it:
        if a == "--confirm-log":
            continue
        (logs if a.endswith(".log") else dirs).append(a)
    conf = {}
    for lg in logs:
        for l in open(lg):
            l = l.strip()
            if l.startswith("{"):
                try:
                    j = json.loads(l)
                    conf[j["seed"]] = j
                except ValueError:
                    pass
    for d in dirs:
        sid = os.path.basename(d.rstrip("/"))
        if not os.path.exists(os.path.join(d, "patch.diff")):
            print("skip %s: no patch.diff" % sid); continue
        if sid not in conf or not (conf[sid].get("applies") and conf[sid].get("builds") and conf[sid].get("suite_passes")
                                   and conf[sid].get("demo_mut") not in (0, None) and conf[sid].get("demo_clean") == 0):
            print("skip %s: not confirmed (%s)" % (sid, conf.get(sid))); continue
        dst = os.path.join(SEEDED, sid)
        os.makedirs(dst, exist_ok=True)
        for f in os.listdir(d):
            if re.match(r"(patch\.diff|notes\.md|demo\.(c|cpp|sh|py)|demo_[\w.]+\.(c|cpp|sh|h))$", f):
                shutil.copyfile(os.path.join(d, f), os.path.join(dst, f))
        notes = open(os.path.join(d, "notes.md")).read() if os.path.exists(os.path.join(d, "notes.md")) else ""
        patch = open(os.path.join(d, "patch.diff")).read()
        files = sorted(set(re.findall(r"^\+\+\+ b/(\S+)", patch, re.M)))
        title = next((l.lstrip("# ").strip() for l in notes.split("\n") if l.startswith("#")), sid)
        mp = os.path.join(dst, "meta.json")
        meta = json.load(open(mp)) if os.path.exists(mp) else {}
        c = conf[sid]
        meta.update({
            "id": sid, "property": sid.split("_")[0], "title": title, "files": files,
            "needs_to_manifest": section(notes, "needs to manifest", "what it needs", "needs")[:2500],
            "author": "independent sub-agent; was given only the text of the property and a scratch worktree of /repo",
            "confirmed": {
                "how": "tools/seedconfirm.py: fresh scratch worktree of /repo HEAD + patch.diff; cmake -G Ninja -DCMAKE_BUILD_TYPE=RelWithDebInfo; "
                       "ctest -j8 (the 4 baseline executables); the demonstration built once against the changed and once against the unchanged tree",
                "patch_applies": c.get("applies"), "builds": c.get("builds"), "baseline_suite_passes": c.get("suite_passes"),
                "demo_build": c.get("demo_build"), "demo_exit_changed_tree": c.get("demo_mut"), "demo_last_line_changed_tree": c.get("demo_mut_out"),
                "demo_exit_unchanged_tree": c.get("demo_clean"), "demo_last_line_unchanged_tree": c.get("demo_clean_out")},
        })
        meta.setdefault("checks", [meta["property"]])
        meta.setdefault("evaluation", {})
        json.dump(meta, open(mp, "w"), indent=1)
        print("imported", sid)


def run_seed(sid, tier):
    d = os.path.join(SEEDED, sid)
    mp = os.path.join(d, "meta.json")
    meta = json.load(open(mp))
    wt = "/tmp/seedwt_%s_%d" % (sid, os.getpid())
    sh("git -C /repo worktree remove --force %s 2>/dev/null; rm -rf %s" % (wt, wt))
    rc, out = sh("git -C /repo worktree add -q %s HEAD && git -C %s apply %s/patch.diff" % (wt, wt, d))
    if rc != 0:
        sh("git -C /repo worktree remove --force %s" % wt)
        print("SEED %s: patch does not apply: %s" % (sid, out[-300:]))
        return
    _, vc = sh("git -C %s rev-parse --short HEAD" % ROOT)
    _, rc_repo = sh("git -C /repo rev-parse --short HEAD")
    try:
        for c in meta.get("checks", [meta["property"]]):
            t0 = time.time()
            try:
                rc, out = sh("python3 tools/vcheck %s %s" % (c, tier), timeout=7200, env={"VERIF_REPO": wt}, cwd=ROOT)
            except subprocess.TimeoutExpired:
                rc, out = 124, ""
            sigs = []
            for l in out.split("\n"):
                if l.startswith("VIOLATION"):
                    m = re.search(r"signature=(\S+)", l)
                    sigs.append(m.group(1) if m else l[:120])
            sigs = sorted(set(sigs))
            meta.setdefault("evaluation", {})[c] = {"tier": tier, "exit": rc, "caught": rc == 1 and len(sigs) > 0, "signatures": sigs[:12],
                                                    "n_signatures": len(sigs), "wall_s": round(time.time() - t0), "verif_commit": vc.strip(),
                                                    "repo_commit": rc_repo.strip(),
                                                    "tail": "" if rc in (0, 1) else out[-600:]}
            print("SEED %s check=%s exit=%d caught=%s %s" % (sid, c, rc, rc == 1 and len(sigs) > 0, " ".join(sigs[:3])), flush=True)
    finally:
        json.dump(meta, open(mp, "w"), indent=1)
        sh("git -C /repo worktree remove --force %s" % wt)
        # scratch output of this tree
        import hashlib
        alt = os.path.join(ROOT, "out", "alt_" + hashlib.sha256(os.path.realpath(wt).encode()).hexdigest()[:10])
        shutil.rmtree(alt, ignore_errors=True)


def cmd_run(args):
    jobs, tier, ids = 1, "quick", []
    it = iter(args)
    for a in it:
        if a == "--jobs":
            jobs = int(next(it))
        elif a == "--tier":
            tier = next(it)
        elif a == "--all":
            ids = sorted(os.listdir(SEEDED))
        else:
            ids.append(a)
    ids = [i for i in ids if os.path.exists(os.path.join(SEEDED, i, "meta.json"))]
    with ThreadPoolExecutor(max_workers=jobs) as ex:
        list(ex.map(lambda i: run_seed(i, tier), ids))
    cmd_summary([])


def cmd_summary(args):
    rows = []
    for sid in sorted(os.listdir(SEEDED)):
        mp = os.path.join(SEEDED, sid, "meta.json")
        if not os.path.exists(mp):
            continue
        m = json.load(open(mp))
        ev = m.get("evaluation", {})
        caught = [(c, e) for c, e in sorted(ev.items()) if e.get("caught")]
        missed = [c for c, e in sorted(ev.items()) if not e.get("caught")]
        rows.append((sid, m, caught, missed))
    out = ["# Seeded changes and the checks that catch them", "",
           "Generated by `tools/seedtool.py summary` from `seeded/*/meta.json`. Every change was written by a sub-agent that saw only the property text,",
           "compiles, passes the 4 baseline test executables, and comes with a demonstration that fails on the changed tree and passes on the",
           "unchanged one (all re-confirmed independently, `meta.json: confirmed`). `caught by` = quick tier of the named check exits 1 with at",
           "least one VIOLATION line when run against a scratch worktree carrying the change; on the unchanged tree the same check exits 0.", "",
           "| seed | file(s) | change | caught by (first signatures) | not caught by |", "|---|---|---|---|---|"]
    ncaught = 0
    for sid, m, caught, missed in rows:
        if caught:
            ncaught += 1
        cb = "; ".join("**%s**: %s" % (c, ", ".join("`%s`" % s for s in e["signatures"][:2])) for c, e in caught) or "-"
        out.append("| %s | %s | %s | %s | %s |" % (sid, ", ".join(m.get("files", [])), m.get("title", "").replace("|", "/")[:140], cb, ", ".join(missed) or "-"))
    out += ["", "%d of %d seeded changes are caught by at least one check." % (ncaught, len(rows)), ""]
    open(os.path.join(SEEDED, "SUMMARY.md"), "w").write("\n".join(out))
    print("%d/%d caught; wrote seeded/SUMMARY.md" % (ncaught, len(rows)))


if __name__ == "__main__":
    if len(sys.argv) < 2:
        print(__doc__); sys.exit(2)
    {"import": cmd_import, "run": cmd_run, "summary": cmd_summary}[sys.argv[1]](sys.argv[2:])
