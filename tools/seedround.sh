#!/bin/bash
# seedround.sh <id>... : confirm seeded changes delivered under /tmp/seedout/<id>, import the confirmed ones, evaluate them
cd /verif
dirs=""; for i in "$@"; do dirs="$dirs /tmp/seedout/$i"; done
log=out/seedconfirm_$(date +%s).log
python3 tools/seedconfirm.py $dirs > $log 2>&1
cut -c1-400 $log
python3 tools/seedtool.py import $dirs $log
python3 tools/seedtool.py run "$@" --jobs 2
