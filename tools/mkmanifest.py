#!/usr/bin/env python3
"""Generate /verif/MANIFEST.json from the table below (single source of truth for the interface)."""
import json, os, subprocess
ROOT = os.path.dirname(os.path.dirname(os.path.abspath(__file__)))

API_NOTE = ("Trusted: TLC 1.8.0 + CommunityModules; harness measurements (addresses, usable sizes, decoded content patterns, zero runs); "
            "bounded constants of the MC configuration; the implementation side is a seeded sample of executions (native driver + TLC-generated programs).")

CHECKS = {
 "C01": dict(cat="model_checking", tech="TLA+ MiApi contract: TLC exhaustive on bounded MiApiMC + TLC trace validation (ApiTrace) of implementation runs, incl. TLC-generated programs replayed in the real allocator",
             text="Bounded MiApi model checked exhaustively by TLC (the allocation contract implies LiveDisjoint etc. in every reachable state); "
                  "every event of seeded random API programs and of TLC-generated programs, executed on rel/debug/secure builds of the working tree, "
                  "is validated by TLC against the same actions: NoOverlap, ContentsKept, uniqueness of zero-size pointers, full-usable-size read/write.",
             ref="5/C01"),
 "C03": dict(cat="model_checking", tech="TLA+ MiApi contract + TLC trace validation of aligned-allocation workloads",
             text="TLC validates AlignOK/UsableAtLeastRequested/AlignKeptByRealloc/Expand* for every aligned entry point over alignments 1..2^28, offsets, "
                  "and interior pointers passed to free/usable_size/expand/realloc on three builds; MC of the bounded contract.", ref="5/C03"),
 "C04": dict(cat="model_checking", tech="TLA+ MiApi zero-lineage model + TLC trace validation of dirty-then-zero histories and growth chains",
             text="TLC validates ZeroOK and ZeroGrowOK (zero lineage tracked in the spec) on histories that dirty and free memory and then run zeroing "
                  "entry points and 2-6 link rezalloc/recalloc growth chains (in place and moving) on three builds.", ref="5/C04"),
 "C05": dict(cat="model_checking", tech="TLA+ MiApi realloc contract + TLC trace validation",
             text="TLC validates ReallocKeepsPrefix, MovedDisjointFromOld, FailedReallocKeepsOld, Expand* for all realloc-family entry points with "
                  "sizes around the in-place window, the 50% rule and page-kind boundaries.", ref="5/C05"),
 "C06": dict(cat="model_checking", tech="TLA+ MiApi contract (argument classes) + TLC trace validation of malformed/oversized requests on all entry-point families",
             text="TLC validates MalformedFailsCleanly / ErrCode / OutParamUnchanged / FailedReallocKeepsOld for (entry point x argument class) tuples around "
                  "SIZE_MAX, PTRDIFF_MAX, count*size overflow, padding and page rounding, bad alignments, and WellFormedSucceeds for all moderate requests; "
                  "contents of all live blocks and the heap walk are re-validated after failing calls (no other effect on the heap).", ref="5/C06"),
 "C07": dict(cat="fault_enumeration", tech="TLA+ MiOs + MiApi: OS shim refuses the k-th OS call (single / persistent / per call kind) for every k of a dry run; TLC trace validation of each faulty execution incl. recovery round",
             text="For workloads small/large/huge/multi-threaded-with-exit x option settings x rel/debug builds, one execution per OS-call position k (counted in a dry run) with the shim refusing that call "
                  "(once, or from k on, or per call kind); TLC validates every event: an API call may return NULL only when an OS refusal happened during it, every returned block lies in mapped read/write memory "
                  "(LiveAccessible), NoOverlap/ContentsKept, no crash event; after recovery the workload repeats with WellFormedSucceeds and the final quiescence point satisfies C11's give-back obligations "
                  "(ranges whose unmap/purge the plan itself refused are exempt).", ref="5/C07",
             note="Trusted: TLC; the shim performs the real system call unless the plan refuses it and reports results faithfully; fault positions come from a dry run (a faulty run may diverge after the first refusal)."),
 "C18": dict(cat="model_checking", tech="TLA+ MiOs purge model on a virtual clock + TLC trace validation of free-phase / ordinary-activity scenarios over the purge option grid",
             text="TLC tracks per 64 KiB unit whether it is dirty (written through a live block since the last purge/unmap event) and the candidate set of dirty units unused continuously since T0; "
                  "NeverPurgesWhenDisabled (delay -1), ImmediateWhenZero (delay 0: a unit in use before a call and unused after it has been purged within the call) and TimelyPurge (delay d: after ordinary "
                  "allocate/free/non-forced-collect activity with the virtual clock advancing past the delay, every candidate unit has received a purge or unmap event) are checked for purge_delay x purge_decommits x "
                  "arena_purge_mult x {whole pages, whole segments, everything} x arena configurations.", ref="5/C18"),
 "C19": dict(cat="model_checking", tech="TLC exhaustive enumeration of the (allocating x releasing/resizing/querying entry point) product with program emission (MiOverrideMC); programs executed with standard entry points only under LD_PRELOAD and with the static override object built by /repo's CMake; TLC trace validation (OverrideTrace over MiOverride+MiApi)",
             text="TLC enumerates the pair matrix of standard C/C++ entry points and emits one program per pair; the programs (no mi_ calls) run with LD_PRELOAD of the freshly built libmimalloc.so and linked with the static override object; "
                  "TLC validates every event: ServedByMimalloc (every non-NULL result is in the mimalloc heap region), LiveCountDelta (the allocator's own live-block count moves by +1/-1/0), CrossRelease, standard return values, plus the MiApi guards.",
             ref="5/C19", note="Trusted: TLC; driver measurements (dlsym/weak mi_is_in_heap_region, mi_usable_size, mi_heap_visit_blocks count, patterns); requests < 16 MiB with default options so the region query is meaningful; entry points = what glibc 2.36 offers to newly linked programs (no cfree); single-threaded."),
 "C10": dict(cat="model_checking", tech="TLA+ MiApi heap model + TLC trace validation; heap programs generated by TLC -simulate",
             text="TLC validates DeleteMigrates/DestroyExactlyOwn (via live-set and contents), OwnershipQuery, DefaultFallsBack, SetDefaultReturnsOld "
                  "on native and TLC-generated heap programs; sequential part of C10 (the concurrent part is covered by the MiPage model when built).", ref="5/C10"),
 "C11": dict(cat="model_checking", tech="TLA+ MiOs (OS-call model) + MiApi: TLC trace validation of allocate-all/free-all rounds with quiescence measurements; TLC exhaustive on bounded MiOsMC",
             text="The OS shim logs every mmap/munmap/mprotect/madvise; TLC reconstructs mappings and per-64KiB dirty units and checks at every quiescence point "
                  "AllReleased (no OS mapping born in a later round survives, except arenas and recognised tables), DirtyAllReleased (every unit written through a live block has been purged or unmapped, "
                  "unless purging is disabled), NoCreepMapped/NoCreepResident across rounds, for workloads small/large/huge/aligned-huge/multi-threaded-with-exit x arena configurations.",
             ref="5/C11"),
 "C13": dict(cat="model_checking", tech="TLA+ MiApi + MiOs: TLC trace validation of API workloads under a pairwise covering array of run-time options with the OS shim and virtual clock",
             text="All C01-C05/C12 guards are validated unchanged under each row of a seeded pairwise covering array over 13 commit/purge/arena/reclaim options (three builds), plus "
                  "DestructiveAvoidsLive (no madvise(DONTNEED|FREE)/mprotect(NONE)/munmap/fixed remap intersects a live block), LiveAccessible (returned blocks lie in mapped RW memory) and, in debug/secure builds "
                  "where decommit is PROT_NONE, any access of the allocator to decommitted memory arrives as a crash event.", ref="5/C13"),
 "C16": dict(cat="exploration", tech="TLA+ MiBins transcription: TLC exhaustive evaluation of the C16 theorems + TLC validation (BinsTrace) of conformance tables dumped from rel/dbg/sec builds",
             text="TLC evaluates the size-class theorems (block size >= request, monotone bins, <= 25% fragmentation above 64 bytes, good_size idempotent) over every n in 0..2*MEDIUM_MAX and all slice counts, "
                  "and validates tables dumped from the compiled code (bin, good size, usable size for every n; unalign / ptr->page recovery for every bin's block size at many page positions, block indices and interior offsets; fast divide; align/divide/mul-overflow classes) row by row against the same functions. Thorough is exhaustive over the stated domains.",
             ref="5/C16", note="Trusted: TLC/Json/IOUtils and the harness enumeration; sizes >= 2^31 covered by classes; x86-64 constants; in padded builds (dbg/sec) the good-size clauses are read modulo the padding (mi_usable_size returns the request there)."),
 "C12": dict(cat="model_checking", tech="TLA+ MiApi WalkExact + TLC trace validation of mi_heap_visit_blocks output",
             text="TLC checks that the visited ranges are in bijection with the model's live blocks of the heap (incl. heap descriptors), per-area used "
                  "counts, early stop.", ref="5/C12"),
}
PENDING = {
 "C02": "not yet covered in this revision (MiPage model + scheduler under construction)",
 "C08": "not yet covered in this revision",
 "C09": "not yet covered in this revision",
 "C14": "not yet covered in this revision",
 "C15": "not yet covered in this revision",
 "C17": "not yet covered in this revision",
 "C20": "not yet covered in this revision",
}

def main():
    hooks = subprocess.run(["git", "-C", "/repo", "log", "--format=%H %s"], capture_output=True, text=True).stdout.splitlines()
    hook_commits = [l.split()[0] for l in hooks if " verif:" in l]
    checks = []
    for pid in sorted(CHECKS):
        c = CHECKS[pid]
        checks.append({
            "property_id": pid,
            "quick_cmd": "tools/vcheck %s quick" % pid,
            "thorough_cmd": "tools/vcheck %s thorough" % pid,
            "evidence_file": "/verif/evidence/%s.json" % pid,
            "replay_cmd_template": "tools/vcheck --replay {path}",
            "engine": "tlc",
            "level_claimed": {"category": c["cat"], "text": c["text"], "design_ref": "DESIGN.md section " + c["ref"]},
            "level_note": c.get("note", API_NOTE),
            "technique": c["tech"],
        })
    m = {
        "version": 1,
        "setup_cmd": "tools/setup.sh",
        "hooks": {"guard": "MI_VERIF_HOOKS",
                  "enable": "-DMI_VERIF_HOOKS='\"vf_hooks.h\"' -I/verif/harness (the allocator is compiled as one TU from /repo/src/static.c); OS layer renamed on the command line (-Dmmap=vf_mmap ...), no source change",
                  "baseline_off_cmd": "cmake --build /repo/_build && ctest --test-dir /repo/_build -j8 --timeout 900",
                  "source_commits": hook_commits, "add_only": True},
        "engines": [{"name": "tlc", "path": "/verif/tools/vcheck", "serves_properties": sorted(CHECKS),
                     "kind_free_text": "TLA+ specifications in /verif/spec checked by TLC: exhaustive bounded model checking, behaviour generation (-simulate) replayed in the implementation, and trace validation of implementation executions"}],
        "checks": checks,
        "not_applicable": [{"property_id": p, "reason": r} for p, r in sorted(PENDING.items()) if p not in CHECKS],
        "notes": "All verdicts come from TLC evaluating a .tla module (bounded model or reconstructed implementation trace). See DESIGN.md.",
    }
    with open(os.path.join(ROOT, "MANIFEST.json"), "w") as f:
        json.dump(m, f, indent=1)
    print("MANIFEST.json written: %d checks, %d not_applicable" % (len(checks), len(m["not_applicable"])))

if __name__ == "__main__":
    main()
