"""Greedy seeded pairwise covering array."""
import itertools, random
def pairwise(params, seed=1):
    rnd = random.Random(seed)
    names = list(params)
    need = []          # a list (deterministic order; set iteration order depends on the hash seed)
    for a, b in itertools.combinations(names, 2):
        for va in params[a]:
            for vb in params[b]:
                need.append((a, va, b, vb))
    rows = []
    while need:
        best, bestc = None, -1
        for _ in range(60):
            row = {n: rnd.choice(params[n]) for n in names}
            # seed the candidate with one uncovered pair
            a, va, b, vb = need[rnd.randrange(len(need))]
            row[a], row[b] = va, vb
            c = sum(1 for (x, vx, y, vy) in need if row[x] == vx and row[y] == vy)
            if c > bestc:
                best, bestc = row, c
        rows.append(best)
        need = [(x, vx, y, vy) for (x, vx, y, vy) in need if not (best[x] == vx and best[y] == vy)]
    return rows
