#!/bin/bash
# seedeval.sh <seed dir> <check ids...> : apply a seeded mutation to a scratch worktree and run the given checks (quick) against it
set -u
D=$1; shift
WT=/tmp/seedwt_$(basename $D)
git -C /repo worktree add -q $WT HEAD || exit 2
git -C $WT apply $D/patch.diff || { echo "PATCH DOES NOT APPLY: $D"; git -C /repo worktree remove --force $WT; exit 2; }
for c in "$@"; do
  out=$(cd /verif && VERIF_REPO=$WT timeout 1500 python3 tools/vcheck $c quick 2>&1)
  rc=$?
  nv=$(echo "$out" | grep -c "^VIOLATION")
  echo "SEED $(basename $D) check=$c rc=$rc violations=$nv :: $(echo "$out" | grep "^VIOLATION" | sed 's/.*signature=//' | cut -c1-90 | sort -u | head -3 | tr '\n' '|')"
done
git -C /repo worktree remove --force $WT
